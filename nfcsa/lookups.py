# -*- coding: utf-8 -*-
"""Implicit KeyError sites: subscript loads on a dict literal with a computed key.

A site `T[k]` is safe when the tests that dominate it (and that can be folded for a candidate value of the key text)
leave only keys of T; otherwise it is handed to the escape analysis as an implicit `KeyError` raise site.  The table is
a local bound exactly once to a dict display in the same function, a module level name or a class attribute bound to a
dict display with constant keys.  Candidate key values are 0..1023, -1, 65535 and the keys of the table themselves
(keys are message/frame octets and small enumerations everywhere in this code base; a table with non-constant keys or
a key that is a plain parameter name is not a site of this rule).
"""
import ast

from .model import norm, walk_no_nested, FuncInfo
from .cfg import cfg_of
from .q import try_const, cfg_node_for


def _table(prog, f, expr):
    """dict value (python dict of folded keys) for the table expression, or None."""
    if isinstance(expr, ast.Dict):
        d = try_const(ast.Dict(keys=expr.keys, values=[ast.Constant(0) for _ in expr.values]))
        return d if isinstance(d, dict) else None
    if isinstance(expr, ast.Name):
        binds = [s for s in ast.walk(f.node) if isinstance(s, ast.Assign) and any(norm(t) == expr.id for t in s.targets)]
        others = [s for s in ast.walk(f.node) if isinstance(s, (ast.AugAssign, ast.AnnAssign, ast.For, ast.With)) and expr.id in
                  [n.id for n in ast.walk(s.target if hasattr(s, 'target') else s) if isinstance(n, ast.Name) and isinstance(n.ctx, ast.Store)]]
        if len(binds) == 1 and not others and expr.id not in f.params:
            return _table(prog, f, binds[0].value) if isinstance(binds[0].value, ast.Dict) else None
        if not binds and expr.id not in f.params:
            v = prog.module_attr(f.module.name, expr.id)
            if isinstance(v, tuple) and v[0] == 'expr' and isinstance(v[1], ast.Dict):
                return _table(prog, f, v[1])
        return None
    if isinstance(expr, ast.Attribute) and f.cls is not None and norm(expr.value) in ('self', 'cls', f.cls.name):
        v = prog.lookup(f.cls, expr.attr)
        if isinstance(v, tuple) and len(v) > 2 and isinstance(v[2], ast.Dict):
            return _table(prog, f, v[2])
    return None


def _mentions(test, text):
    return any(norm(n) == text for n in ast.walk(test))


def sites(prog, funcs):
    """-> ({qname: [(node, 'KeyError', text)]}, n_sites_examined, n_proved)"""
    out = {}
    n = proved = 0
    for f in funcs:
        cfg = None
        for x in walk_no_nested(f.node):
            if not (isinstance(x, ast.Subscript) and isinstance(x.ctx, ast.Load)):
                continue
            if isinstance(x.slice, (ast.Constant, ast.Slice)):
                continue
            tab = _table(prog, f, x.value)
            if tab is None:
                continue
            if isinstance(x.slice, ast.Name) and x.slice.id in f.params:
                continue
            n += 1
            ktxt = norm(x.slice)
            cfg = cfg or cfg_of(f)
            tgt = cfg_node_for(cfg, x)
            cands = set(range(0, 1024)) | {-1, 65535} | set(tab)
            if tgt is not None:
                dom = cfg.dominators().get(tgt, ())
                for e, t in cfg.test_nodes.items():
                    if t not in dom or not _mentions(e, ktxt):
                        continue
                    via_true = tgt in cfg.reachable(t, avoid_edges=[(t, 'false')])
                    via_false = tgt in cfg.reachable(t, avoid_edges=[(t, 'true')])
                    if via_true and via_false:
                        continue
                    keep = set()
                    for v in cands:
                        r = try_const(e, {ktxt: v}, default=NotImplemented)
                        if r is NotImplemented or bool(r) == via_true:
                            keep.add(v)
                    cands = keep
            missing = sorted((v for v in cands if v not in tab), key=repr)
            if not missing:
                proved += 1
                continue
            out.setdefault(f.qname, []).append(
                (x, 'KeyError', '%s [the table has no entry for %s = %s%s]' % (norm(x), ktxt, ', '.join(repr(v) for v in missing[:4]),
                                                                             ', ...' if len(missing) > 4 else '')))
    return out, n, proved


def param_tables(prog, funcs):
    """[(callee FuncInfo, parameter position (self excluded), parameter name, keys)] for functions that index a dict display
    (a local bound once, with constant keys) with one of their own parameters."""
    out = []
    for f in funcs:
        seen = set()
        for x in walk_no_nested(f.node):
            if isinstance(x, ast.Subscript) and isinstance(x.ctx, ast.Load) and isinstance(x.slice, ast.Name) and x.slice.id in f.params:
                tab = _table(prog, f, x.value)
                if tab is None or x.slice.id in seen:
                    continue
                # the parameter must not be re-bound before the lookup (a default substitution `if p is None: p = q` is followed)
                seen.add(x.slice.id)
                params = [p for p in f.params if p not in ('self', 'cls')]
                out.append((f, params.index(x.slice.id), x.slice.id, set(tab)))
    return out


def check_table_callers(report, prog, rule, callee, pos, pname, keys, callers, accepted=None):
    """Every call of `callee` (matched by method name on any receiver) in `callers` passes, at parameter `pos`, a constant key of
    the table, a value taken from a constant sequence of keys, or a value that a dominating membership test restricts to keys."""
    from .core import key
    n = 0
    accepted = accepted or {}
    for g in callers:
        calls_ = [c for c in walk_no_nested(g.node) if isinstance(c, ast.Call) and isinstance(c.func, ast.Attribute) and c.func.attr == callee.name]
        if not calls_:
            continue
        cfg = cfg_of(g)
        for c in calls_:
            kw = {k.arg: k.value for k in c.keywords}
            arg = kw.get(pname, c.args[pos] if len(c.args) > pos else None)
            if arg is None:
                continue
            n += 1
            k_ = key(g.qname, '%s() is called with a key of its table' % callee.name, c)
            v = try_const(arg, default=NotImplemented)
            okk = v is not NotImplemented and v in keys
            if not okk and isinstance(arg, ast.Name):
                binds = [a for a in walk_no_nested(g.node) if isinstance(a, ast.Assign) and any(norm(t) == arg.id for t in a.targets)]
                if len(binds) == 1 and isinstance(binds[0].value, ast.Subscript):
                    seq = try_const(binds[0].value.value, default=None)
                    okk = isinstance(seq, (tuple, list)) and bool(seq) and all(e in keys for e in seq)
            if not okk:
                text = norm(arg)
                edges = []
                for e, t in cfg.test_nodes.items():
                    if isinstance(e, ast.Compare) and len(e.ops) == 1 and norm(e.left) == text:
                        vals = try_const(e.comparators[0], default=None)
                        if isinstance(vals, (tuple, list, set, frozenset)) and set(vals) <= keys:
                            if isinstance(e.ops[0], ast.NotIn):
                                edges.append((t, 'false'))
                            elif isinstance(e.ops[0], ast.In):
                                edges.append((t, 'true'))
                        elif isinstance(e.ops[0], ast.Eq) and try_const(e.comparators[0], default=NotImplemented) in keys:
                            edges.append((t, 'true'))
                node = cfg_node_for(cfg, c)
                okk = bool(edges) and node is not None and node not in cfg.reachable(cfg.entry, avoid_edges=edges)
            if not okk and (g.qname, norm(c)) in accepted:
                report.suppress(rule, k_, accepted[(g.qname, norm(c))])
                continue
            report.check(okk, rule, k_, g.loc(c),
                         '%s calls %s(%s) without restricting the value to the keys of its table (%s): another value raises KeyError out of the '
                         'driver' % (g.qname, callee.name, norm(arg), ', '.join(sorted(map(str, keys)))[:80]))
    return n
