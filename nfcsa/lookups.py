# -*- coding: utf-8 -*-
"""Implicit KeyError sites: subscript loads on a dict literal with a computed key.

A site `T[k]` is safe when the tests that dominate it (and that can be folded for a candidate value of the key text)
leave only keys of T; otherwise it is handed to the escape analysis as an implicit `KeyError` raise site.  The table is
a local bound exactly once to a dict display in the same function, a module level name or a class attribute bound to a
dict display with constant keys.  Candidate key values are 0..1023, -1, 65535 and the keys of the table themselves
(keys are message/frame octets and small enumerations everywhere in this code base; a table with non-constant keys or
a key that is a plain parameter name is not a site of this rule).
"""
import ast

from .model import norm, walk_no_nested, FuncInfo
from .cfg import cfg_of
from .q import try_const, cfg_node_for


def _table(prog, f, expr):
    """dict value (python dict of folded keys) for the table expression, or None."""
    if isinstance(expr, ast.Dict):
        d = try_const(ast.Dict(keys=expr.keys, values=[ast.Constant(0) for _ in expr.values]))
        return d if isinstance(d, dict) else None
    if isinstance(expr, ast.Name):
        binds = [s for s in ast.walk(f.node) if isinstance(s, ast.Assign) and any(norm(t) == expr.id for t in s.targets)]
        others = [s for s in ast.walk(f.node) if isinstance(s, (ast.AugAssign, ast.AnnAssign, ast.For, ast.With)) and expr.id in
                  [n.id for n in ast.walk(s.target if hasattr(s, 'target') else s) if isinstance(n, ast.Name) and isinstance(n.ctx, ast.Store)]]
        if len(binds) == 1 and not others and expr.id not in f.params:
            return _table(prog, f, binds[0].value) if isinstance(binds[0].value, ast.Dict) else None
        if not binds and expr.id not in f.params:
            v = prog.module_attr(f.module.name, expr.id)
            if isinstance(v, tuple) and v[0] == 'expr' and isinstance(v[1], ast.Dict):
                return _table(prog, f, v[1])
        return None
    if isinstance(expr, ast.Attribute) and f.cls is not None and norm(expr.value) in ('self', 'cls', f.cls.name):
        v = prog.lookup(f.cls, expr.attr)
        if isinstance(v, tuple) and len(v) > 2 and isinstance(v[2], ast.Dict):
            return _table(prog, f, v[2])
    return None


def _mentions(test, text):
    return any(norm(n) == text for n in ast.walk(test))


def sites(prog, funcs):
    """-> ({qname: [(node, 'KeyError', text)]}, n_sites_examined, n_proved)"""
    out = {}
    n = proved = 0
    for f in funcs:
        cfg = None
        for x in walk_no_nested(f.node):
            if not (isinstance(x, ast.Subscript) and isinstance(x.ctx, ast.Load)):
                continue
            if isinstance(x.slice, (ast.Constant, ast.Slice)):
                continue
            tab = _table(prog, f, x.value)
            if tab is None:
                continue
            if isinstance(x.slice, ast.Name) and x.slice.id in f.params:
                continue
            n += 1
            ktxt = norm(x.slice)
            cfg = cfg or cfg_of(f)
            tgt = cfg_node_for(cfg, x)
            cands = set(range(0, 1024)) | {-1, 65535} | set(tab)
            if tgt is not None:
                dom = cfg.dominators().get(tgt, ())
                for e, t in cfg.test_nodes.items():
                    if t not in dom or not _mentions(e, ktxt):
                        continue
                    via_true = tgt in cfg.reachable(t, avoid_edges=[(t, 'false')])
                    via_false = tgt in cfg.reachable(t, avoid_edges=[(t, 'true')])
                    if via_true and via_false:
                        continue
                    keep = set()
                    for v in cands:
                        r = try_const(e, {ktxt: v}, default=NotImplemented)
                        if r is NotImplemented or bool(r) == via_true:
                            keep.add(v)
                    cands = keep
            missing = sorted((v for v in cands if v not in tab), key=repr)
            if not missing:
                proved += 1
                continue
            out.setdefault(f.qname, []).append(
                (x, 'KeyError', '%s [the table has no entry for %s = %s%s]' % (norm(x), ktxt, ', '.join(repr(v) for v in missing[:4]),
                                                                             ', ...' if len(missing) > 4 else '')))
    return out, n, proved
