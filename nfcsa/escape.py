# -*- coding: utf-8 -*-
"""E3 -- interprocedural exception-escape analysis.

Esc(f, ctx) = {exception class key: Witness}: classes that may leave function f when analysed
with `self` rooted at ctx.root.  Sources: explicit raise, assert, a catalogue of library calls,
implicit raise sites supplied by E4 (optional callback), boundary summaries for calls that a
rule treats as an interface (assume/guarantee)."""
import ast

from .model import ClassInfo, FuncInfo, norm, head, walk_no_nested
from .resolve import Ctx, Target
from .q import const as _const, NotConst as _NotConst


class Item(object):
    """One escaping exception class with its witness chain and origin."""
    __slots__ = ('exc', 'origin', 'chain', 'site_func', 'site_text', 'entry', 'node')

    def __init__(self, exc, origin, chain, site_func, site_text, entry=None, node=None):
        self.entry = entry          # statement of the entry function through which it escapes (split_entry)
        self.node = node            # ast node of the raise site (not part of the identity)
        self.exc = exc
        self.origin = origin        # explicit | assert | catalog | implicit | boundary | unknown
        self.chain = chain          # list of 'file:line func: construct'
        self.site_func = site_func  # qualname of the function that contains the raise site
        self.site_text = site_text  # normalised construct at the raise site

    def via(self, frame):
        return Item(self.exc, self.origin, [frame] + self.chain[:11], self.site_func, self.site_text, self.entry, self.node)

    def ident(self):
        return (self.exc, self.site_func, self.site_text, self.entry)

    def __repr__(self):
        return '<%s from %s: %s>' % (self.exc, self.site_func, self.site_text)


# external callables that raise on bad *data* (not on programming errors)
CATALOG = {
    'binascii.unhexlify': ['binascii.Error'],
    'binascii.a2b_hex': ['binascii.Error'],
    'ndef.message_decoder': ['ndef.DecodeError'],
    'ndef.message_encoder': ['ndef.EncodeError'],
}
# method names on untyped receivers, only consulted when the rule asks for it
METHOD_CATALOG = {}


class Escape(object):
    def __init__(self, prog, resolver, boundaries=None, implicit=None, asserts=True,
                 skip_funcs=(), method_catalog=None, catalog=None, max_depth=40, split_entry=False, raise_helpers=()):
        self.raise_helpers = set(raise_helpers)     # functions that only build and raise: their callers are the raise sites
        self.p = prog
        self.r = resolver
        self.boundaries = boundaries or {}      # func qname -> list of exception keys (summary)
        self.implicit = implicit                # callable(func, ctx) -> list of (node, exc_key, text)
        self.asserts = asserts
        self.skip_funcs = set(skip_funcs)
        self.method_catalog = method_catalog or {}
        self.catalog = dict(CATALOG)
        if catalog:
            self.catalog.update(catalog)
        self.memo = {}
        self.memo_aux = {}
        self.inprogress = set()
        self.cyclic = False
        self.analysed = set()
        self.call_sites = 0
        self.unresolved_sites = []
        self.opaque_sites = []
        self.max_depth = max_depth
        self.split_entry = split_entry      # key items additionally by the entry function's statement

    # ------------------------------------------------------------------ public
    def esc(self, func, ctx):
        """Fixpoint wrapper."""
        for _ in range(12):
            self.cyclic = False
            before = {k: set(v) for k, v in self.memo.items()}
            self._done = set()
            res = self._esc(func, ctx, 0)
            after = {k: set(v) for k, v in self.memo.items()}
            if not self.cyclic or before == after:
                return res
        return res

    def of_stmt(self, func, ctx, stmt):
        """Exceptions that may escape one statement (or expression) of func; handlers that lexically
        enclose the statement are NOT applied (the caller's CFG has the exceptional edges)."""
        self._done = getattr(self, '_done', set())
        env = {'func': func, 'ctx': ctx, 'depth': 0, 'caught': None, 'caught_name': None}
        if isinstance(stmt, ast.stmt):
            if isinstance(stmt, (ast.If, ast.While)):
                return self._expr(stmt.test, env)
            if isinstance(stmt, ast.For):
                return self._expr(stmt.iter, env)
            if isinstance(stmt, ast.With):
                out = {}
                for it in stmt.items:
                    self._merge(out, self._expr(it.context_expr, env))
                return out
            return self._stmt(stmt, env)
        return self._expr(stmt, env)

    def _esc(self, func, ctx, depth, consts=None):
        consts = consts or {}
        try:
            ck = frozenset(consts.items())
            hash(ck)
        except TypeError:
            consts, ck = {}, frozenset()
        k = (func.qname, ctx.key() if ctx else None, ck)
        if k in self._done:
            return self.memo[k]
        if k in self.inprogress or depth > self.max_depth:
            self.cyclic = True
            return self.memo.get(k, {})
        self.inprogress.add(k)
        self.analysed.add(k)
        try:
            env = {'func': func, 'ctx': ctx, 'depth': depth, 'caught': None, 'caught_name': None, 'consts': consts}
            res = self._block(func.node.body, env)
            if self.implicit is not None:
                for node, exc, text in self.implicit(func, ctx):
                    if not self._handled_lexically(func, node, exc):
                        it = Item(exc, 'implicit', [self._frame(func, node, text)], func.qname, text)
                        res.setdefault(it.ident(), it)
        finally:
            self.inprogress.discard(k)
        old = self.memo.get(k, {})
        merged = dict(old)
        for e, it in res.items():
            merged.setdefault(e, it)
        self.memo[k] = merged
        self._done.add(k)
        return merged

    # ------------------------------------------------------------------ helpers
    def _reassigned(self, func, before_line):
        """Names stored anywhere inside a loop or textually before `before_line` (flow-insensitive but order aware)."""
        k = ('reassigned', func.qname)
        if k not in self.memo_aux:
            stores = []
            for n in walk_no_nested(func.node):
                if isinstance(n, ast.Name) and isinstance(n.ctx, ast.Store):
                    in_loop = False
                    p = getattr(n, '_parent', None)
                    while p is not None and p is not func.node:
                        if isinstance(p, (ast.For, ast.While)):
                            in_loop = True
                        p = getattr(p, '_parent', None)
                    stores.append((n.id, n.lineno, in_loop))
            self.memo_aux[k] = stores
        return set(n for n, ln, lp in self.memo_aux[k] if lp or ln < before_line)

    def _call_consts(self, call, callee):
        """Callee parameters bound to literals by this call (incl. literal defaults of omitted parameters)."""
        a = callee.node.args
        params = [x.arg for x in a.args]
        if callee.cls is not None and callee.kind not in ('staticmethod',) and params:
            params = params[1:]
        out = {}
        if any(isinstance(x, ast.Starred) for x in call.args) or any(k.arg is None for k in call.keywords):
            return out
        given = set()
        for p_, arg in zip(params, call.args):
            given.add(p_)
            try:
                v = _const(arg)
                if isinstance(v, (int, str, bytes, bool, type(None))):
                    out[p_] = v
            except Exception:
                pass
        for kw in call.keywords:
            given.add(kw.arg)
            try:
                v = _const(kw.value)
                if isinstance(v, (int, str, bytes, bool, type(None))):
                    out[kw.arg] = v
            except Exception:
                pass
        defaults = a.defaults
        dparams = [x.arg for x in a.args][len(a.args) - len(defaults):]
        for p_, d in zip(dparams, defaults):
            if p_ not in given and p_ in params:
                try:
                    v = _const(d)
                    if isinstance(v, (int, str, bytes, bool, type(None))):
                        out[p_] = v
                except Exception:
                    pass
        return out

    def _frame(self, func, node, text=None):
        return '%s %s: %s' % (func.loc(node), func.qname.replace('nfc.', '', 1), text or head(node))

    def _handled_lexically(self, func, node, exc):
        """Is `node` inside a try body of func whose handlers catch exc?  (used for implicit sites,
        which are reported per node rather than through the statement walk)"""
        prev = node
        p = getattr(node, '_parent', None)
        while p is not None and p is not func.node:
            if isinstance(p, ast.Try) and any(prev is s for s in p.body):
                for h in p.handlers:
                    if self._handler_matches(func, h, exc):
                        return True
            prev = p
            p = getattr(p, '_parent', None)
        return False

    def _handler_keys(self, func, h):
        if h.type is None:
            return ['BaseException']
        types = h.type.elts if isinstance(h.type, ast.Tuple) else [h.type]
        keys = []
        for t in types:
            keys.append(self._class_key(func, t))
        return keys

    def _class_key(self, func, expr, ctx=None):
        r = self.r._static(func, expr, ctx) if isinstance(expr, (ast.Name, ast.Attribute)) else None
        if r is None:
            return 'UNKNOWN:' + norm(expr)
        if r[0] == 'class':
            return r[1].qname
        if r[0] == 'ext':
            return self.p.exc_key(r)
        return 'UNKNOWN:' + norm(expr)

    def _handler_matches(self, func, h, exc):
        for hk in self._handler_keys(func, h):
            if hk == 'BaseException' or self.p.exc_is_sub(exc, hk):
                return True
        return False

    def _merge(self, a, b):
        for e, it in b.items():
            a.setdefault(e, it)
        return a

    # ------------------------------------------------------------------ statements
    def _block(self, stmts, env):
        out = {}
        for st in stmts:
            self._merge(out, self._stmt(st, env))
        return out

    def _stmt(self, st, env):
        func = env['func']
        if isinstance(st, (ast.FunctionDef, ast.AsyncFunctionDef, ast.ClassDef)):
            return {}
        if isinstance(st, ast.If):
            out = self._expr(st.test, env)
            decided = None
            cs = env.get('consts')
            if cs:
                # parameters bound to literals at the call site decide argument guards
                names = set(x.id for x in ast.walk(st.test) if isinstance(x, ast.Name)) - \
                    {'len', 'type', 'int', 'str', 'bytes', 'bytearray', 'isinstance', 'bool', 'min', 'max'}
                if names and names <= set(cs) and not (names & self._reassigned(func, st.lineno)):
                    try:
                        decided = bool(_const(st.test, cs))
                    except Exception:
                        decided = None
            if decided is not False:
                self._merge(out, self._block(st.body, env))
            if decided is not True:
                self._merge(out, self._block(st.orelse, env))
            return out
        if isinstance(st, ast.While):
            out = self._expr(st.test, env)
            self._merge(out, self._block(st.body, env))
            self._merge(out, self._block(st.orelse, env))
            return out
        if isinstance(st, (ast.For, ast.AsyncFor)):
            out = self._expr(st.iter, env)
            self._merge(out, self._block(st.body, env))
            self._merge(out, self._block(st.orelse, env))
            return out
        if isinstance(st, (ast.With, ast.AsyncWith)):
            out = {}
            for it in st.items:
                self._merge(out, self._expr(it.context_expr, env))
            self._merge(out, self._block(st.body, env))
            return out
        if isinstance(st, ast.Try):
            body = self._block(st.body, env)
            out = {}
            caught = [dict() for _ in st.handlers]
            for e, it in body.items():
                for i, h in enumerate(st.handlers):
                    if self._handler_matches(func, h, it.exc):
                        caught[i][e] = it
                        break
                else:
                    out[e] = it
            self._merge(out, self._block(st.orelse, env))
            for h, c in zip(st.handlers, caught):
                henv = dict(env)
                henv['caught'] = c
                henv['caught_name'] = h.name
                henv['handler_keys'] = self._handler_keys(func, h)
                self._merge(out, self._block(h.body, henv))
            self._merge(out, self._block(st.finalbody, env))
            return out
        if isinstance(st, ast.Raise):
            return self._raise(st, env)
        if isinstance(st, ast.Assert):
            out = self._expr(st.test, env)
            if self.asserts:
                text = head(st)
                it = Item('AssertionError', 'assert', [self._frame(func, st, text)], func.qname, text, node=st)
                out.setdefault(it.ident(), it)
            return out
        # simple statements: every expression inside
        out = {}
        for child in ast.iter_child_nodes(st):
            if isinstance(child, ast.expr):
                self._merge(out, self._expr(child, env))
        if self.split_entry and env['depth'] == 0 and out:
            tag = head(st)
            out = {}
            for child in ast.iter_child_nodes(st):
                if isinstance(child, ast.expr):
                    for it in self._expr(child, env).values():
                        it2 = Item(it.exc, it.origin, it.chain, it.site_func, it.site_text, tag, it.node)
                        out.setdefault(it2.ident(), it2)
        # attribute stores on typed receivers trigger property setters
        if isinstance(st, (ast.Assign, ast.AugAssign)):
            targets = st.targets if isinstance(st, ast.Assign) else [st.target]
            for t in targets:
                for tt in (t.elts if isinstance(t, (ast.Tuple, ast.List)) else [t]):
                    if isinstance(tt, ast.Attribute):
                        self._merge(out, self._setter(tt, env))
        return out

    def _raise(self, st, env):
        func = env['func']
        out = {}
        if st.exc is None:
            # bare raise: re-raise what the handler caught
            return self._reraise(st, env)
        exc = st.exc
        if isinstance(exc, ast.Name) and env.get('caught_name') == exc.id:
            return self._reraise(st, env)
        # evaluate argument expressions
        if isinstance(exc, ast.Call):
            for a in list(exc.args) + [k.value for k in exc.keywords]:
                self._merge(out, self._expr(a, env))
            cls_expr = exc.func
        else:
            cls_expr = exc
        r = self.r._static(func, cls_expr, env['ctx']) if isinstance(cls_expr, (ast.Name, ast.Attribute)) else None
        text = head(st)
        if r is not None and r[0] == 'class':
            k = r[1].qname
            it0 = Item(k, 'explicit', [self._frame(func, st, text)], func.qname, text, node=st)
            out.setdefault(it0.ident(), it0)
            # constructor may raise too
            if isinstance(exc, ast.Call):
                init = self.p.lookup(r[1], '__init__')
                if isinstance(init, FuncInfo):
                    sub = self._esc(init, Ctx(r[1]), env['depth'] + 1)
                    for e, it in sub.items():
                        out.setdefault(e, it.via(self._frame(func, st, text)))
        elif r is not None and r[0] == 'ext':
            k = self.p.exc_key(r)
            it0 = Item(k, 'explicit', [self._frame(func, st, text)], func.qname, text, node=st)
            out.setdefault(it0.ident(), it0)
        elif isinstance(exc, ast.Call) and isinstance(cls_expr, ast.Attribute) and \
                self._exc_class_of_factory(func, cls_expr, env) is not None:
            # raise SomeError.from_xxx(...): a factory (static/class method) of an exception class
            k = self._exc_class_of_factory(func, cls_expr, env)
            it0 = Item(k, 'explicit', [self._frame(func, st, text)], func.qname, text)
            out.setdefault(it0.ident(), it0)
            self._merge(out, self._expr(exc, env))
        elif isinstance(exc, ast.Call):
            # raise self.chipset_error(x): the call itself raises
            self._merge(out, self._expr(exc, env))
            if not out:
                k = 'UNKNOWN:' + norm(cls_expr)
                it0 = Item(k, 'unknown', [self._frame(func, st, text)], func.qname, text)
                out[it0.ident()] = it0
        else:
            # raise <local variable>: a stored exception object
            k = 'UNKNOWN:' + norm(cls_expr)
            stored = self._stored_exception(cls_expr, env)
            if stored:
                for kk in stored:
                    it0 = Item(kk, 'explicit', [self._frame(func, st, text)], func.qname, text)
                    out.setdefault(it0.ident(), it0)
            else:
                it0 = Item(k, 'unknown', [self._frame(func, st, text)], func.qname, text)
                out[it0.ident()] = it0
        return out

    def _exc_class_of_factory(self, func, attr, env):
        r = self.r._static(func, attr.value, env['ctx']) if isinstance(attr.value, (ast.Name, ast.Attribute)) else None
        if r is not None and r[0] == 'class' and self.p.exc_is_sub(r[1].qname, 'Exception'):
            m = self.p.lookup(r[1], attr.attr)
            if isinstance(m, FuncInfo) and m.kind in ('staticmethod', 'classmethod'):
                return r[1].qname
        return None

    def _stored_exception(self, expr, env):
        """raise error  where error was assigned from an except-variable elsewhere in the function."""
        return []

    def _reraise(self, st, env):
        func = env['func']
        caught = env.get('caught')
        out = {}
        if caught is None:
            k = 'UNKNOWN:reraise'
            it0 = Item(k, 'unknown', [self._frame(func, st)], func.qname, head(st))
            out[it0.ident()] = it0
            return out
        for e, it in caught.items():
            out.setdefault(e, it)
        return out

    # ------------------------------------------------------------------ expressions
    def _expr(self, expr, env):
        out = {}
        if expr is None:
            return out
        func, ctx = env['func'], env['ctx']
        for n in walk_no_nested(expr):
            if isinstance(n, ast.Call):
                self._merge(out, self._call(n, env))
            elif isinstance(n, ast.Attribute) and isinstance(n.ctx, ast.Load):
                par = getattr(n, '_parent', None)
                if isinstance(par, ast.Call) and par.func is n:
                    continue
                self._merge(out, self._getter(n, env))
            elif isinstance(n, ast.Subscript) and isinstance(n.ctx, ast.Load):
                self._merge(out, self._dunder(n.value, '__getitem__', n, env))
        return out

    def _dunder(self, recv, name, node, env):
        func, ctx = env['func'], env['ctx']
        out = {}
        if isinstance(recv, (ast.Constant, ast.Tuple, ast.List, ast.Dict)):
            return out
        for t in self.r.types_of(func, recv, ctx):
            f = self.p.lookup(t, name)
            if isinstance(f, FuncInfo):
                owner = self.r.self_class(func, ctx)
                tctx = ctx if (ctx is not None and ctx.root is t) else Ctx(t, owner)
                sub = self._target_esc(Target(f, tctx), env)
                fr = self._frame(func, node, norm(node))
                for e, it in sub.items():
                    out.setdefault(e, it.via(fr))
        return out

    def _getter(self, n, env):
        func, ctx = env['func'], env['ctx']
        out = {}
        # skip static references (module.attr, Class.attr)
        root = n
        while isinstance(root, ast.Attribute):
            root = root.value
        if not isinstance(root, (ast.Name, ast.Call)):
            return out
        if isinstance(root, ast.Name) and root.id not in self.r._assigned_names(func) \
                and not (root.id == 'self' and self.r.enclosing_method(func) is not None):
            return out
        for t in self.r.types_of(func, n.value, ctx):
            f = self.p.lookup(t, n.attr)
            if isinstance(f, FuncInfo) and f.kind == 'property':
                if isinstance(n.value, ast.Name) and n.value.id == 'self' and ctx is not None and ctx.root is t:
                    tctx = ctx
                else:
                    tctx = Ctx(t, self.r.self_class(func, ctx))
                sub = self._target_esc(Target(f, tctx), env)
                fr = self._frame(func, n, norm(n))
                for e, it in sub.items():
                    out.setdefault(e, it.via(fr))
        return out

    def _setter(self, n, env):
        func, ctx = env['func'], env['ctx']
        out = {}
        for t in self.r.types_of(func, n.value, ctx):
            f = self.p.lookup_setter(t, n.attr)
            if isinstance(f, FuncInfo):
                if isinstance(n.value, ast.Name) and n.value.id == 'self' and ctx is not None and ctx.root is t:
                    tctx = ctx
                else:
                    tctx = Ctx(t, self.r.self_class(func, ctx))
                sub = self._target_esc(Target(f, tctx), env)
                fr = self._frame(func, n, norm(n) + ' = ...')
                for e, it in sub.items():
                    out.setdefault(e, it.via(fr))
        return out

    def _target_esc(self, t, env, consts=None):
        if t.func is None:
            return {}
        q = t.func.qname
        if q in self.skip_funcs:
            return {}
        if q in self.boundaries:
            out = {}
            for k in self.boundaries[q]:
                it0 = Item(k, 'boundary', ['<interface %s may raise %s>' % (q, k)], q, 'interface summary')
                out[it0.ident()] = it0
            return out
        return self._esc(t.func, t.ctx, env['depth'] + 1, consts)

    def _call(self, call, env):
        func, ctx = env['func'], env['ctx']
        out = {}
        self.call_sites += 1
        # str(x) / repr(x) / "...".format(x): the __str__ of a repository class runs right here (not lazily as in log.debug("%s", x))
        shown = []
        if isinstance(call.func, ast.Name) and call.func.id in ('str', 'repr') and len(call.args) == 1:
            shown = [call.args[0]]
        elif isinstance(call.func, ast.Attribute) and call.func.attr == 'format' and isinstance(call.func.value, ast.Constant) \
                and isinstance(call.func.value.value, str):
            shown = list(call.args) + [k.value for k in call.keywords]
        for x in shown:
            if isinstance(x, (ast.Name, ast.Attribute)):
                self._merge(out, self._dunder(x, '__str__', call, env))
        targets = self.r.callees(func, call, ctx, record=False)
        fr = None
        if not targets:
            # method-name catalogue for untyped receivers
            if isinstance(call.func, ast.Attribute) and call.func.attr in self.method_catalog:
                ks = self.method_catalog[call.func.attr]
                if isinstance(ks, tuple):
                    ks = ks[0] if ks[1](call) else []
                for k in ks:
                    text = norm(call)
                    it0 = Item(k, 'catalog', [self._frame(func, call, text)], func.qname, text)
                    out.setdefault(it0.ident(), it0)
            self._note_unresolved(func, call)
            return out
        for t in targets:
            if t.ext is not None and t.func is None:
                name = t.ext
                ks = self.catalog.get(name)
                if ks:
                    text = norm(call)
                    for k in ks:
                        it0 = Item(k, 'catalog', [self._frame(func, call, text)], func.qname, text)
                        out.setdefault(it0.ident(), it0)
                continue
            sub = self._target_esc(t, env, self._call_consts(call, t.func) if t.func is not None and t.via != 'init' else None)
            if sub:
                fr = fr or self._frame(func, call, norm(call))
                for e, it in sub.items():
                    if it.origin == 'boundary' and it.site_text == 'interface summary':
                        # key an interface summary by the call site that crosses the interface
                        it = Item(it.exc, 'boundary', it.chain, func.qname, norm(call), it.entry, call)
                    elif t.func is not None and t.func.qname in self.raise_helpers and it.site_func == t.func.qname:
                        # a raise helper: the statement that calls it is the raise site (one item per caller, not one for all)
                        it = Item(it.exc, it.origin, it.chain, func.qname, norm(call), it.entry, call)
                    it2 = it.via(fr)
                    out.setdefault(it2.ident(), it2)
        return out

    def _note_unresolved(self, func, call):
        fn = call.func
        text = norm(fn)
        # calls on values that are clearly not repository objects are not interesting
        self.unresolved_sites.append((func, call, text))


def fmt_chain(item, limit=8):
    ch = item.chain
    if len(ch) > limit:
        ch = ch[:limit // 2] + ['...'] + ch[-(limit // 2):]
    return ch


def items_sorted(res):
    """Items of an escape result ordered by (class, raise site)."""
    return sorted(res.values(), key=lambda it: it.ident())
