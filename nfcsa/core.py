# -*- coding: utf-8 -*-
"""Obligation / report / evidence / known-finding plumbing shared by all rules."""
import hashlib
import json
import os
import sys
import time

from .model import AnalysisError, norm

VERIF = os.path.dirname(os.path.dirname(os.path.abspath(__file__)))
EVIDENCE_DIR = os.environ.get('NFCSA_EVIDENCE_DIR') or os.path.join(VERIF, 'evidence')     # override: seeded-change evaluation only
REPLAY_DIR = os.path.join(EVIDENCE_DIR, 'replay')
KNOWN_FILE = os.path.join(VERIF, 'known_findings.json')


class Failure(object):
    """One failed obligation."""

    def __init__(self, rule, key, loc, message, witness=None):
        self.rule = rule
        self.key = key              # stable string, no line numbers
        self.loc = loc              # file:line (reported, never matched)
        self.message = message
        self.witness = witness or []

    def as_dict(self):
        return {'rule': self.rule, 'key': self.key, 'loc': self.loc,
                'message': self.message, 'witness': self.witness}


class Report(object):
    """Collects the obligations of one property run."""

    def __init__(self, prop, prog=None):
        self.prop = prop
        self.prog = prog            # enables reasoned suppressions (nfcsa/triage.py)
        self.obligations = {}       # rule -> [keys]
        self.failures = []
        self.suppressed = []        # (rule, key, reason)
        self.info = []
        self.samples = []
        self.trusted = []
        self.assumptions = []
        self.stats = {}
        self.floors = []            # (rule, found, floor)
        self.deficits = []
        self.canaries = []          # (name, ok)
        self.selftest = None

    # -- obligations
    def ok(self, rule, key, loc=None, detail=None):
        self.obligations.setdefault(rule, []).append(key)
        if len(self.samples) < 400:
            s = {'rule': rule, 'obligation': key, 'status': 'discharged'}
            if loc:
                s['loc'] = loc
            if detail:
                s['detail'] = detail
            self.samples.append(s)

    def fail(self, rule, key, loc, message, witness=None):
        if self.prog is not None:
            from . import triage
            reason = triage.lookup(self.prog, self.prop, rule, key)
            if reason is not None:
                self.suppress(rule, key, reason)
                return
        self.obligations.setdefault(rule, []).append(key)
        # the same obligation may be reached through several roots: report once
        for f in self.failures:
            if f.rule == rule and f.key == key:
                return
        self.failures.append(Failure(rule, key, loc, message, witness))

    def check(self, cond, rule, key, loc, message, witness=None, detail=None):
        if cond:
            self.ok(rule, key, loc, detail)
        else:
            self.fail(rule, key, loc, message, witness)
        return cond

    def suppress(self, rule, key, reason):
        if any(x['rule'] == rule and x['key'] == key for x in self.suppressed):
            return
        self.obligations.setdefault(rule, []).append(key)
        self.suppressed.append({'rule': rule, 'key': key, 'reason': reason})

    def retract(self, pred, reason):
        """Failures for which pred(failure) holds were decided by a stronger argument given in `reason`: they are listed among the
        reasoned suppressions instead."""
        keep = []
        for f in self.failures:
            if pred(f):
                self.suppressed.append({'rule': f.rule, 'key': f.key, 'reason': reason})
            else:
                keep.append(f)
        self.failures = keep

    def run_as(self, mapping, fn, *args, **kw):
        """Run a rule function of another property and report what it checks under this property's rule ids (mapping: foreign
        rule id -> own rule id): an obligation two properties rest on is decided once and owned by both."""
        nf, ns, nfl, nd = len(self.failures), len(self.samples), len(self.floors), len(self.deficits)
        before = dict((r, len(k)) for r, k in self.obligations.items())
        fn(self, *args, **kw)
        for old, new in mapping.items():
            if old in self.obligations and old != new:
                keys = self.obligations[old]
                moved = keys[before.get(old, 0):]
                del keys[before.get(old, 0):]
                if not keys:
                    del self.obligations[old]
                self.obligations.setdefault(new, []).extend(moved)
            for f_ in self.failures[nf:]:
                if f_.rule == old:
                    f_.rule = new
            for s_ in self.samples[ns:]:
                if s_.get('rule') == old:
                    s_['rule'] = new
            for s_ in self.suppressed:
                if s_.get('rule') == old:
                    s_['rule'] = new
            self.floors[nfl:] = [((r.replace(old, new, 1) if r.startswith(old) else r), a_, b_) for r, a_, b_ in self.floors[nfl:]]
            self.deficits[nd:] = [d.replace('rule ' + old, 'rule ' + new, 1) for d in self.deficits[nd:]]

    def floor(self, rule, found, floor):
        self.floors.append((rule, found, floor))
        if found < floor:
            # decided at the end of the run: a missing instance that also produced a violation is
            # reported as the violation; a silent drop is an analysis error (vacuous pass)
            self.deficits.append('rule %s matched %d instances, floor is %d (anchor drift: '
                                 'the rule would pass vacuously)' % (rule, found, floor))

    def canary(self, name, ok):
        self.canaries.append((name, bool(ok)))
        if not ok:
            raise AnalysisError('canary %s failed: the rule does not separate the violating '
                                'fixture from its conforming twin' % name)

    def note(self, text):
        self.info.append(text)

    def count(self):
        return sum(len(v) for v in self.obligations.values())


def load_known():
    if not os.path.exists(KNOWN_FILE):
        return []
    with open(KNOWN_FILE) as f:
        return json.load(f).get('findings', [])


def finish(report, tier, level, explanation, t0, seed=0, extra=None, write=True):
    """Match failures against the known-findings file, print the verdict lines, write the
    evidence and return the exit status."""
    prop = report.prop
    known = [k for k in load_known() if k.get('property') == prop]
    known_open = {(k['rule'], k['key']): k for k in known if k.get('status') == 'known'}
    violations = []
    matched = []
    for f in report.failures:
        k = known_open.get((f.rule, f.key))
        if k is not None:
            matched.append((f, k))
        else:
            violations.append(f)
    for f, k in matched:
        print('KNOWN-FINDING: property=%s %s [%s %s at %s]' % (prop, k.get('what_fails', f.message),
                                                              f.rule, f.key, f.loc))
    stale = [k for kk, k in known_open.items() if kk not in {(f.rule, f.key) for f in report.failures}]
    for k in stale:
        print('NOTE: known finding no longer reported (repaired or moved): %s %s' % (k['rule'], k['key']))
    if write:
        os.makedirs(REPLAY_DIR, exist_ok=True)
    for f in violations:
        h = hashlib.sha1((f.rule + '|' + f.key).encode()).hexdigest()[:10]
        path = os.path.join(REPLAY_DIR, '%s-%s.json' % (prop, h))
        if write:
            with open(path, 'w') as fp:
                json.dump({'property': prop, 'failure': f.as_dict()}, fp, indent=1)
        print('  %s %s: %s' % (f.loc, f.rule, f.message))
        for w in f.witness[:8]:
            print('      via %s' % w)
        print('VIOLATION property=%s replay=%s' % (prop, path))
    n_obl = report.count()
    n_fail = len(report.failures)
    cov = {
        'explanation': explanation,
        'obligations': n_obl,
        'discharged': n_obl - n_fail,
        'evaluations': n_obl,
        'distinct_nontrivial': len(set((r, k) for r, ks in report.obligations.items() for k in ks)),
        'rule': 'one obligation per (rule, qualified function, normalised construct); distinct = distinct keys',
        'checker_cmd': ' '.join([os.path.basename(sys.executable)] + sys.argv),
        'trusted_base': report.trusted,
        'per_rule': {r: len(ks) for r, ks in sorted(report.obligations.items())},
        'instance_floors': [{'rule': r, 'found': a, 'floor': b} for r, a, b in report.floors],
        'canaries': [{'name': n, 'ok': ok} for n, ok in report.canaries],
        'failures': [f.as_dict() for f in report.failures],
        'known_findings_matched': [f.key for f, k in matched],
        'suppressed': report.suppressed,
        'notes': report.info,
        'stats': report.stats,
        'samples': report.samples[:60],
        'exhaustive': True,
    }
    if report.selftest is not None:
        cov['selftest'] = report.selftest
    if extra:
        cov.update(extra)
    ev = {
        'property_id': prop,
        'tier': tier,
        'seed': int(seed),
        'level': level,
        'coverage': cov,
        'assumptions': report.assumptions,
        'wall_s': round(time.time() - t0, 3),
        'violations': len(violations),
    }
    if write:
        os.makedirs(EVIDENCE_DIR, exist_ok=True)
        with open(os.path.join(EVIDENCE_DIR, prop + '.json'), 'w') as fp:
            json.dump(ev, fp, indent=1, sort_keys=True)
    print('%s %s: %d obligations, %d discharged, %d known findings, %d violations, %d suppressed (%.2fs)' % (
        prop, tier, n_obl, n_obl - n_fail, len(matched), len(violations), len(report.suppressed),
        time.time() - t0))
    if violations:
        return 1
    if report.deficits:
        for d in report.deficits:
            print('ANALYSIS-ERROR %s: %s' % (prop, d))
        return 2
    return 0


def key(*parts):
    return ' | '.join(norm(p) if not isinstance(p, str) else p for p in parts)
