# -*- coding: utf-8 -*-
"""E1 -- resolved program model of /repo/src/nfc built from the ast only.

Nothing from the repository is imported or executed.  The model gives:
  * modules, classes (incl. nested), functions (incl. closures, property
    setters) addressed by qualified name,
  * import / alias tables per module,
  * class hierarchy, MRO, exception-subclass tests (builtin hierarchy is taken
    from the checker's interpreter),
  * class-rooted callee resolution and a light type inference for receivers.
"""
import ast
import builtins
import os

REPO = os.environ.get('NFCSA_REPO', '/repo')
SRC = os.path.join(REPO, 'src')
PKG = 'nfc'


class AnalysisError(Exception):
    """An anchor vanished or the model cannot be built: exit 2."""


class Module(object):
    def __init__(self, name, path, tree, source, is_pkg):
        self.name = name
        self.path = path
        self.tree = tree
        self.source = source
        self.lines = source.splitlines()
        self.is_pkg = is_pkg
        self.names = {}      # top-level name -> ('module', q)|('class', C)|('func', F)|('ext', dotted)|('expr', node)

    @property
    def relpath(self):
        return os.path.relpath(self.path, REPO)

    def __repr__(self):
        return '<Module %s>' % self.name


class ClassInfo(object):
    def __init__(self, qname, node, module, outer):
        self.qname = qname
        self.name = node.name
        self.node = node
        self.module = module
        self.outer = outer          # enclosing ClassInfo or None
        self.methods = {}           # name -> FuncInfo (getter for properties)
        self.setters = {}           # name -> FuncInfo
        self.nested = {}            # name -> ClassInfo
        self.attrs = {}             # class-level assignments: name -> value node
        self.bases = []             # resolved: ClassInfo | ('ext', dotted)

    def __repr__(self):
        return '<Class %s>' % self.qname


class FuncInfo(object):
    def __init__(self, qname, node, module, cls, parent, kind='func'):
        self.qname = qname
        self.name = node.name
        self.node = node
        self.module = module
        self.cls = cls              # ClassInfo for methods (None for functions/closures)
        self.parent = parent        # enclosing FuncInfo for closures
        self.kind = kind            # func | method | property | setter | staticmethod | classmethod
        self.closures = {}          # name -> FuncInfo

    @property
    def owner_class(self):
        f = self
        while f is not None:
            if f.cls is not None:
                return f.cls
            f = f.parent
        return None

    @property
    def params(self):
        a = self.node.args
        return [x.arg for x in a.posonlyargs + a.args] + \
            ([a.vararg.arg] if a.vararg else []) + \
            [x.arg for x in a.kwonlyargs] + ([a.kwarg.arg] if a.kwarg else [])

    def loc(self, node=None):
        node = node or self.node
        return '%s:%d' % (self.module.relpath, getattr(node, 'lineno', 0))

    def __repr__(self):
        return '<Func %s>' % self.qname


def norm(node):
    """Normalised construct text of an ast node (never contains line numbers)."""
    if node is None:
        return ''
    if isinstance(node, str):
        return node
    try:
        s = ast.unparse(node)
    except Exception:
        s = ast.dump(node)
    s = ' '.join(s.split())
    return s if len(s) <= 160 else s[:157] + '...'


def head(node):
    """First line of a statement (for compound statements only the header)."""
    if isinstance(node, (ast.If, ast.While)):
        return '%s %s:' % ('if' if isinstance(node, ast.If) else 'while', norm(node.test))
    if isinstance(node, ast.For):
        return 'for %s in %s:' % (norm(node.target), norm(node.iter))
    if isinstance(node, ast.With):
        return 'with %s:' % ', '.join(norm(i) for i in node.items)
    if isinstance(node, ast.Try):
        return 'try:'
    if isinstance(node, (ast.FunctionDef, ast.ClassDef)):
        return '%s %s' % ('def' if isinstance(node, ast.FunctionDef) else 'class', node.name)
    if isinstance(node, ast.ExceptHandler):
        return 'except %s:' % norm(node.type)
    return norm(node)


def _decorator_names(fn):
    out = []
    for d in fn.decorator_list:
        if isinstance(d, ast.Name):
            out.append(d.id)
        elif isinstance(d, ast.Attribute):
            out.append(norm(d))
    return out


class Program(object):
    def __init__(self, src=None, overrides=None):
        self.renamed = []           # [(function, {current local name: reference name})] -- see nfcsa/alpha.py
        self.inlined = []           # [(new helper, number of call sites expanded)] -- see nfcsa/inline.py
        self._expanded = []
        self.new_temps = 0          # temporaries the reference does not have, substituted at their single use
        self.src = src or SRC
        self.overrides = overrides or {}    # module name -> source text (in-memory mutants)
        self.modules = {}
        self.classes = {}
        self.functions = {}
        self._mro_cache = {}
        self._load()
        self._bind_imports()
        self._resolve_bases()

    # ------------------------------------------------------------------ loading
    def _load(self):
        root = os.path.join(self.src, PKG)
        if not os.path.isdir(root):
            raise AnalysisError('source tree %s not found' % root)
        for dirpath, dirnames, filenames in sorted(os.walk(root)):
            dirnames.sort()
            for fn in sorted(filenames):
                if not fn.endswith('.py'):
                    continue
                path = os.path.join(dirpath, fn)
                rel = os.path.relpath(path, self.src)[:-3].split(os.sep)
                is_pkg = rel[-1] == '__init__'
                if is_pkg:
                    rel = rel[:-1]
                name = '.'.join(rel)
                with open(path, 'rb') as f:
                    source = f.read().decode('utf-8')
                if name in self.overrides:
                    source = self.overrides[name]
                try:
                    tree = ast.parse(source, filename=path)
                except SyntaxError as e:
                    raise AnalysisError('cannot parse %s: %s' % (path, e))
                if os.environ.get('NFCSA_NO_CANON') != '1':
                    from . import inline
                    from . import alpha as _alpha
                    for unit, mapping in _alpha.normalise_exact(name, tree):
                        self.renamed.append((name + '.' + unit, mapping))
                    for unit, n_sites, fnode in inline.expand(name, tree):
                        self.inlined.append((name + '.' + unit, n_sites))
                        self._expanded.append((tree, fnode))
                    self.new_temps += inline.inline_new_temps(name, tree)
                    self.new_temps += inline.inline_new_constants(name, tree)
                    from .canon import canonical
                    tree = canonical(tree)
                    from . import alpha
                    for unit, mapping in alpha.normalise(name, tree):
                        self.renamed.append((name + '.' + unit, mapping))
                m = Module(name, path, tree, source, is_pkg)
                self.modules[name] = m
        # an expanded helper that nothing refers to any more (every call was expanded) is dropped: its statements now live in its
        # callers, where the rules that ask "who writes X" / "is the lock held here" have to see them
        for tree, fnode in self._expanded:
            used = False
            for m in self.modules.values():
                for x in ast.walk(m.tree):
                    if (isinstance(x, ast.Name) and x.id == fnode.name) or (isinstance(x, ast.Attribute) and x.attr == fnode.name) or \
                            (isinstance(x, ast.Constant) and x.value == fnode.name):
                        used = True
            if used:
                continue
            for node in ast.walk(tree):
                for fld in ('body', 'orelse', 'finalbody'):
                    lst = getattr(node, fld, None)
                    if isinstance(lst, list) and any(c is fnode for c in lst):
                        lst[:] = [c for c in lst if c is not fnode] or [ast.Pass()]
        for m in self.modules.values():
            self._index_module(m)

    def _set_parents(self, tree):
        for node in ast.walk(tree):
            for child in ast.iter_child_nodes(node):
                child._parent = node

    def _index_module(self, m):
        self._set_parents(m.tree)
        m.tree._parent = None
        self._index_body(m, m.tree.body, m.name, None, None, m.names)

    def _index_body(self, m, body, prefix, cls, func, names):
        for st in self._flat_defs(body):
            if isinstance(st, ast.ClassDef):
                q = prefix + '.' + st.name
                ci = ClassInfo(q, st, m, cls)
                self.classes[q] = ci
                st._info = ci
                if cls is not None and func is None:
                    cls.nested[st.name] = ci
                if names is not None:
                    names[st.name] = ('class', ci)
                self._index_body(m, st.body, q, ci, None, None)
            elif isinstance(st, (ast.FunctionDef, ast.AsyncFunctionDef)):
                decs = _decorator_names(st)
                kind = 'func'
                q = prefix + '.' + st.name if func is None else prefix + '.<' + st.name + '>'
                if cls is not None and func is None:
                    kind = 'method'
                    if 'property' in decs:
                        kind = 'property'
                    elif 'staticmethod' in decs:
                        kind = 'staticmethod'
                    elif 'classmethod' in decs:
                        kind = 'classmethod'
                    elif any(d.endswith('.setter') for d in decs):
                        kind = 'setter'
                        q = q + '.setter'
                fi = FuncInfo(q, st, m, cls if func is None else None, func, kind)
                st._info = fi
                self.functions[q] = fi
                if func is not None:
                    func.closures[st.name] = fi
                elif cls is not None:
                    if kind == 'setter':
                        cls.setters[st.name] = fi
                    else:
                        cls.methods[st.name] = fi
                if names is not None:
                    names[st.name] = ('func', fi)
                # closures and nested classes inside the function
                self._index_body(m, st.body, q, None, fi, None)
            elif isinstance(st, ast.Assign) and func is None:
                if cls is not None:
                    for t in st.targets:
                        if isinstance(t, ast.Name):
                            cls.attrs[t.id] = st.value
                        elif isinstance(t, ast.Tuple) and isinstance(st.value, ast.Tuple) \
                                and len(t.elts) == len(st.value.elts):
                            for a, b in zip(t.elts, st.value.elts):
                                if isinstance(a, ast.Name):
                                    cls.attrs[a.id] = b
                elif names is not None:
                    for t in st.targets:
                        if isinstance(t, ast.Name):
                            names[t.id] = ('expr', st.value)
                        elif isinstance(t, ast.Tuple) and isinstance(st.value, ast.Tuple) \
                                and len(t.elts) == len(st.value.elts):
                            for a, b in zip(t.elts, st.value.elts):
                                if isinstance(a, ast.Name):
                                    names[a.id] = ('expr', b)

    def _flat_defs(self, body):
        """Statements of a body incl. those nested in if/try/with/for/while at the
        same scope (defs inside control flow still define names in the scope)."""
        for st in body:
            yield st
            if isinstance(st, (ast.If, ast.For, ast.While, ast.With, ast.Try)):
                for field in ('body', 'orelse', 'finalbody'):
                    sub = getattr(st, field, None)
                    if sub:
                        for x in self._flat_defs(sub):
                            yield x
                if isinstance(st, ast.Try):
                    for h in st.handlers:
                        for x in self._flat_defs(h.body):
                            yield x

    # ------------------------------------------------------------------ imports
    def _bind_imports(self):
        for m in self.modules.values():
            pkg = m.name if m.is_pkg else m.name.rsplit('.', 1)[0]
            for st in ast.walk(m.tree):
                if isinstance(st, ast.Import):
                    top = self._scope_is_module(st)
                    for a in st.names:
                        if a.asname:
                            tgt = ('module', a.name) if a.name in self.modules else ('ext', a.name)
                            if top:
                                m.names.setdefault(a.asname, tgt)
                        else:
                            first = a.name.split('.')[0]
                            tgt = ('module', first) if first in self.modules else ('ext', first)
                            # import anywhere in the module binds for our purposes
                            m.names.setdefault(first, tgt)
                elif isinstance(st, ast.ImportFrom):
                    base = st.module or ''
                    if st.level:
                        parts = pkg.split('.')
                        parts = parts[:len(parts) - (st.level - 1)]
                        base = '.'.join(parts + ([st.module] if st.module else []))
                    for a in st.names:
                        local = a.asname or a.name
                        full = base + '.' + a.name
                        if full in self.modules:
                            tgt = ('module', full)
                        elif base in self.modules:
                            tgt = ('from', base, a.name)
                        else:
                            tgt = ('ext', full)
                        m.names.setdefault(local, tgt)

    def _scope_is_module(self, node):
        p = getattr(node, '_parent', None)
        while p is not None:
            if isinstance(p, (ast.FunctionDef, ast.ClassDef, ast.Lambda)):
                return False
            p = getattr(p, '_parent', None)
        return True

    def module_attr(self, modname, attr, _seen=None):
        """Resolve `modname.attr` to ('module'|'class'|'func'|'ext'|'expr', ...) or None."""
        _seen = _seen or set()
        if (modname, attr) in _seen:
            return None
        _seen.add((modname, attr))
        m = self.modules.get(modname)
        if m is None:
            return ('ext', modname + '.' + attr)
        sub = modname + '.' + attr
        ent = m.names.get(attr)
        if ent is None:
            if sub in self.modules:
                return ('module', sub)
            return None
        if ent[0] == 'from':
            r = self.module_attr(ent[1], ent[2], _seen)
            return r
        if ent[0] == 'expr':
            r = self.resolve_expr(m, ent[1], _seen=_seen)
            return r if r is not None else ent
        return ent

    def resolve_expr(self, module, expr, scope=None, _seen=None):
        """Resolve a Name/Attribute chain used as a *static* reference.
        scope: FuncInfo in which the expression occurs (for closures)."""
        if isinstance(expr, ast.Name):
            f = scope
            while f is not None:
                if expr.id in f.closures:
                    return ('func', f.closures[expr.id])
                f = f.parent
            # enclosing class scope is not visible from methods; module scope:
            r = self.module_attr(module.name, expr.id, _seen)
            if r is None and hasattr(builtins, expr.id):
                return ('ext', 'builtins.' + expr.id)
            return r
        if isinstance(expr, ast.Attribute):
            base = self.resolve_expr(module, expr.value, scope, _seen)
            if base is None:
                return None
            if base[0] == 'module':
                return self.module_attr(base[1], expr.attr, _seen)
            if base[0] == 'ext':
                return ('ext', base[1] + '.' + expr.attr)
            if base[0] == 'class':
                ci = base[1]
                for c in self.mro(ci):
                    if isinstance(c, ClassInfo):
                        if expr.attr in c.nested:
                            return ('class', c.nested[expr.attr])
                        if expr.attr in c.methods:
                            return ('func', c.methods[expr.attr])
                        if expr.attr in c.attrs:
                            r = self.resolve_expr(c.module, c.attrs[expr.attr])
                            return r if r is not None else ('expr', c.attrs[expr.attr])
                return None
        return None

    # ------------------------------------------------------------------ classes
    def _resolve_bases(self):
        for ci in self.classes.values():
            ci.bases = []
            for b in ci.node.bases:
                r = None
                # a nested class may name a sibling/outer-scope class by bare name
                if isinstance(b, ast.Name) and ci.outer is not None and b.id in ci.outer.nested:
                    r = ('class', ci.outer.nested[b.id])
                if r is None:
                    r = self.resolve_expr(ci.module, b)
                if r is None:
                    ci.bases.append(('ext', norm(b)))
                elif r[0] == 'class':
                    ci.bases.append(r[1])
                elif r[0] == 'ext':
                    ci.bases.append(('ext', r[1]))
                else:
                    ci.bases.append(('ext', norm(b)))

    def mro(self, ci):
        """Linearisation (C3 where possible, else DFS left-to-right, de-duplicated)."""
        if ci in self._mro_cache:
            return self._mro_cache[ci]
        seqs = []
        for b in ci.bases:
            if isinstance(b, ClassInfo):
                seqs.append(list(self.mro(b)))
            else:
                seqs.append([b])
        seqs.append(list(ci.bases))
        res = [ci]
        seqs = [s for s in seqs if s]
        while seqs:
            for s in seqs:
                cand = s[0]
                if not any(cand in t[1:] for t in seqs):
                    break
            else:
                cand = seqs[0][0]
            res.append(cand)
            seqs = [[x for x in s if x != cand] for s in seqs]
            seqs = [s for s in seqs if s]
        self._mro_cache[ci] = res
        return res

    def lookup(self, ci, name, after=None):
        """Find method `name` through MRO(ci); after=ClassInfo starts after that class."""
        mro = self.mro(ci)
        if after is not None:
            if after in mro:
                mro = mro[mro.index(after) + 1:]
            else:
                mro = self.mro(after)[1:]
        for c in mro:
            if isinstance(c, ClassInfo):
                if name in c.methods:
                    return c.methods[name]
                if name in c.attrs:
                    return ('attr', c, c.attrs[name])
        return None

    def lookup_setter(self, ci, name):
        for c in self.mro(ci):
            if isinstance(c, ClassInfo) and name in c.setters:
                return c.setters[name]
        return None

    def subclasses(self, ci, strict=False):
        out = []
        for c in self.classes.values():
            if ci in self.mro(c) and (c is not ci or not strict):
                out.append(c)
        return sorted(out, key=lambda c: c.qname)

    def cls(self, qname):
        c = self.classes.get(qname)
        if c is None:
            raise AnalysisError('anchor class %s not found' % qname)
        return c

    def func(self, qname):
        f = self.functions.get(qname)
        if f is None:
            raise AnalysisError('anchor function %s not found' % qname)
        return f

    # ----------------------------------------------------- exception hierarchy
    def exc_key(self, c):
        """Stable string key of an exception class (ClassInfo or ('ext', name))."""
        if isinstance(c, ClassInfo):
            return c.qname
        name = c[1]
        if name.startswith('builtins.'):
            name = name[len('builtins.'):]
        return EXT_ALIASES.get(name, name)

    def _ext_pyclass(self, name):
        name = EXT_ALIASES.get(name, name)
        if name.startswith('builtins.'):
            name = name[9:]
        obj = getattr(builtins, name, None)
        if isinstance(obj, type) and issubclass(obj, BaseException):
            return obj
        return EXT_EXC.get(name)

    def exc_ancestors(self, key):
        """All ancestor keys (incl. itself) of an exception class key."""
        out = []
        c = self.classes.get(key)
        if c is not None:
            for k in self.mro(c):
                if isinstance(k, ClassInfo):
                    out.append(k.qname)
                else:
                    out.extend(self.exc_ancestors(self.exc_key(k)))
            return out
        py = self._ext_pyclass(key)
        if py is not None:
            names = []
            for k in py.__mro__:
                if k is object:
                    continue
                n = k.__name__ if k.__module__ == 'builtins' else k.__module__ + '.' + k.__name__
                names.append(EXT_ALIASES.get(n, n))
            if key not in names:
                names.insert(0, key)
            return names
        if key in EXT_BASES:
            return [key] + self.exc_ancestors(EXT_BASES[key])
        return [key, 'Exception', 'BaseException']

    def exc_is_sub(self, key, handler_key):
        return handler_key in self.exc_ancestors(key)


import binascii as _binascii
import struct as _struct
import socket as _socket

EXT_ALIASES = {
    'IOError': 'OSError', 'EnvironmentError': 'OSError', 'socket.error': 'OSError',
    'select.error': 'OSError', 'exceptions.IOError': 'OSError',
}
# third-party exception hierarchy (documented by the libraries; they are not importable here)
EXT_BASES = {
    'usb1.USBErrorTimeout': 'usb1.USBError', 'usb1.USBErrorNoDevice': 'usb1.USBError', 'usb1.USBErrorIO': 'usb1.USBError',
    'usb1.USBErrorAccess': 'usb1.USBError', 'usb1.USBErrorBusy': 'usb1.USBError', 'usb1.USBErrorPipe': 'usb1.USBError',
    'usb1.USBError': 'Exception',
    'serial.SerialTimeoutException': 'serial.SerialException', 'serial.SerialException': 'OSError',
    'ndef.DecodeError': 'Exception', 'ndef.EncodeError': 'Exception',
}
EXT_EXC = {
    'struct.error': _struct.error,
    'binascii.Error': _binascii.Error,
    'socket.timeout': _socket.timeout,
    'socket.gaierror': _socket.gaierror,
}


def walk_no_nested(node, include_self=True):
    """ast.walk that does not descend into nested function/class/lambda bodies."""
    stack = [node]
    first = True
    while stack:
        n = stack.pop()
        if not first and isinstance(n, (ast.FunctionDef, ast.AsyncFunctionDef, ast.ClassDef, ast.Lambda)):
            continue
        if include_self or not first:
            yield n
        first = False
        stack.extend(reversed(list(ast.iter_child_nodes(n))))


def enclosing(node, types):
    p = getattr(node, '_parent', None)
    while p is not None and not isinstance(p, types):
        p = getattr(p, '_parent', None)
    return p


def enclosing_stmt(node):
    while node is not None and not isinstance(node, ast.stmt):
        node = getattr(node, '_parent', None)
    return node


def ancestors(node):
    p = getattr(node, '_parent', None)
    while p is not None:
        yield p
        p = getattr(p, '_parent', None)


def clone(node):
    """Deep copy of an ast subtree without the _parent/_info back pointers."""
    if isinstance(node, list):
        return [clone(x) for x in node]
    if not isinstance(node, ast.AST):
        return node
    new = node.__class__()
    for f in node._fields:
        if hasattr(node, f):
            setattr(new, f, clone(getattr(node, f)))
    for a in ('lineno', 'col_offset', 'end_lineno', 'end_col_offset'):
        if hasattr(node, a):
            setattr(new, a, getattr(node, a))
    return new


def inert(stmt):
    """Statements that cannot matter for any property: logging calls, `pass`, bare string expressions (doc strings).
    Shape rules compare statement lists through live() so that an added or removed log line is not a change."""
    if isinstance(stmt, ast.Pass):
        return True
    if isinstance(stmt, ast.Expr):
        v = stmt.value
        if isinstance(v, ast.Constant) and isinstance(v.value, str):
            return True
        if isinstance(v, ast.Call) and isinstance(v.func, ast.Attribute):
            recv = norm(v.func.value)
            if recv in ('log', 'self.log', 'logging', 'logger', 'self.logger') and v.func.attr in ('debug', 'info', 'warning', 'warn', 'error', 'critical', 'exception', 'log'):
                return True
    return False


def live(body):
    return [s for s in body if not inert(s)]


def last_live(body):
    """Last statement of a body that is not inert, or None."""
    b = live(body)
    return b[-1] if b else None
