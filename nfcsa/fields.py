# -*- coding: utf-8 -*-
"""Fixed-position field reads, independent of the idiom: `a, b = struct.unpack_from('>BxL', buf)`, `b = struct.unpack('>L',
buf[2:6])[0]`, `b, = struct.unpack_from('>L', buf, 2)` and `a = buf[0]` all say the same thing -- name := big endian integer of
`size` bytes at constant offset `off` of buffer `buf`.  field_reads() lists them for a function."""
import ast
import re

from .model import norm, walk_no_nested
from .q import try_const

_SIZES = {'B': 1, 'b': 1, 'H': 2, 'h': 2, 'L': 4, 'l': 4, 'I': 4, 'i': 4, 'Q': 8, 'q': 8}


def layout(fmt):
    """'>BxL' -> [(offset, size, endian)] for the integer fields; None for formats this module does not read (native alignment,
    strings, floats)."""
    if not isinstance(fmt, str) or not fmt or fmt[0] not in '<>!':
        return None
    endian = 'le' if fmt[0] == '<' else 'be'
    out, off = [], 0
    for cnt, ch in re.findall(r'(\d*)([A-Za-z?])', fmt[1:]):
        k = int(cnt) if cnt else 1
        if ch == 'x':
            off += k
        elif ch in _SIZES:
            for _ in range(k):
                out.append((off, _SIZES[ch], endian if _SIZES[ch] > 1 else 'be'))
                off += _SIZES[ch]
        else:
            return None
    if ''.join('%s%s' % (c, ch) for c, ch in re.findall(r'(\d*)([A-Za-z?])', fmt[1:])) != fmt[1:].replace(' ', ''):
        return None
    return out


def _unpack(call):
    """-> (buffer text, base offset, layout) for struct.unpack_from(F, buf[, off]) / struct.unpack(F, buf[a:b]) / unpack..."""
    if not isinstance(call, ast.Call) or call.keywords:
        return None
    name = norm(call.func)
    if name in ('struct.unpack_from', 'unpack_from') and len(call.args) in (2, 3):
        lay = layout(try_const(call.args[0]))
        off = try_const(call.args[2]) if len(call.args) == 3 else 0
        if lay is None or not isinstance(off, int):
            return None
        return norm(call.args[1]), off, lay
    if name in ('struct.unpack', 'unpack') and len(call.args) == 2:
        lay = layout(try_const(call.args[0]))
        b = call.args[1]
        if lay is None:
            return None
        if isinstance(b, ast.Subscript) and isinstance(b.slice, ast.Slice) and b.slice.step is None:
            lo = try_const(b.slice.lower) if b.slice.lower is not None else 0
            if not isinstance(lo, int) or lo < 0:
                return None
            hi = try_const(b.slice.upper) if b.slice.upper is not None else None
            if hi is not None and (not isinstance(hi, int) or hi - lo != sum(s for o, s, e in lay[-1:]) + lay[-1][0]):
                return None
            return norm(b.value), lo, lay
        return norm(b), 0, lay
    return None


def field_reads(node):
    """-> {name: [(buffer text, offset, size, endian)]} for the assignments in the function (nested functions excluded)."""
    out = {}

    def add(name, buf, off, size, endian):
        out.setdefault(name, []).append((buf, off, size, endian))
    for st in walk_no_nested(node):
        if not (isinstance(st, ast.Assign) and len(st.targets) == 1):
            continue
        t, v = st.targets[0], st.value
        # x = buf[k]
        if isinstance(t, ast.Name) and isinstance(v, ast.Subscript) and not isinstance(v.slice, ast.Slice):
            k = try_const(v.slice)
            if isinstance(k, int) and k >= 0 and not isinstance(v.value, ast.Call):
                add(t.id, norm(v.value), k, 1, 'be')
                continue
        # x = unpack(...)[i]
        if isinstance(t, ast.Name) and isinstance(v, ast.Subscript) and isinstance(v.value, ast.Call):
            u = _unpack(v.value)
            i = try_const(v.slice)
            if u and isinstance(i, int) and 0 <= i < len(u[2]):
                o, s_, e = u[2][i]
                add(t.id, u[0], u[1] + o, s_, e)
            continue
        # a, b = unpack(...)   /   a, = unpack(...)
        if isinstance(t, (ast.Tuple, ast.List)) and all(isinstance(e, ast.Name) for e in t.elts):
            u = _unpack(v)
            if u and len(u[2]) == len(t.elts):
                for e_, (o, s_, en) in zip(t.elts, u[2]):
                    add(e_.id, u[0], u[1] + o, s_, en)
    return out
