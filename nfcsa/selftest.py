# -*- coding: utf-8 -*-
"""Checker self-test (thorough tier): each rule module lists mutation operators
   (name, module, old_text, new_text, expected_rule)
that are applied IN MEMORY to the parsed source (Program(overrides=...)); the property's
rules must fire with the expected rule id.  Results go to the evidence; they never turn a
clean tree into exit 1.  A mutant whose anchor text is absent (tree has changed) is skipped."""
import multiprocessing
import os
import time
import traceback


def _run_one(args):
    prop, modname, m = args
    import importlib
    from .model import Program, AnalysisError
    from .core import Report, load_known
    name, module, old, new, expect = m[:5]
    try:
        mod = importlib.import_module(modname)
        base = Program()
        src = base.modules[module].source
        pairs = old if isinstance(old, list) else [(old, new)]
        every = len(m) > 5 and m[5] == 'all'       # sibling implementations (both run loops, both roles) are changed alike
        for o, n in pairs:
            if src.count(o) != 1 and not (every and src.count(o) > 1):
                return (name, 'skipped', 'anchor text occurs %d times' % src.count(o))
            src = src.replace(o, n)
        prog = Program(overrides={module: src})
        rep = Report(prop, prog)
        try:
            mod.run(rep, prog, 'quick')
        except AnalysisError as e:
            return (name, 'analysis-error', str(e)[:200])
        known = {(k['rule'], k['key']) for k in load_known() if k.get('property') == prop and k.get('status') == 'known'}
        fails = [f for f in rep.failures if (f.rule, f.key) not in known]
        hit = [f for f in fails if f.rule.startswith(expect)]
        if hit:
            return (name, 'killed', '%s: %s' % (hit[0].rule, hit[0].message[:160]))
        if fails:
            return (name, 'killed-other', '%s: %s' % (fails[0].rule, fails[0].message[:160]))
        if rep.deficits:
            return (name, 'analysis-error', rep.deficits[0][:200])
        return (name, 'survived', '')
    except Exception:
        return (name, 'crash', traceback.format_exc()[-300:])


def _parse_patch(text):
    """unified diff -> {repo relative path: [(first old line number, old block, new block), ...]} (context lines on both sides)"""
    import re
    files = {}
    cur = None
    start = 0
    old, new = [], []

    def flush():
        if cur is not None and (old or new):
            files.setdefault(cur, []).append((start, '\n'.join(old), '\n'.join(new)))
    for line in text.splitlines():
        if line.startswith('+++ '):
            flush()
            old, new = [], []
            cur = line[4:].strip()
            cur = cur[2:] if cur.startswith('b/') else cur
        elif line.startswith('--- ') or line.startswith('diff ') or line.startswith('index '):
            continue
        elif line.startswith('@@'):
            flush()
            old, new = [], []
            m = re.match(r'@@ -(\d+)', line)
            start = int(m.group(1)) if m else 0
        elif cur is not None:
            if line.startswith('+'):
                new.append(line[1:])
            elif line.startswith('-'):
                old.append(line[1:])
            elif line.startswith(' ') or line == '':
                old.append(line[1:])
                new.append(line[1:])
    flush()
    return files


def _apply_hunks(src, hunks):
    """Apply hunks to a source text: at the recorded line when the old block is there, else at its only occurrence."""
    lines = src.split('\n')
    shift = 0
    for start, o, n in hunks:
        ol, nl = o.split('\n'), n.split('\n')
        pos = start - 1 + shift
        if not (0 <= pos and lines[pos:pos + len(ol)] == ol):
            hits = [i for i in range(len(lines) - len(ol) + 1) if lines[i:i + len(ol)] == ol]
            if not hits:
                return None, 0
            pos = min(hits, key=lambda i: abs(i - pos))        # like git apply: the match nearest to the recorded line
        lines[pos:pos + len(ol)] = nl
        shift += len(nl) - len(ol)
    return '\n'.join(lines), 1


def _run_seeded(args):
    prop, modname, name, patch_path = args
    import importlib
    from .model import Program, AnalysisError
    from .core import Report, load_known
    try:
        mod = importlib.import_module(modname)
        base = Program()
        overrides = {}
        for rel, hunks in _parse_patch(open(patch_path).read()).items():
            parts = rel[:-3].split('/')
            if parts[0] == 'src':
                parts = parts[1:]
            if parts[-1] == '__init__':
                parts = parts[:-1]
            m = '.'.join(parts)
            if m not in base.modules:
                return (name, 'skipped', 'module %s not analysed' % m)
            src, hits = _apply_hunks(overrides.get(m, base.modules[m].source), hunks)
            if src is None:
                return (name, 'skipped', 'a hunk matches %d places in %s (tree has moved on)' % (hits, m))
            overrides[m] = src
        prog = Program(overrides=overrides)
        rep = Report(prop, prog)
        try:
            mod.run(rep, prog, 'quick')
        except AnalysisError as e:
            return (name, 'analysis-error', str(e)[:200])
        known = {(k['rule'], k['key']) for k in load_known() if k.get('property') == prop and k.get('status') == 'known'}
        fails = [f for f in rep.failures if (f.rule, f.key) not in known]
        if fails:
            return (name, 'killed', '%s: %s' % (fails[0].rule, fails[0].message[:160]))
        if rep.deficits:
            return (name, 'analysis-error', rep.deficits[0][:200])
        return (name, 'survived', '')
    except Exception:
        return (name, 'crash', traceback.format_exc()[-300:])


def seeded_args(prop, mod):
    here = os.path.dirname(os.path.dirname(os.path.abspath(__file__)))
    d = os.path.join(here, 'seeded', prop)
    out = []
    if os.path.isdir(d):
        for n in sorted(os.listdir(d)):
            pth = os.path.join(d, n, 'patch.diff')
            if os.path.exists(pth) and not os.path.exists(os.path.join(d, n, 'OBSOLETE')):
                out.append((prop, mod.__name__, 'seeded/%s/%s' % (prop, n), pth))
    return out


def run_selftest(prop, mod, jobs=None):
    muts = getattr(mod, 'MUTANTS', [])
    t0 = time.time()
    jobs = jobs or min(16, max(1, len(muts)))
    args = [(prop, mod.__name__, m) for m in muts]
    sargs = seeded_args(prop, mod)
    if not args and not sargs:
        return {'mutants': 0}
    with multiprocessing.Pool(jobs) as pool:
        res = pool.map(_run_one, args) if args else []
        sres = pool.map(_run_seeded, sargs) if sargs else []
    out = {'mutants': len(res),
           'killed': sum(1 for r in res if r[1] == 'killed'),
           'killed_by_other_rule': sum(1 for r in res if r[1] == 'killed-other'),
           'analysis_error': sum(1 for r in res if r[1] == 'analysis-error'),
           'survived': [r[0] for r in res if r[1] == 'survived'],
           'skipped': [r[0] for r in res if r[1] == 'skipped'],
           'crashed': [r[0] for r in res if r[1] == 'crash'],
           'details': [{'mutant': r[0], 'result': r[1], 'by': r[2]} for r in res],
           'seeded_changes': {'total': len(sres), 'detected': sum(1 for r in sres if r[1] == 'killed'),
                              'missed': [r[0] for r in sres if r[1] == 'survived'],
                              'not_applicable_any_more': [r[0] for r in sres if r[1] in ('skipped',)],
                              'details': [{'change': r[0], 'result': r[1], 'by': r[2]} for r in sres]},
           'wall_s': round(time.time() - t0, 2)}
    if sres:
        out['seeded_changes']['analysis_error'] = [r[0] for r in sres if r[1] not in ('killed', 'survived', 'skipped')]
        print('self-test %s: %d seeded changes applied in memory, %d detected, missed %s, analysis-error %s, skipped %s' % (
            prop, len(sres), out['seeded_changes']['detected'], out['seeded_changes']['missed'], out['seeded_changes']['analysis_error'],
            out['seeded_changes']['not_applicable_any_more']))
    print('self-test %s: %d mutants, %d killed, %d by another rule, %d analysis-error, survived %s, skipped %s, crashed %s' % (
        prop, out['mutants'], out['killed'], out['killed_by_other_rule'], out['analysis_error'],
        out['survived'], out['skipped'], out['crashed']))
    return out
