# -*- coding: utf-8 -*-
"""Checker self-test (thorough tier): each rule module lists mutation operators
   (name, module, old_text, new_text, expected_rule)
that are applied IN MEMORY to the parsed source (Program(overrides=...)); the property's
rules must fire with the expected rule id.  Results go to the evidence; they never turn a
clean tree into exit 1.  A mutant whose anchor text is absent (tree has changed) is skipped."""
import multiprocessing
import os
import time
import traceback


def _run_one(args):
    prop, modname, m = args
    import importlib
    from .model import Program, AnalysisError
    from .core import Report, load_known
    name, module, old, new, expect = m[:5]
    try:
        mod = importlib.import_module(modname)
        base = Program()
        src = base.modules[module].source
        pairs = old if isinstance(old, list) else [(old, new)]
        for o, n in pairs:
            if src.count(o) != 1:
                return (name, 'skipped', 'anchor text occurs %d times' % src.count(o))
            src = src.replace(o, n)
        prog = Program(overrides={module: src})
        rep = Report(prop, prog)
        try:
            mod.run(rep, prog, 'quick')
        except AnalysisError as e:
            return (name, 'analysis-error', str(e)[:200])
        known = {(k['rule'], k['key']) for k in load_known() if k.get('property') == prop and k.get('status') == 'known'}
        fails = [f for f in rep.failures if (f.rule, f.key) not in known]
        hit = [f for f in fails if f.rule.startswith(expect)]
        if hit:
            return (name, 'killed', '%s: %s' % (hit[0].rule, hit[0].message[:160]))
        if fails:
            return (name, 'killed-other', '%s: %s' % (fails[0].rule, fails[0].message[:160]))
        if rep.deficits:
            return (name, 'analysis-error', rep.deficits[0][:200])
        return (name, 'survived', '')
    except Exception:
        return (name, 'crash', traceback.format_exc()[-300:])


def run_selftest(prop, mod, jobs=None):
    muts = getattr(mod, 'MUTANTS', [])
    t0 = time.time()
    jobs = jobs or min(16, max(1, len(muts)))
    args = [(prop, mod.__name__, m) for m in muts]
    if not args:
        return {'mutants': 0}
    with multiprocessing.Pool(jobs) as pool:
        res = pool.map(_run_one, args)
    out = {'mutants': len(res),
           'killed': sum(1 for r in res if r[1] == 'killed'),
           'killed_by_other_rule': sum(1 for r in res if r[1] == 'killed-other'),
           'analysis_error': sum(1 for r in res if r[1] == 'analysis-error'),
           'survived': [r[0] for r in res if r[1] == 'survived'],
           'skipped': [r[0] for r in res if r[1] == 'skipped'],
           'crashed': [r[0] for r in res if r[1] == 'crash'],
           'details': [{'mutant': r[0], 'result': r[1], 'by': r[2]} for r in res],
           'wall_s': round(time.time() - t0, 2)}
    print('self-test %s: %d mutants, %d killed, %d by another rule, %d analysis-error, survived %s, skipped %s, crashed %s' % (
        prop, out['mutants'], out['killed'], out['killed_by_other_rule'], out['analysis_error'],
        out['survived'], out['skipped'], out['crashed']))
    return out
