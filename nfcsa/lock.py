# -*- coding: utf-8 -*-
"""E5 -- lexical lock-set analysis."""
import ast

from .model import norm, ancestors, walk_no_nested, FuncInfo


def lexical_locks(node, stop, lock_exprs):
    """Normalised lock expressions of the `with` statements lexically enclosing `node`
    up to (not including) the function node `stop`."""
    held = set()
    prev = node
    for a in ancestors(node):
        if a is stop:
            break
        if isinstance(a, ast.With):
            # only the body is protected, not the items themselves
            if any(prev is s for s in a.body) or _within(prev, a.body):
                for it in a.items:
                    t = norm(it.context_expr)
                    if t in lock_exprs:
                        held.add(lock_exprs[t])
        if isinstance(a, (ast.FunctionDef, ast.Lambda)):
            break
        prev = a
    return held


def _within(node, body):
    return any(node is s for s in body)


class LockSets(object):
    """Lock sets for one class.  lock_exprs: {normalised with-expression: lock name};
    Condition objects created on a lock are aliases of it."""

    def __init__(self, prog, cls, lock_exprs):
        self.p = prog
        self.cls = cls
        self.lock_exprs = lock_exprs
        self.escapes = []       # closures that escape (stored / passed), as (FuncInfo, node)
        self._closure_cache = {}

    def held_at(self, func, node):
        """Locks held when `node` (inside func, possibly a closure) executes."""
        held = lexical_locks(node, func.node, self.lock_exprs)
        if func.parent is not None:
            held |= self.closure_entry_locks(func)
        return held

    def closure_entry_locks(self, closure):
        """Intersection of the locks held at every call site of a closure in its parents."""
        if closure in self._closure_cache:
            return self._closure_cache[closure]
        self._closure_cache[closure] = set()
        parent = closure.parent
        sets = []
        for n in ast.walk(parent.node):
            if isinstance(n, ast.Name) and n.id == closure.name and isinstance(n.ctx, ast.Load):
                # find the function in which this use occurs
                user = parent
                for a in ancestors(n):
                    if isinstance(a, ast.FunctionDef):
                        user = getattr(a, '_info', parent)
                        break
                par = getattr(n, '_parent', None)
                if isinstance(par, ast.Call) and par.func is n:
                    sets.append(self.held_at(user, par))
                else:
                    self.escapes.append((closure, n))
                    sets.append(set())
        res = set.intersection(*sets) if sets else set()
        self._closure_cache[closure] = res
        return res
