# -*- coding: utf-8 -*-
"""Transitive callee closure over the class-rooted resolver (effect rules: who may reach a command that changes the tag)."""
import ast

from .model import walk_no_nested


def closure(prog, res, func, ctx, limit=4000):
    """{qname: (FuncInfo, chain)} of every repository function reachable from `func` analysed under `ctx`; chain is the list of
    `caller:line callee` steps of one witness path.  Nested functions and lambdas of a visited function are included."""
    seen = {}
    work = [(func, ctx, [])]
    while work:
        f, c, chain = work.pop()
        k = (f.qname, c.key() if c is not None and hasattr(c, 'key') else None)
        if k in seen:
            continue
        seen[k] = (f, chain)
        if len(seen) > limit:
            break
        for call in ast.walk(f.node):
            if not isinstance(call, ast.Call):
                continue
            try:
                tg = res.callees(f, call, c, record=False)
            except Exception:
                tg = []
            for t in tg:
                if t.func is not None:
                    work.append((t.func, t.ctx if t.ctx is not None else c, chain + ['%s:%d' % (f.qname, getattr(call, 'lineno', 0))]))
    out = {}
    for (q, _), (f, chain) in seen.items():
        if q not in out or len(chain) < len(out[q][1]):
            out[q] = (f, chain)
    return out
