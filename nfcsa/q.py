# -*- coding: utf-8 -*-
"""Query helpers: AST patterns with metavariables, guard/dominance queries, constant folding."""
import ast
import operator

from .model import norm, walk_no_nested, enclosing_stmt, ancestors, AnalysisError
from .cfg import cfg_of

_pat_cache = {}


def pat(src):
    """Compile a pattern.  $name = metavariable matching any expression (same name must bind to
    structurally equal expressions); $_ = wildcard.  Statement or expression patterns."""
    if src in _pat_cache:
        return _pat_cache[src]
    text = src.replace('$', '__MV_')
    tree = ast.parse(text)
    node = tree.body[0]
    if isinstance(node, ast.Expr):
        node = node.value
    _pat_cache[src] = node
    return node


def _is_mv(n):
    return isinstance(n, ast.Name) and n.id.startswith('__MV_')


def match(node, pattern, binds=None):
    """Structural match of `node` against compiled/str pattern; returns binding dict or None."""
    if isinstance(pattern, str):
        pattern = pat(pattern)
    binds = {} if binds is None else binds
    return binds if _m(node, pattern, binds) else None


def _m(n, p, b):
    if _is_mv(p):
        name = p.id[5:]
        if name == '_':
            return True
        if name in b:
            return ast.dump(b[name]) == ast.dump(n) if isinstance(n, ast.AST) else False
        b[name] = n
        return True
    if isinstance(p, ast.Attribute) and p.attr.startswith('__MV_'):
        if not isinstance(n, ast.Attribute):
            return False
        name = p.attr[5:]
        if name != '_':
            if name in b and b[name] != n.attr:
                return False
            b[name] = n.attr
        return _m(n.value, p.value, b)
    if type(n) is not type(p):
        return False
    if isinstance(p, ast.Constant):
        return type(p.value) is type(n.value) and p.value == n.value
    for field in p._fields:
        if field in ('ctx', 'type_comment', 'kind', 'lineno'):
            continue
        pv = getattr(p, field, None)
        nv = getattr(n, field, None)
        if isinstance(pv, list):
            if not isinstance(nv, list) or len(pv) != len(nv):
                return False
            for a, c in zip(nv, pv):
                if isinstance(c, ast.AST):
                    if not _m(a, c, b):
                        return False
                elif a != c:
                    return False
        elif isinstance(pv, ast.AST):
            if not isinstance(nv, ast.AST) or not _m(nv, pv, b):
                return False
        else:
            if pv != nv:
                return False
    return True


def find(root, pattern, nested=False):
    """All sub-nodes of root matching the pattern: list of (node, binds)."""
    if isinstance(pattern, str):
        pattern = pat(pattern)
    out = []
    it = ast.walk(root) if nested else walk_no_nested(root)
    for n in it:
        b = match(n, pattern)
        if b is not None:
            out.append((n, b))
    return out


def find1(root, pattern, what=None, nested=False):
    r = find(root, pattern, nested)
    if len(r) != 1:
        raise AnalysisError('anchor %s: expected exactly one match, found %d' % (what or norm(pat(pattern) if isinstance(pattern, str) else pattern), len(r)))
    return r[0]


def stmts(func, pred=None, types=None):
    out = []
    for n in walk_no_nested(func.node):
        if isinstance(n, ast.stmt) and n is not func.node:
            if types is not None and not isinstance(n, types):
                continue
            if pred is None or pred(n):
                out.append(n)
    return out


def calls(root, name=None, attr=None, nested=False):
    out = []
    it = ast.walk(root) if nested else walk_no_nested(root)
    for n in it:
        if isinstance(n, ast.Call):
            if name is not None and not (isinstance(n.func, ast.Name) and n.func.id == name):
                continue
            if attr is not None and not (isinstance(n.func, ast.Attribute) and n.func.attr == attr):
                continue
            out.append(n)
    return out


# ------------------------------------------------------------------ guards
def cfg_node_for(cfg, node):
    """The CFG node that evaluates ast `node` (the enclosing simple statement or test)."""
    # test nodes first (conditions of if/while/assert)
    for expr, tn in cfg.test_nodes.items():
        if expr is node or any(x is node for x in ast.walk(expr)):
            return tn
    st = enclosing_stmt(node)
    while st is not None:
        n = cfg.node_of(st)
        if n is not None:
            if isinstance(st, (ast.For,)):
                # iter expression node vs body head
                if any(x is node for x in ast.walk(st.iter)):
                    return n
                return [x for x in cfg.nodes if x.kind == 'for' and x.ast is st][0]
            return n
        st = enclosing_stmt(getattr(st, '_parent', None))
    return None


def guard_edges(cfg, classify):
    """classify(expr) -> 'true' | 'false' | None : label of the edge on which the guard has
    *passed* (execution may continue to the protected action)."""
    edges = []
    for expr, n in cfg.test_nodes.items():
        lab = classify(expr)
        if lab in ('true', 'false'):
            edges.append((n, lab))
    return edges


def only_via(cfg, target, pass_edges, src=None, ps=True, avoid_nodes=()):
    """True iff every path src->target uses one of pass_edges' *nodes* and leaves it on the
    passing label -- i.e. target is unreachable when the passing edges are removed.
    Returns (ok, witness_path)."""
    if target is None:
        raise AnalysisError('only_via: target node missing')
    src = src or cfg.entry
    if ps:
        reach = cfg.reachable_ps(src, avoid_edges=pass_edges, avoid_nodes=avoid_nodes)
    else:
        reach = cfg.reachable(src, avoid_edges=pass_edges, avoid_nodes=avoid_nodes)
    if target in reach:
        return False, cfg.path(src, target, avoid_edges=pass_edges, avoid_nodes=avoid_nodes)
    return True, None


def tests(cfg, text=None, pred=None):
    """Test nodes whose condition text contains `text` / satisfies pred."""
    out = []
    for expr, n in cfg.test_nodes.items():
        t = norm(expr)
        if text is not None and text not in t:
            continue
        if pred is not None and not pred(expr):
            continue
        out.append(n)
    return sorted(out, key=lambda n: n.id)


def stmt_nodes(cfg, text=None, pred=None, kinds=('stmt',)):
    out = []
    for n in cfg.nodes:
        if n.kind not in kinds or n.ast is None:
            continue
        if text is not None and text not in norm(n.ast):
            continue
        if pred is not None and not pred(n.ast):
            continue
        out.append(n)
    return out


def one(lst, what):
    if len(lst) != 1:
        raise AnalysisError('anchor %s: expected exactly one, found %d' % (what, len(lst)))
    return lst[0]


def some(lst, what, n=1):
    if len(lst) < n:
        raise AnalysisError('anchor %s: expected at least %d, found %d' % (what, n, len(lst)))
    return lst


def fmt(cfg, path):
    return [cfg.fmt_path(path)] if path else []


def never_before(cfg, target, forbidden_nodes, src=None):
    """True iff no path src->target passes a forbidden node (target reachable only ... )."""
    src = src or cfg.entry
    for f in forbidden_nodes:
        if f is target:
            continue
        if f in cfg.reachable(src) and target in cfg.reachable(f):
            return False, cfg.path(src, f) + cfg.path(f, target)[1:]
    return True, None


# ------------------------------------------------------------------ constants
_BIN = {ast.Add: operator.add, ast.Sub: operator.sub, ast.Mult: operator.mul, ast.FloorDiv: operator.floordiv,
        ast.Mod: operator.mod, ast.LShift: operator.lshift, ast.RShift: operator.rshift,
        ast.BitOr: operator.or_, ast.BitAnd: operator.and_, ast.BitXor: operator.xor, ast.Pow: operator.pow,
        ast.Div: operator.truediv}


_CMP = {ast.Eq: operator.eq, ast.NotEq: operator.ne, ast.Lt: operator.lt, ast.LtE: operator.le,
        ast.Gt: operator.gt, ast.GtE: operator.ge, ast.Is: operator.is_, ast.IsNot: operator.is_not,
        ast.In: lambda a, b: a in b, ast.NotIn: lambda a, b: a not in b}


class NotConst(Exception):
    pass


class FoldObject(object):
    """base class of objects a rule puts into the environment of a fold: their methods are called as written in the source"""


def _args(nodes, env):
    out = []
    for a in nodes:
        if isinstance(a, ast.Starred):
            out.extend(const(a.value, env))
        else:
            out.append(const(a, env))
    return out


_MUTATORS = ('append', 'appendleft', 'extend', 'pop', 'popleft', 'remove', 'clear', 'add', 'discard', 'update', 'insert', 'setdefault')


def _owned(node, env):
    """the mutable container (list, dict, set, deque, bytearray) that the environment of the fold holds under this name / attribute
    text, or None"""
    import collections
    if env is None:
        return None
    k = node.id if isinstance(node, ast.Name) else norm(node) if isinstance(node, ast.Attribute) else None
    v = env.get(k) if k is not None else None
    return v if isinstance(v, (list, dict, set, bytearray, collections.deque)) else None


class FoldStructError(NotConst):
    """the folded expression raises struct.error"""


def const(node, env=None):
    """Fold a constant expression (ints, bytes, str, tuples, lists, dicts, simple calls)."""
    env = env or {}
    if isinstance(node, ast.Constant):
        return node.value
    if isinstance(node, ast.Name):
        if node.id in env:
            return env[node.id]
        if node.id in ('int', 'str', 'bytes', 'bytearray', 'bool', 'tuple', 'list', 'dict', 'slice'):
            return {'int': int, 'str': str, 'bytes': bytes, 'bytearray': bytearray, 'bool': bool, 'tuple': tuple, 'list': list,
                    'dict': dict, 'slice': slice}[node.id]
        raise NotConst(node.id)
    if isinstance(node, ast.Attribute):
        t = norm(node)
        if t in env:
            return env[t]
        try:
            base = const(node.value, env)
        except NotConst:
            base = None
        if isinstance(base, FoldObject) and hasattr(base, node.attr):
            return getattr(base, node.attr)         # attribute of an object the rule models
        raise NotConst(t)
    if isinstance(node, ast.Call) and env and norm(node) in env:
        return env[norm(node)]          # e.g. {'len(data)': 2}: case analysis over a call the rule has bounded
    if isinstance(node, ast.Compare):
        left = const(node.left, env)
        for op, c in zip(node.ops, node.comparators):
            right = const(c, env)
            r = _CMP[type(op)](left, right)
            if not r:
                return False
            left = right
        return True
    if isinstance(node, ast.BoolOp):
        if isinstance(node.op, ast.And):
            v = True
            for e in node.values:
                v = const(e, env)
                if not v:
                    return v
            return v
        v = False
        for e in node.values:
            v = const(e, env)
            if v:
                return v
        return v
    if isinstance(node, ast.IfExp):
        return const(node.body, env) if const(node.test, env) else const(node.orelse, env)
    if isinstance(node, (ast.GeneratorExp, ast.ListComp, ast.SetComp, ast.DictComp)):
        # comprehension over foldable iterables (finite enumeration by the checker)
        out = []

        def rec(i, e):
            if i == len(node.generators):
                out.append((const(node.key, e), const(node.value, e)) if isinstance(node, ast.DictComp) else const(node.elt, e))
                return
            g = node.generators[i]
            if g.is_async:
                raise NotConst('async comprehension')
            for v in const(g.iter, e):
                e2 = dict(e)
                if isinstance(g.target, ast.Name):
                    e2[g.target.id] = v
                elif isinstance(g.target, ast.Tuple) and all(isinstance(x, ast.Name) for x in g.target.elts):
                    for x, vv in zip(g.target.elts, v):
                        e2[x.id] = vv
                else:
                    raise NotConst(norm(g.target))
                if all(const(c, e2) for c in g.ifs):
                    rec(i + 1, e2)
        rec(0, dict(env or {}))
        if isinstance(node, ast.DictComp):
            return dict(out)
        return set(out) if isinstance(node, ast.SetComp) else out
    if isinstance(node, (ast.Tuple, ast.List)):
        v = [const(e, env) for e in node.elts]
        return tuple(v) if isinstance(node, ast.Tuple) else v
    if isinstance(node, ast.Dict):
        return {const(k, env): const(v, env) for k, v in zip(node.keys, node.values)}
    if isinstance(node, ast.UnaryOp):
        v = const(node.operand, env)
        if isinstance(node.op, ast.USub):
            return -v
        if isinstance(node.op, ast.Invert):
            return ~v
        if isinstance(node.op, ast.Not):
            return not v
        return +v
    if isinstance(node, ast.BinOp) and type(node.op) in _BIN:
        return _BIN[type(node.op)](const(node.left, env), const(node.right, env))
    if isinstance(node, ast.Call) and isinstance(node.func, ast.Name) and not node.keywords and env and \
            node.func.id in env.get('__funcs__', ()):
        return env['__funcs__'][node.func.id](*_args(node.args, env))     # pure helper folded by fold_func
    if isinstance(node, ast.Call) and isinstance(node.func, ast.Attribute) and env and norm(node.func) in env.get('__calls__', ()):
        kw = {}
        for k in node.keywords:
            if k.arg is None:
                kw.update(const(k.value, env))
            else:
                kw[k.arg] = const(k.value, env)
        return env['__calls__'][norm(node.func)](*_args(node.args, env), **kw)  # a method the caller of the fold models
    if isinstance(node, ast.Call) and isinstance(node.func, ast.Attribute) and not node.keywords and node.func.attr in _MUTATORS \
            and _owned(node.func.value, env) is not None:
        return getattr(_owned(node.func.value, env), node.func.attr)(*_args(node.args, env))    # a container the fold owns
    if isinstance(node, ast.Call) and isinstance(node.func, ast.Attribute) and not node.keywords:
        try:
            recv = const(node.func.value, env)
        except NotConst:
            recv = None
        if isinstance(recv, FoldObject):
            return getattr(recv, node.func.attr)(*_args(node.args, env))       # an object the caller of the fold models
        if isinstance(recv, slice) and node.func.attr == 'indices':
            return recv.indices(*_args(node.args, env))
    if isinstance(node, ast.Call) and isinstance(node.func, ast.Name) and not node.keywords:
        fn = node.func.id
        args = _args(node.args, env)
        table = {'enumerate': enumerate, 'zip': zip, 'iter': iter, 'reversed': reversed, 'isinstance': isinstance,'range': range, 'bytearray': bytearray, 'bytes': bytes, 'len': len, 'int': int, 'tuple': tuple,
                 'list': list, 'min': min, 'max': max, 'sum': sum, 'frozenset': frozenset, 'set': set, 'sorted': sorted, 'slice': slice, 'divmod': divmod,
                 'bool': bool, 'pow': pow, 'abs': abs, 'type': type, 'str': str, 'repr': repr}
        if fn in table:
            return table[fn](*args)
    if isinstance(node, ast.Call) and norm(node.func) in ('unpack_from', 'struct.unpack_from') and not node.keywords and len(node.args) in (2, 3):
        import struct as _struct
        args = [const(a, env) for a in node.args]
        try:
            return _struct.unpack_from(args[0], bytes(args[1]), *(args[2:]))
        except _struct.error as e:
            raise FoldStructError('struct.error %s' % e)
    if isinstance(node, ast.Call) and norm(node.func) in ('struct.unpack', 'struct.pack', 'unpack', 'pack') and not node.keywords and node.args \
            and norm(node.func) not in (env or {}).get('__funcs__', ()):
        import struct as _struct
        args = _args(node.args, env)
        try:
            if norm(node.func).endswith('pack') and not norm(node.func).endswith('unpack'):
                return _struct.pack(*args)
            return _struct.unpack(args[0], bytes(args[1]))
        except _struct.error as e:
            raise FoldStructError('struct.error %s' % e)
    if isinstance(node, ast.Call) and norm(node.func) in ('hexlify', 'binascii.hexlify') and not node.keywords and len(node.args) == 1:
        import binascii as _binascii
        return _binascii.hexlify(bytes(const(node.args[0], env)))
    if isinstance(node, ast.Call) and norm(node.func) == 'int.from_bytes' and not node.keywords and len(node.args) == 2:
        return int.from_bytes(bytes(const(node.args[0], env)), const(node.args[1], env))
    if isinstance(node, ast.Call) and norm(node.func) in ('pack', 'struct.pack', 'unpack', 'struct.unpack') and not node.keywords:
        import struct as _struct
        args = [const(a, env) for a in node.args]
        if norm(node.func).endswith('unpack'):
            return _struct.unpack(args[0], bytes(args[1]))
        return _struct.pack(*args)
    if isinstance(node, ast.Call) and isinstance(node.func, ast.Attribute) and node.func.attr in ('encode', 'decode') \
            and all(isinstance(a, ast.Constant) for a in node.args):
        v = const(node.func.value, env)
        return getattr(v, node.func.attr)(*[a.value for a in node.args])     # str.encode / bytes.decode only
    if isinstance(node, ast.Call) and isinstance(node.func, ast.Attribute) and not node.keywords and node.func.attr in (
            'intersection', 'difference', 'union', 'symmetric_difference', 'isdisjoint', 'issubset', 'issuperset', 'count',
            'bit_length', 'startswith', 'endswith', 'index', 'find', 'capitalize', 'upper', 'lower', 'get', 'keys', 'values', 'items', 'join'):
        v = const(node.func.value, env)
        if isinstance(v, (set, frozenset, bytes, bytearray, tuple, list, str, int, range, dict)):
            return getattr(v, node.func.attr)(*[const(a, env) for a in node.args])     # pure methods of builtin values only
    if isinstance(node, ast.Call) and isinstance(node.func, ast.Attribute) and node.func.attr == 'format':
        v = const(node.func.value, env)
        if isinstance(v, str):
            return v.format(*[const(a, env) for a in node.args], **{k.arg: const(k.value, env) for k in node.keywords if k.arg})
    if isinstance(node, ast.Call) and norm(node.func) == 'memoryview' and len(node.args) == 1:
        return const(node.args[0], env)
    if isinstance(node, ast.Call) and isinstance(node.func, ast.Attribute) and node.func.attr == 'fromhex' \
            and norm(node.func.value) in ('bytearray', 'bytes'):
        return bytearray.fromhex(const(node.args[0], env))
    if isinstance(node, ast.Subscript):
        if env and norm(node) in env:
            return env[norm(node)]      # case analysis over an element the rule enumerates, e.g. {'frame[1]': 7}
        v = const(node.value, env)
        if isinstance(node.slice, ast.Slice):
            lo = const(node.slice.lower, env) if node.slice.lower else None
            hi = const(node.slice.upper, env) if node.slice.upper else None
            st = const(node.slice.step, env) if node.slice.step else None
            return v[lo:hi:st]
        return v[const(node.slice, env)]
    raise NotConst(norm(node))


def fold_block(stmts, env):
    """Fold a statement list for concrete values of the names in env (modified in place): assignments (names, tuples, subscripts of
    containers the fold owns, self attributes), augmented assignments, if, while / for with break / continue / else, with (the context
    manager is ignored), try (handlers for what the evaluator itself can meet: struct.error, KeyError, IndexError, ValueError),
    assert, del of slices, local function definitions, calls that the caller of the fold models (env['__calls__'] by callee text,
    env['__funcs__'] by name, FoldObject values) and logging calls (skipped).  Anything else raises NotConst.
    Returns ('raise', text of the raised expression) | ('return', value) | ('fall', None) (| 'break' / 'continue' inside loops).
    The statements are parsed source of the tree under analysis; nothing of the repository is imported or executed."""
    for st in stmts:
        if isinstance(st, ast.Expr) and (isinstance(st.value, ast.Constant) or (isinstance(st.value, ast.Call) and norm(st.value.func).startswith(('log.', 'self.log.')))):
            continue
        if isinstance(st, ast.Pass):
            continue
        if isinstance(st, ast.Expr) and isinstance(st.value, ast.Call) and norm(st.value.func) in env.get('__calls__', ()):
            const(st.value, env)
            continue
        if isinstance(st, ast.Expr) and isinstance(st.value, ast.Call) and isinstance(st.value.func, ast.Attribute) and \
                isinstance(st.value.func.value, (ast.Name, ast.Attribute)) and \
                isinstance(env.get(st.value.func.value.id if isinstance(st.value.func.value, ast.Name) else norm(st.value.func.value)), FoldObject):
            const(st.value, env)
            continue
        if isinstance(st, ast.Try):
            # the exceptions the evaluator itself can meet: struct.error, KeyError, IndexError, ValueError (and a `raise` of one of them
            # in the body); anything else the body does is not an exception here
            def handler_for(kind):
                for h in st.handlers:
                    names = [norm(h.type)] if h.type is not None and not isinstance(h.type, ast.Tuple) else \
                        [norm(e_) for e_ in h.type.elts] if h.type is not None else ['BaseException']
                    if kind in names or (kind != 'struct.error' and ('LookupError' in names and kind in ('KeyError', 'IndexError')
                                                                      or 'Exception' in names or 'BaseException' in names)):
                        return h
                return None

            def run_handler(h, shown):
                if h.name:
                    env[h.name] = shown
                return fold_block(h.body, env)
            try:
                r = fold_block(st.body, env)
                caught = None
            except FoldStructError as e:
                caught = ('struct.error', str(e))
            except (KeyError, IndexError, ValueError) as e:
                caught = (type(e).__name__, '%s: %s' % (type(e).__name__, e))
            if caught is None and r[0] == 'raise':
                for kind in ('struct.error', 'KeyError', 'IndexError', 'ValueError'):
                    if r[1].startswith(kind + '(') or r[1] == kind:
                        caught = (kind, kind)
            if caught is not None:
                h = handler_for(caught[0])
                if h is None:
                    if st.finalbody:
                        rf = fold_block(st.finalbody, env)
                        if rf[0] != 'fall':
                            return rf
                    if caught[0] == 'struct.error':
                        raise FoldStructError(caught[1])
                    raise {'KeyError': KeyError, 'IndexError': IndexError, 'ValueError': ValueError}[caught[0]](caught[1])
                r = run_handler(h, caught[1])
            elif r[0] == 'fall' and st.orelse:
                r = fold_block(st.orelse, env)
            if st.finalbody:
                rf = fold_block(st.finalbody, env)
                if rf[0] != 'fall':
                    return rf
            if r[0] != 'fall':
                return r
            continue
        if isinstance(st, ast.With):
            # context managers (locks) have no effect on the values
            r = fold_block(st.body, env)
            if r[0] != 'fall':
                return r
            continue
        if isinstance(st, ast.Break):
            return ('break', None)
        if isinstance(st, ast.Continue):
            return ('continue', None)
        if isinstance(st, ast.Expr) and isinstance(st.value, ast.Call) and isinstance(st.value.func, ast.Attribute) and \
                _owned(st.value.func.value, env) is not None and st.value.func.attr in _MUTATORS:
            const(st.value, env)
            continue
        if isinstance(st, ast.Assert):
            if not const(st.test, env):
                env['__raise__'] = st
                return ('raise', 'AssertionError(%s)' % norm(st.test))
            continue
        if isinstance(st, ast.FunctionDef) and not st.decorator_list and not st.args.vararg and not st.args.kwarg and not st.args.kwonlyargs:
            # a local function: folded at its calls with the values of the enclosing names at that time
            def _local(*a, _st=st):
                e2 = dict(env)
                e2.update(zip([x.arg for x in _st.args.args], a))
                r_ = fold_block(_st.body, e2)
                if r_[0] == 'raise':
                    raise NotConst('local function raises ' + r_[1])
                return r_[1]
            env['__funcs__'] = dict(env.get('__funcs__', {}), **{st.name: _local})
            continue
        if isinstance(st, ast.Delete) and all(isinstance(t, ast.Subscript) and isinstance(t.value, ast.Name) and t.value.id in env
                                              and isinstance(env[t.value.id], (bytearray, list)) for t in st.targets):
            for t in st.targets:
                del env[t.value.id][const(t.slice, env) if not isinstance(t.slice, ast.Slice) else slice(
                    const(t.slice.lower, env) if t.slice.lower is not None else None,
                    const(t.slice.upper, env) if t.slice.upper is not None else None,
                    const(t.slice.step, env) if t.slice.step is not None else None)]
            continue
        if isinstance(st, ast.Delete) and all(isinstance(t, ast.Subscript) and isinstance(t.value, ast.Attribute) and
                                              isinstance(env.get(norm(t.value)), (bytearray, list)) for t in st.targets):
            for t in st.targets:        # del of an element / slice of a container the fold owns under an attribute text
                del env[norm(t.value)][const(t.slice, env) if not isinstance(t.slice, ast.Slice) else slice(
                    const(t.slice.lower, env) if t.slice.lower is not None else None,
                    const(t.slice.upper, env) if t.slice.upper is not None else None,
                    const(t.slice.step, env) if t.slice.step is not None else None)]
            continue
        if isinstance(st, ast.While):
            cycles = 0
            broke = False
            while const(st.test, env):
                cycles += 1
                if cycles > 10000:
                    raise NotConst('loop does not end')
                r = fold_block(st.body, env)
                if r[0] == 'break':
                    broke = True
                    break
                if r[0] not in ('fall', 'continue'):
                    return r
            if not broke and st.orelse:
                r = fold_block(st.orelse, env)
                if r[0] != 'fall':
                    return r
            continue
        if isinstance(st, ast.Assign) and len(st.targets) == 1:
            v = const(st.value, env)
            t = st.targets[0]
            if isinstance(t, ast.Name):
                env[t.id] = v
            elif isinstance(t, ast.Tuple) and all(isinstance(e, ast.Name) for e in t.elts):
                for e, vv in zip(t.elts, v):
                    env[e.id] = vv
            elif isinstance(t, ast.Subscript) and isinstance(t.value, ast.Name) and isinstance(env.get(t.value.id), (bytearray, list, dict)):
                # store into a mutable value the fold owns
                if isinstance(t.slice, ast.Slice):
                    env[t.value.id][slice(const(t.slice.lower, env) if t.slice.lower is not None else None,
                                          const(t.slice.upper, env) if t.slice.upper is not None else None,
                                          const(t.slice.step, env) if t.slice.step is not None else None)] = v
                else:
                    env[t.value.id][const(t.slice, env)] = v
            elif isinstance(t, ast.Attribute) and isinstance(t.value, ast.Name) and t.value.id == 'self':
                env[norm(t)] = v
            elif isinstance(t, ast.Subscript) and not isinstance(t.slice, ast.Slice) and isinstance(t.value, ast.Attribute) and \
                    isinstance(env.get(norm(t.value)), (bytearray, list, dict)):
                env[norm(t.value)][const(t.slice, env)] = v
            elif isinstance(t, ast.Subscript) and isinstance(t.slice, ast.Slice) and isinstance(t.value, ast.Attribute) and \
                    isinstance(env.get(norm(t.value)), (bytearray, list)):
                env[norm(t.value)][slice(const(t.slice.lower, env) if t.slice.lower is not None else None,
                                         const(t.slice.upper, env) if t.slice.upper is not None else None,
                                         const(t.slice.step, env) if t.slice.step is not None else None)] = v
            else:
                raise NotConst(norm(t))
        elif isinstance(st, ast.AugAssign) and isinstance(st.target, ast.Name) and type(st.op) in _BIN:
            env[st.target.id] = _BIN[type(st.op)](const(st.target, env), const(st.value, env))
        elif isinstance(st, ast.If):
            r = fold_block(st.body if const(st.test, env) else st.orelse, env)
            if r[0] != 'fall':
                return r
        elif isinstance(st, ast.For) and (isinstance(st.target, ast.Name) or (
                isinstance(st.target, ast.Tuple) and all(isinstance(e, ast.Name) for e in st.target.elts))):
            # bounded iteration over a folded iterable
            it = list(const(st.iter, env))
            if len(it) > 100000:
                raise NotConst('loop too long')
            broke = False
            for v in it:
                if isinstance(st.target, ast.Name):
                    env[st.target.id] = v
                else:
                    for e, vv in zip(st.target.elts, v):
                        env[e.id] = vv
                r = fold_block(st.body, env)
                if r[0] == 'break':
                    broke = True
                    break
                if r[0] not in ('fall', 'continue'):
                    return r
            if not broke and st.orelse:
                r = fold_block(st.orelse, env)
                if r[0] != 'fall':
                    return r
        elif isinstance(st, ast.Raise):
            env['__raise__'] = st
            return ('raise', norm(st.exc) if st.exc is not None else '')
        elif isinstance(st, ast.Return):
            return ('return', const(st.value, env) if st.value is not None else None)
        else:
            raise NotConst(norm(st)[:40])
    return ('fall', None)


def fold_lenient(stmts, env, seeds=(), stop=None, visit=None):
    """Fold what can be folded of a statement list: assignments whose value folds update env, others make their targets unknown
    (names in `seeds` keep their value: they stand for what the device returned); an `if` with a foldable test follows that branch,
    otherwise both branches only invalidate what they assign.  Stops in front of the first statement for which stop(st) is true.
    Returns True when stopped there."""
    def targets_of(st):
        out = []
        for t in (st.targets if isinstance(st, ast.Assign) else [st.target] if isinstance(st, (ast.AugAssign, ast.AnnAssign)) else []):
            for x in ast.walk(t):
                if isinstance(x, ast.Name):
                    out.append(x.id)
                elif isinstance(x, ast.Attribute):
                    out.append(norm(x))
        return out

    def invalidate(body):
        for st in body:
            for x in ast.walk(st):
                if isinstance(x, (ast.Assign, ast.AugAssign, ast.AnnAssign)):
                    for n_ in targets_of(x):
                        if n_ not in seeds:
                            env.pop(n_, None)
    for st in stmts:
        if stop is not None and stop(st):
            return True
        if visit is not None:
            visit(st, env)
        if isinstance(st, ast.Assign) and len(st.targets) == 1:
            try:
                v = const(st.value, env)
            except Exception:
                invalidate([st])
                continue
            t = st.targets[0]
            if isinstance(t, ast.Name):
                if t.id not in seeds:
                    env[t.id] = v
            elif isinstance(t, ast.Subscript) and isinstance(t.value, ast.Name) and isinstance(env.get(t.value.id), (bytearray, list)):
                try:
                    buf = type(env[t.value.id])(env[t.value.id])
                    if isinstance(t.slice, ast.Slice):
                        lo = const(t.slice.lower, env) if t.slice.lower else None
                        hi = const(t.slice.upper, env) if t.slice.upper else None
                        buf[lo:hi] = v
                    else:
                        buf[const(t.slice, env)] = v
                    env[t.value.id] = buf
                except Exception:
                    if t.value.id not in seeds:
                        env.pop(t.value.id, None)
            elif isinstance(t, ast.Attribute):
                env[norm(t)] = v
            elif isinstance(t, ast.Tuple) and all(isinstance(e, ast.Name) for e in t.elts):
                try:
                    vs = list(v)
                except TypeError:
                    invalidate([st])
                    continue
                for e, vv in zip(t.elts, vs):
                    env[e.id] = vv
            else:
                invalidate([st])
        elif isinstance(st, ast.If):
            try:
                c = const(st.test, env)
            except Exception:
                invalidate(st.body + st.orelse)
                continue
            if fold_lenient(st.body if c else st.orelse, env, seeds, stop, visit):
                return True
        elif isinstance(st, (ast.For, ast.While, ast.Try, ast.With)):
            invalidate([st])
        elif isinstance(st, ast.AugAssign):
            if isinstance(st.target, ast.Name) and st.target.id in env and type(st.op) in _BIN:
                try:
                    env[st.target.id] = _BIN[type(st.op)](type(env[st.target.id])(env[st.target.id]) if isinstance(env[st.target.id], (bytearray, list)) else env[st.target.id],
                                                          const(st.value, env))
                    continue
                except Exception:
                    pass
            invalidate([st])
    return False


def fold_func(prog, f, args, depth=0):
    """Fold a straight-line pure helper (assignments to names, if/else over foldable tests, return) for concrete arguments; calls
    to module level functions of the same module are folded recursively (depth <= 4).  Raises NotConst for anything else.  The
    checker's own interpreter for finite-domain comparison with a specification -- repository code is never imported or run."""
    if depth > 4:
        raise NotConst('fold depth')
    if len(args) != len(f.params):
        raise NotConst('arity')
    env = dict(zip(f.params, args))
    funcs = {}
    for q, g in prog.functions.items():
        if g.module is f.module and g.cls is None and g.parent is None:
            funcs[g.name] = (lambda g_: (lambda *a: fold_func(prog, g_, list(a), depth + 1)))(g)
    env['__funcs__'] = funcs

    r = fold_block(f.node.body, env)
    if r[0] == 'return':
        return r[1]
    if r[0] == 'raise':
        raise NotConst('raises ' + r[1])
    return None


def through_locals(fnode, expr, as_node=False):
    """Text of expr with every name that the function binds exactly once (plain assignment, not a parameter) replaced by the text of
    the bound value -- `range(max(1, iterations))` reads as `range(max(1, options.get('iterations', 1)))`."""
    import copy
    from .model import walk_no_nested
    params = {a.arg for a in fnode.args.posonlyargs + fnode.args.args + fnode.args.kwonlyargs}
    count, value = {}, {}
    for x in walk_no_nested(fnode):
        if isinstance(x, ast.Name) and isinstance(x.ctx, (ast.Store, ast.Del)):
            count[x.id] = count.get(x.id, 0) + 1
        elif isinstance(x, ast.Assign) and len(x.targets) == 1 and isinstance(x.targets[0], ast.Name):
            value[x.targets[0].id] = x.value
        elif isinstance(x, (ast.FunctionDef, ast.ClassDef)) and x is not fnode:
            count[x.name] = count.get(x.name, 0) + 2
    single = {n_: v for n_, v in value.items() if count.get(n_) == 1 and n_ not in params}

    class _S(ast.NodeTransformer):
        def visit_Attribute(self, node):
            # `name.attr` stays: the object a local names is not an expression worth reading through
            return node if isinstance(node.value, ast.Name) else self.generic_visit(node)

        def visit_Name(self, node):
            if isinstance(node.ctx, ast.Load) and node.id in single:
                return copy.deepcopy(single[node.id])
            return node
    e = copy.deepcopy(expr)
    for _ in range(3):
        e = _S().visit(e)
    return e if as_node else norm(e)


def try_const(node, env=None, default=None):
    try:
        return const(node, env)
    except (NotConst, Exception):
        return default


def names_in(node):
    return set(n.id for n in ast.walk(node) if isinstance(n, ast.Name))


def attr_texts(node):
    return set(norm(n) for n in ast.walk(node) if isinstance(n, ast.Attribute))


def linear(expr, sign=1, out=None):
    """Linear normal form {term text: coeff, '1': const} of an integer expression (+, -, *const)."""
    out = {} if out is None else out
    c = try_const(expr)
    if isinstance(c, int) and not isinstance(c, bool):
        out['1'] = out.get('1', 0) + sign * c
    elif isinstance(expr, ast.BinOp) and isinstance(expr.op, ast.Add):
        linear(expr.left, sign, out)
        linear(expr.right, sign, out)
    elif isinstance(expr, ast.BinOp) and isinstance(expr.op, ast.Sub):
        linear(expr.left, sign, out)
        linear(expr.right, -sign, out)
    elif isinstance(expr, ast.UnaryOp) and isinstance(expr.op, ast.USub):
        linear(expr.operand, -sign, out)
    elif isinstance(expr, ast.BinOp) and isinstance(expr.op, ast.Mult) and isinstance(try_const(expr.right), int):
        sub = linear(expr.left)
        for k, v in sub.items():
            out[k] = out.get(k, 0) + sign * v * try_const(expr.right)
    elif isinstance(expr, ast.BinOp) and isinstance(expr.op, ast.Mult) and isinstance(try_const(expr.left), int):
        sub = linear(expr.right)
        for k, v in sub.items():
            out[k] = out.get(k, 0) + sign * v * try_const(expr.left)
    else:
        t = norm(expr)
        out[t] = out.get(t, 0) + sign
    return {k: v for k, v in out.items() if v}


def le_edge(expr, a, b):
    """For a comparison between texts a and b: the edge label ('true'/'false') on which a <= b is
    known to hold, else None.  Recognises a>b, a<=b, b<a, b>=a and the strict variants a>=b, a<b."""
    if not (isinstance(expr, ast.Compare) and len(expr.ops) == 1):
        return None
    l, r, op = norm(expr.left), norm(expr.comparators[0]), type(expr.ops[0])
    if (l, r) == (a, b):
        return {ast.Gt: 'false', ast.LtE: 'true', ast.GtE: 'false', ast.Lt: 'true'}.get(op)
    if (l, r) == (b, a):
        return {ast.Lt: 'false', ast.GtE: 'true', ast.LtE: 'false', ast.Gt: 'true'}.get(op)
    return None


def eq_edge(expr, a, b):
    """Edge on which a == b is known."""
    if not (isinstance(expr, ast.Compare) and len(expr.ops) == 1):
        return None
    l, r, op = norm(expr.left), norm(expr.comparators[0]), type(expr.ops[0])
    if {l, r} == {a, b}:
        return {ast.Eq: 'true', ast.NotEq: 'false'}.get(op)
    return None


def edges_where(cfg, fn):
    """[(test node, label)] for every test where fn(expr) names the passing label."""
    out = []
    for expr, n in cfg.test_nodes.items():
        lab = fn(expr)
        if lab in ('true', 'false'):
            out.append((n, lab))
    return out


# ------------------------------------------------------------------ lower bounds of an integer variable
def var_facts(cfg, var, consts=None):
    """Guards on `var`: list of (pass_edges, lower_bound)."""
    consts = consts or {}
    facts = []
    for expr, tn in cfg.test_nodes.items():
        if not isinstance(expr, ast.Compare) or len(expr.ops) != 1:
            continue
        l, r = expr.left, expr.comparators[0]
        op = type(expr.ops[0])
        if norm(l) == var:
            n = try_const(r, consts)
            if n is None:
                n = consts.get(norm(r))
        elif norm(r) == var:
            n = try_const(l, consts)
            if n is None:
                n = consts.get(norm(l))
            op = {ast.Lt: ast.Gt, ast.Gt: ast.Lt, ast.LtE: ast.GtE, ast.GtE: ast.LtE}.get(op, op)
        else:
            continue
        if not isinstance(n, int) or isinstance(n, bool):
            continue
        if op is ast.Lt:
            facts.append(([(tn, 'false')], n))
        elif op is ast.LtE:
            facts.append(([(tn, 'false')], n + 1))
        elif op is ast.NotEq:
            facts.append(([(tn, 'false')], n))
        elif op is ast.GtE:
            facts.append(([(tn, 'true')], n))
        elif op is ast.Gt:
            facts.append(([(tn, 'true')], n + 1))
        elif op is ast.Eq:
            facts.append(([(tn, 'true')], n))
            if n == 0 and var.startswith('len('):
                facts.append(([(tn, 'false')], 1))      # a length that is not 0 is at least 1
    return facts


def assign_nodes(cfg, var):
    out = []
    for n in cfg.nodes:
        if n.kind in ('stmt', 'for') and isinstance(n.ast, (ast.Assign, ast.AugAssign, ast.For)):
            a = n.ast
            tg = a.targets if isinstance(a, ast.Assign) else [a.target]
            for t in tg:
                for x in ast.walk(t):
                    if norm(x) == var and isinstance(x, (ast.Name, ast.Attribute)):
                        out.append(n)
    return out


def lower_bound_at(cfg, var, target, extra_guards=(), consts=None, default=None, kills=()):
    """Best lower bound of integer `var` proven on every path to `target`.  The guards whose bound is
    >= b are taken together: target must be reachable only through one of their passing edges, and
    after every assignment to var one of them must be passed again before target."""
    guards = [(e, n) for e, n in list(var_facts(cfg, var, consts)) + list(extra_guards) if isinstance(n, int)]
    assigns = assign_nodes(cfg, var) + list(kills)
    reach_all = cfg.reachable()
    best = default
    for b in sorted(set(n for e, n in guards)):
        edges = [x for e, n in guards if n >= b for x in e]
        if target in cfg.reachable(cfg.entry, avoid_edges=edges):
            continue
        okk = True
        for a in assigns:
            if a is target or a not in reach_all:
                continue
            if target in cfg.reachable(a, avoid_edges=edges):
                okk = False
                break
        if okk and (best is None or b > best):
            best = b
    return best
