# -*- coding: utf-8 -*-
"""Undo "extract helper" refactorings before the rules look at the tree.

A function or method that does not exist in the reference tree (nfcsa/ref_locals.json lists every unit of the tree the rules were
written against) and that is simple enough -- positional parameters, no generator, no nested definitions, every `return` the last
statement of its branch once `if c: return a` + REST is read as if/else (any shape of returns at a `return H(...)` site) -- is expanded at each of its call sites inside the same module:

* a helper whose body is a single `return E` is substituted as an expression wherever it is called;
* otherwise a call that is a whole statement (`H(...)`, `x = H(...)`, `return H(...)`) is replaced by the helper's statements, the
  trailing `return E` becoming `E` / `x = E` / `return E`.

* `if [not] H(...)` binds the helper's result to a fresh flag first; a helper with one loop that returns from inside is expanded with
  `x = v; break` for each return and the code behind the loop as the loop's else; a generator `PRE; while C: A; yield E; B` is
  expanded at `for T in G(...)` sites (no `continue` in the for body) as the generator's loop around the for body.

Parameters are substituted by the argument expressions when these are simple (names, attributes, constants) and the parameter is not
assigned in the helper, else bound with an assignment in front.  The helper's definition stays in the tree (it is analysed as a
function of its own as well).  The transformation only feeds the analysis; a report on an expanded statement carries the line of the
call.  It never makes a rule fail that would pass on the expanded source text, because that text is what the interpreter would execute
up to the names of the helper's locals (the helper's locals become locals of the caller, as they were before an extract-method
refactoring).
"""
import ast
import copy

from . import alpha


def _new_helpers(module_name, tree):
    ref = alpha.reference().get(module_name)
    if not ref or '__units__' not in ref:
        return []
    known_units = ref['__units__']
    out = []
    for key, fn in alpha.units(tree):
        if key not in known_units and '#' not in key:
            out.append((key, fn, None))
    # nested functions that the reference unit does not have
    for key, fn in alpha.units(tree):
        if key not in known_units:
            continue
        known = set(known_units[key])
        for sub in ast.walk(fn):
            if sub is not fn and isinstance(sub, ast.FunctionDef) and sub.name not in known:
                out.append((key + '.<' + sub.name + '>', sub, fn))
    return out


def is_new_unit(module_name, key):
    """True when the reference tree has no function / method `key` ('Class.method') in the module."""
    ref = alpha.reference().get(module_name)
    return bool(ref) and '__units__' in ref and key not in ref['__units__']


def _kind(fn, tree):
    """'function' | 'method' | 'static' | None (not handled)."""
    decos = [d.id if isinstance(d, ast.Name) else getattr(d, 'attr', None) for d in fn.decorator_list]
    if any(d not in ('staticmethod',) for d in decos):
        return None
    for node in ast.walk(tree):
        if isinstance(node, ast.ClassDef) and any(c is fn for c in node.body):
            return 'static' if 'staticmethod' in decos else 'method'
    return 'function'


def _body(fn):
    body = list(fn.body)
    if body and isinstance(body[0], ast.Expr) and isinstance(body[0].value, ast.Constant) and isinstance(body[0].value.value, str):
        body = body[1:]
    return body


def _inlinable(fn):
    a = fn.args
    if a.vararg or a.kwarg or a.kwonlyargs or a.posonlyargs:
        return False
    body = _body(fn)
    if not body:
        return False
    for i, st in enumerate(body):
        for x in ast.walk(st):
            if isinstance(x, (ast.Yield, ast.YieldFrom, ast.Await, ast.FunctionDef, ast.AsyncFunctionDef, ast.ClassDef, ast.Lambda, ast.Global, ast.Nonlocal)):
                return False
            if isinstance(x, ast.Call) and isinstance(x.func, ast.Name) and x.func.id == fn.name:
                return False
            if isinstance(x, ast.Call) and isinstance(x.func, ast.Attribute) and x.func.attr == fn.name:
                return False
    return True


class _Renamed(object):
    def __init__(self, name):
        self.name = name


class _Subst(ast.NodeTransformer):
    def __init__(self, mapping):
        self.mapping = mapping

    def visit_Name(self, node):
        m = self.mapping.get(node.id)
        if isinstance(m, _Renamed):
            return ast.copy_location(ast.Name(id=m.name, ctx=node.ctx), node)      # every occurrence, stores included
        if m is not None and isinstance(node.ctx, ast.Load):
            return copy.deepcopy(m)
        return node


def _simple(e):
    if isinstance(e, (ast.Name, ast.Constant)):
        return True
    if isinstance(e, ast.Attribute):
        return _simple(e.value)
    if isinstance(e, ast.Call) and isinstance(e.func, ast.Name) and e.func.id == 'len' and len(e.args) == 1 and not e.keywords:
        return _simple(e.args[0])       # pure: may be evaluated at every use
    if isinstance(e, ast.BinOp) and isinstance(e.op, (ast.Add, ast.Sub)):
        return _simple(e.left) and _simple(e.right)
    return False


_CTX = {}


def _read_later(name, call):
    """is `name` read in the tree of the module at a line behind the call (flow-insensitive, conservative)?"""
    tree = _CTX.get('tree')
    if tree is None:
        return True
    line = getattr(call, 'end_lineno', getattr(call, 'lineno', 0))
    # the enclosing function of the call
    best = None
    for fnode in ast.walk(tree):
        if isinstance(fnode, (ast.FunctionDef, ast.AsyncFunctionDef)) and getattr(fnode, 'lineno', 0) <= getattr(call, 'lineno', 0) <= getattr(fnode, 'end_lineno', 0):
            if best is None or fnode.lineno >= best.lineno:
                best = fnode
    if best is None:
        return True
    inside_call = set(id(x) for x in ast.walk(call))
    occ = sorted(((x.lineno, x.col_offset, x) for x in ast.walk(best) if isinstance(x, ast.Name) and x.id == name and id(x) not in inside_call
                  and hasattr(x, 'lineno')), key=lambda t: t[:2])
    # a loop around the call brings every read inside that loop behind the call
    for lp in ast.walk(best):
        if isinstance(lp, (ast.For, ast.While)) and any(x is call for x in ast.walk(lp)):
            if any(isinstance(x, ast.Name) and x.id == name and isinstance(x.ctx, ast.Load) and id(x) not in inside_call for x in ast.walk(lp)):
                return True
    later = [x for l_, c_, x in occ if (l_, c_) > (line, getattr(call, 'end_col_offset', 0))]
    # the first occurrence behind the call decides: a store means the caller's value is dead at the call
    aug = set(id(x.target) for x in ast.walk(best) if isinstance(x, ast.AugAssign))
    return bool(later) and (isinstance(later[0].ctx, ast.Load) or id(later[0]) in aug)


def _bind(fn, kind, call):
    """-> (prefix statements, substitution mapping) or None"""
    params = [x.arg for x in fn.args.args]
    if kind == 'method':
        params = params[1:]
    defaults = dict(zip(params[len(params) - len(fn.args.defaults):], fn.args.defaults)) if fn.args.defaults else {}
    if any(isinstance(a, ast.Starred) for a in call.args) or any(k.arg is None for k in call.keywords):
        return None
    if len(call.args) > len(params):
        return None
    given = dict(zip(params, call.args))
    for k in call.keywords:
        if k.arg not in params or k.arg in given:
            return None
        given[k.arg] = k.value
    for p in params:
        if p not in given:
            if p not in defaults:
                return None
            given[p] = defaults[p]
    assigned = set()
    for x in ast.walk(fn):
        if isinstance(x, ast.Name) and isinstance(x.ctx, (ast.Store, ast.Del)):
            assigned.add(x.id)
    prefix, mapping = [], {}
    for p in params:
        a = given[p]
        if isinstance(a, ast.Name) and a.id == p and p in assigned and _read_later(p, call) and p not in _CTX.get('targets', ()):
            # the helper re-binds its parameter: that must not reach the caller's variable of the same name (when the caller still
            # reads it afterwards and does not itself assign the helper's result to it)
            fresh = '%s_%s' % (p, fn.name.strip('_'))
            prefix.append(ast.Assign(targets=[ast.Name(id=fresh, ctx=ast.Store())], value=copy.deepcopy(a)))
            mapping[p] = _Renamed(fresh)
            continue
        if isinstance(a, ast.Name) and a.id == p:
            continue
        if _simple(a) and p not in assigned:
            mapping[p] = a
        else:
            prefix.append(ast.Assign(targets=[ast.Name(id=p, ctx=ast.Store())], value=copy.deepcopy(a)))
    return prefix, mapping


def _fold_ifs(stmts):
    """After an argument was substituted for a parameter a test may be constant (`if 0 < 255:`): keep the branch that runs."""
    from .q import try_const
    out = []
    for st in stmts:
        if isinstance(st, ast.If):
            c = try_const(st.test, default=NotImplemented)
            if c is not NotImplemented and not any(isinstance(x, (ast.Name, ast.Attribute, ast.Call)) for x in ast.walk(st.test)):
                out.extend(_fold_ifs(st.body if c else st.orelse))
                continue
            st.body = _fold_ifs(st.body) or [ast.Pass()]
            st.orelse = _fold_ifs(st.orelse)
        out.append(st)
    return out


def _generator_shape(fn):
    """PRE; while C: A; yield E; B  (one yield, a whole statement of the loop body, nothing behind the loop) -> (pre, loop, index of the
    yield statement) or None."""
    a = fn.args
    if a.vararg or a.kwarg or a.kwonlyargs or a.posonlyargs:
        return None
    body = _body(fn)
    ys = [x for st in body for x in ast.walk(st) if isinstance(x, (ast.Yield, ast.YieldFrom))]
    if len(ys) != 1 or not isinstance(ys[0], ast.Yield) or ys[0].value is None or not body or not isinstance(body[-1], ast.While) or body[-1].orelse:
        return None
    loop = body[-1]
    idx = [i for i, st in enumerate(loop.body) if isinstance(st, ast.Expr) and st.value is ys[0]]
    if len(idx) != 1:
        return None
    for st in body:
        for x in ast.walk(st):
            if isinstance(x, (ast.Return, ast.FunctionDef, ast.AsyncFunctionDef, ast.ClassDef, ast.Lambda, ast.Global, ast.Nonlocal, ast.Await)):
                return None
            if isinstance(x, (ast.Break, ast.Continue)):
                return None
    return body[:-1], loop, idx[0]


def _expand_generator(fn, kind, site):
    """`for TARGET in G(args): BODY` with G of the shape above: the generator's loop with `TARGET = E; BODY` in place of the yield."""
    shape = _generator_shape(fn)
    if shape is None or site.orelse:
        return None
    # a `continue` of the for loop would skip the rest of the generator's cycle
    def own_continue(stmts):
        for st in stmts:
            if isinstance(st, ast.Continue):
                return True
            if isinstance(st, (ast.For, ast.While, ast.FunctionDef)):
                continue
            for fld in ('body', 'orelse', 'finalbody'):
                if own_continue(getattr(st, fld, []) or []):
                    return True
            if isinstance(st, ast.Try) and any(own_continue(h.body) for h in st.handlers):
                return True
        return False
    if own_continue(site.body):
        return None
    b = _bind(fn, kind, site.iter)
    if b is None:
        return None
    prefix, mapping = b
    pre, loop, yi = shape
    sub = _Subst(mapping)
    pre = [sub.visit(copy.deepcopy(s_)) for s_ in pre]
    loop = sub.visit(copy.deepcopy(loop))
    yv = loop.body[yi].value.value
    bind = [] if norm_eq(site.target, yv) else [ast.Assign(targets=[copy.deepcopy(site.target)], value=yv)]
    loop.body[yi:yi + 1] = bind + [copy.deepcopy(s_) for s_ in site.body]
    if len(prefix) > 1:
        # arguments are evaluated before any parameter is bound
        prefix = [ast.Assign(targets=[ast.Tuple(elts=[p.targets[0] for p in prefix], ctx=ast.Store())],
                             value=ast.Tuple(elts=[p.value for p in prefix], ctx=ast.Load()))]
    out = prefix + pre + [loop]
    for s_ in out:
        for x in ast.walk(s_):
            if not hasattr(x, 'lineno') and isinstance(x, (ast.stmt, ast.expr)):
                x.lineno = getattr(site, 'lineno', 1)
                x.end_lineno = getattr(site, 'end_lineno', x.lineno)
                x.col_offset = 0
                x.end_col_offset = 0
    return out


def norm_eq(a, b):
    def strip(e):
        return ast.dump(ast.parse(ast.unparse(e), mode='eval').body).replace('Store()', 'Load()')
    try:
        return strip(a) == strip(b)
    except Exception:
        return False


def _unroll_table_loops(scope):
    """`for a, b in H():` where the new helper H returned a literal table ((x1, y1), (x2, y2), ...) of simple expressions reads, after
    the substitution, `for a, b in ((x1, y1), ...)`: such a loop (no break / continue / else, targets not re-bound in the body) is the
    body once per row with the row's expressions for the targets -- the if-chain it replaced."""
    for lst in list(_stmt_lists(scope)):
        i = 0
        while i < len(lst):
            st = lst[i]
            i += 1
            if not (isinstance(st, ast.For) and getattr(st.iter, '_from_helper', False) and isinstance(st.iter, (ast.Tuple, ast.List))
                    and not st.orelse and 0 < len(st.iter.elts) <= 12):
                continue
            tg = st.target
            names = [tg.id] if isinstance(tg, ast.Name) else [e.id for e in tg.elts] if isinstance(tg, ast.Tuple) and all(
                isinstance(e, ast.Name) for e in tg.elts) else None
            if names is None:
                continue
            rows = []
            for row in st.iter.elts:
                vals = [row] if isinstance(tg, ast.Name) else list(row.elts) if isinstance(row, (ast.Tuple, ast.List)) and len(row.elts) == len(names) else None
                if vals is None or not all(_simple(v) for v in vals):
                    rows = None
                    break
                rows.append(vals)
            inner = [x for b_ in st.body for x in ast.walk(b_)]
            if rows is None or any(isinstance(x, (ast.Break, ast.Continue, ast.FunctionDef, ast.Lambda)) for x in inner) or \
                    any(isinstance(x, ast.Name) and x.id in names and isinstance(x.ctx, (ast.Store, ast.Del)) for x in inner):
                continue
            new = []
            for vals in rows:
                sub = _Subst(dict(zip(names, vals)))
                new += [sub.visit(copy.deepcopy(b_)) for b_ in st.body]
            lst[i - 1:i] = new
            i += len(new) - 1


def _is_call_of(node, fn, kind):
    if not isinstance(node, ast.Call):
        return False
    if kind == 'function':
        return isinstance(node.func, ast.Name) and node.func.id == fn.name
    return isinstance(node.func, ast.Attribute) and node.func.attr == fn.name and isinstance(node.func.value, (ast.Name, ast.Attribute))


def _has_return(st):
    return any(isinstance(x, ast.Return) for x in ast.walk(st))


def _terminates(stmts):
    if not stmts:
        return False
    last = stmts[-1]
    if isinstance(last, (ast.Return, ast.Raise)):
        return True
    if isinstance(last, ast.Try) and not last.orelse and not last.finalbody:
        return _terminates(last.body) and all(_terminates(h.body) for h in last.handlers)
    return isinstance(last, ast.If) and _terminates(last.body) and _terminates(last.orelse)


def _tailify(stmts):
    """Rewrite a helper body so that every `return` is the last statement of its branch (`if c: return a` + REST becomes
    `if c: return a else: REST`); None when a return sits inside a loop, try or with."""
    out = []
    for i, st in enumerate(stmts):
        if isinstance(st, ast.Return):
            return out + [st]
        if isinstance(st, ast.Raise):
            return out + [st]
        if not _has_return(st):
            out.append(st)
            continue
        if isinstance(st, ast.Try) and not st.orelse and not st.finalbody and not stmts[i + 1:]:
            # a try in tail position: a return in its body or in a handler is the end of the function either way
            body = _tailify(st.body)
            hs = [_tailify(h.body) for h in st.handlers]
            if body is None or any(h is None for h in hs):
                return None
            new = ast.Try(body=body, handlers=[ast.ExceptHandler(type=h.type, name=h.name, body=hb) for h, hb in zip(st.handlers, hs)],
                          orelse=[], finalbody=[])
            return out + [ast.copy_location(new, st)]
        if not isinstance(st, ast.If):
            return None
        rest = stmts[i + 1:]
        if _terminates(st.body) or not rest:
            body, orelse = _tailify(st.body), _tailify(st.orelse + rest)
        elif _terminates(st.orelse):
            body, orelse = _tailify(st.body + rest), _tailify(st.orelse)
        else:
            return None
        if body is None or orelse is None:
            return None
        new = ast.If(test=st.test, body=body, orelse=orelse)
        return out + [ast.copy_location(new, st)]
    return out + [ast.Return(value=ast.Constant(value=None))]


def _value_stmts(val, how, target):
    val = val if val is not None else ast.Constant(value=None)
    if how == 'assign':
        return [ast.Assign(targets=[copy.deepcopy(t) for t in target], value=val)]
    return [] if isinstance(val, (ast.Name, ast.Constant)) else [ast.Expr(value=val)]


def _loop_form(body, how, target):
    """PRE; for ...: (... return X ...); POST  at a call site `t = H(...)` is the loop with `t = X; break` for each return and POST as
    the loop's else branch (POST runs exactly when the loop ends without a return).  None when the helper has another shape."""
    idx = [i for i, st in enumerate(body) if _has_return(st)]
    if not idx or not isinstance(body[idx[0]], (ast.For, ast.While)):
        return None
    i = idx[0]
    loop, post = body[i], body[i + 1:]
    if loop.orelse or any(isinstance(x, (ast.Break,)) for x in ast.walk(loop)):
        return None
    for x in ast.walk(loop):
        if x is not loop and isinstance(x, (ast.For, ast.While)) and _has_return(x):
            return None
    post_t = _tailify(post) if post else [ast.Return(value=ast.Constant(value=None))]
    if post_t is None:
        return None

    def conv_tail(stmts):
        last = stmts[-1]
        if isinstance(last, ast.Return):
            stmts[-1:] = _value_stmts(last.value, how, target) or [ast.Pass()]
        elif isinstance(last, ast.If):
            conv_tail(last.body)
            conv_tail(last.orelse)
    conv_tail(post_t)

    class _R(ast.NodeTransformer):
        def visit_Return(self, node):
            return _value_stmts(node.value, how, target) + [ast.Break()]
    loop = _R().visit(loop)
    loop.orelse = [s_ for s_ in post_t if not isinstance(s_, ast.Pass)] or []
    return body[:i] + [loop]


def _expand(fn, kind, call, how, target=None):
    b = _bind(fn, kind, call)
    if b is None:
        return None
    prefix, mapping = b
    body = [copy.deepcopy(s) for s in _body(fn)]
    sub = _Subst(mapping)
    body = [sub.visit(s) for s in body]
    tail = _tailify(body)
    if tail is None and how != 'return':
        body = _loop_form(body, how, target)
        if body is None:
            return None
    elif tail is None:
        # `return H(...)`: a return anywhere in the helper is a return of the caller
        if not _terminates(body):
            body.append(ast.Return(value=ast.Constant(value=None)))
    else:
        body = tail
        if how != 'return':
            def conv(stmts):
                last = stmts[-1]
                if isinstance(last, ast.Return):
                    val = last.value if last.value is not None else ast.Constant(value=None)
                    if how == 'assign':
                        stmts[-1] = ast.Assign(targets=[copy.deepcopy(t) for t in target], value=val)
                    elif isinstance(val, (ast.Name, ast.Constant)):
                        stmts.pop()
                        if not stmts:
                            stmts.append(ast.Pass())
                    else:
                        stmts[-1] = ast.Expr(value=val)
                elif isinstance(last, ast.If):
                    conv(last.body)
                    conv(last.orelse)
                    if len(last.orelse) == 1 and isinstance(last.orelse[0], ast.Pass):
                        last.orelse = []
                elif isinstance(last, ast.Try):
                    conv(last.body)
                    for h_ in last.handlers:
                        conv(h_.body)
            conv(body)
            if body and isinstance(body[-1], ast.Pass) and len(body) > 1:
                body.pop()
    out = _fold_ifs(prefix + body)
    def selfassign(s):
        return isinstance(s, ast.Assign) and len(s.targets) == 1 and isinstance(s.targets[0], ast.Name) \
            and isinstance(s.value, ast.Name) and s.value.id == s.targets[0].id
    out = [s for s in out if not selfassign(s)]
    for s in out:
        for lst in list(_stmt_lists(s)):
            if any(selfassign(x) for x in lst):
                lst[:] = [x for x in lst if not selfassign(x)] or [ast.Pass()]
    for s in out:
        for x in ast.walk(s):
            if hasattr(x, 'lineno') or isinstance(x, (ast.stmt, ast.expr)):
                x.lineno = getattr(call, 'lineno', 1)
                x.end_lineno = getattr(call, 'end_lineno', x.lineno)
                x.col_offset = getattr(call, 'col_offset', 0)
                x.end_col_offset = getattr(call, 'end_col_offset', 0)
    return out or [ast.Pass()]


def _stmt_lists(tree):
    for node in ast.walk(tree):
        for fld in ('body', 'orelse', 'finalbody'):
            lst = getattr(node, fld, None)
            if isinstance(lst, list) and lst and isinstance(lst[0], ast.stmt):
                yield lst
        if isinstance(node, ast.Try):
            for h in node.handlers:
                yield h.body


def expand(module_name, tree):
    """Expand the new helpers of the module in place.  Returns [(helper key, number of call sites expanded, FunctionDef)]."""
    done = []
    _CTX['tree'] = tree
    for _ in range(3):
        changed = False
        for key, fn, outer in _new_helpers(module_name, tree):
            kind = _kind(fn, tree) if outer is None else 'function'
            if kind is not None and _generator_shape(fn) is not None and len([x for x in ast.walk(tree) if isinstance(x, ast.FunctionDef) and x.name == fn.name]) == 1:
                n = 0
                for lst in list(_stmt_lists(outer if outer is not None else tree)):
                    i = 0
                    while i < len(lst):
                        st = lst[i]
                        if isinstance(st, ast.For) and _is_call_of(st.iter, fn, kind) and not any(s_ is st for s_ in ast.walk(fn)):
                            new = _expand_generator(fn, kind, st)
                            if new is not None:
                                lst[i:i + 1] = new
                                i += len(new)
                                n += 1
                                changed = True
                                continue
                        i += 1
                if n:
                    done.append((key, n, fn))
                continue
            if kind is None or not _inlinable(fn):
                continue
            # the name must denote this helper only
            same = [x for x in ast.walk(tree) if isinstance(x, ast.FunctionDef) and x.name == fn.name]
            if len(same) != 1:
                continue
            scope = outer if outer is not None else tree
            n = 0
            body = _body(fn)
            single = len(body) == 1 and isinstance(body[0], ast.Return) and body[0].value is not None
            if single:
                # expression substitution everywhere
                class _R(ast.NodeTransformer):
                    def visit_FunctionDef(self, node):
                        if node is fn:
                            return node
                        return self.generic_visit(node)

                    def visit_Call(self, node):
                        nonlocal n
                        node = self.generic_visit(node)
                        if _is_call_of(node, fn, kind):
                            b = _bind(fn, kind, node)
                            if b is not None and not b[0]:
                                n += 1
                                e = _Subst(b[1]).visit(copy.deepcopy(body[0].value))
                                e._from_helper = True
                                return ast.copy_location(e, node)
                        return node
                _R().visit(scope)
                if n:
                    _unroll_table_loops(scope)
            for lst in list(_stmt_lists(scope)):
                if any(s is fn for s in lst) and False:
                    continue
                i = 0
                while i < len(lst):
                    st = lst[i]
                    if st is fn or any(x is fn for x in ast.walk(st) if isinstance(x, ast.FunctionDef) and x is not st) and isinstance(st, ast.FunctionDef) and st is fn:
                        i += 1
                        continue
                    new = None
                    if isinstance(st, ast.Expr) and _is_call_of(st.value, fn, kind):
                        new = _expand(fn, kind, st.value, 'expr')
                    elif isinstance(st, ast.Assign) and _is_call_of(st.value, fn, kind):
                        _CTX['targets'] = set(x.id for t_ in st.targets for x in ast.walk(t_) if isinstance(x, ast.Name))
                        try:
                            new = _expand(fn, kind, st.value, 'assign', st.targets)
                        finally:
                            _CTX['targets'] = ()
                    elif isinstance(st, ast.Return) and st.value is not None and _is_call_of(st.value, fn, kind):
                        new = _expand(fn, kind, st.value, 'return')
                    elif isinstance(st, ast.If) and not single and (_is_call_of(st.test, fn, kind) or (
                            isinstance(st.test, ast.UnaryOp) and isinstance(st.test.op, ast.Not) and _is_call_of(st.test.operand, fn, kind))):
                        # `if [not] H(...)`: the helper's result goes through a fresh flag
                        call = st.test if isinstance(st.test, ast.Call) else st.test.operand
                        flag = '_%s_result' % fn.name.strip('_')
                        new = _expand(fn, kind, call, 'assign', [ast.Name(id=flag, ctx=ast.Store())])
                        if new is not None and not any(s is st for s in ast.walk(fn)):
                            ref_ = ast.copy_location(ast.Name(id=flag, ctx=ast.Load()), call)
                            if isinstance(st.test, ast.Call):
                                st.test = ref_
                            else:
                                st.test.operand = ref_
                            lst[i:i] = new
                            i += len(new) + 1
                            n += 1
                            changed = True
                            continue
                        new = None
                    if new is not None and not any(s is st for s in ast.walk(fn)):
                        lst[i:i + 1] = new
                        i += len(new)
                        n += 1
                        changed = True
                    else:
                        i += 1
            if n:
                done.append((key, n, fn))
        if not changed:
            break
    if done:
        ast.fix_missing_locations(tree)
    return done


# ---------------------------------------------------------------------------------------------------------------------------------
def _loads_stores(fn, name):
    loads, stores = [], []
    for x in ast.walk(fn):
        if isinstance(x, ast.Name) and x.id == name:
            (loads if isinstance(x.ctx, ast.Load) else stores).append(x)
    return loads, stores


def _pure(e):
    """names, constants, attributes of names, arithmetic / shifts / subscripts of these, slice(...) and len(...) of these"""
    if isinstance(e, (ast.Name, ast.Constant)):
        return True
    if isinstance(e, ast.Attribute):
        return _pure(e.value)
    if isinstance(e, ast.BinOp):
        return _pure(e.left) and _pure(e.right)
    if isinstance(e, ast.UnaryOp):
        return _pure(e.operand)
    if isinstance(e, ast.Subscript) and isinstance(e.value, ast.Name) and isinstance(e.slice, ast.Constant):
        return True         # (the caller checks that nothing stores into / calls with the container while the temporary is in use)
    if isinstance(e, ast.Call) and isinstance(e.func, ast.Name) and e.func.id in ('slice', 'len') and not e.keywords:
        return all(_pure(a) for a in e.args)
    return False


def _first_use_host(st):
    """The part of the next statement in which a temporary may be substituted: the statement itself when it is simple, the test of
    an if."""
    if isinstance(st, (ast.Expr, ast.Assign, ast.AugAssign, ast.Return, ast.Raise, ast.Assert, ast.Delete)):
        return st
    if isinstance(st, ast.If):
        return st.test
    # never across `with` / `try`: evaluating the expression inside would change which lock is held / which handler covers it
    return None


def _merge_flag_diamond(st, keep, fn):
    """`if C: v = <bool constant> else: v = E` (either way round) on a new local v bound nowhere else becomes `v = <C combined with E>`:
    the value is the same whenever C is a boolean, and has the same truth otherwise."""
    if not (isinstance(st, ast.If) and len(st.body) == 1 and len(st.orelse) == 1):
        return None
    a, b = st.body[0], st.orelse[0]
    for x in (a, b):
        if not (isinstance(x, ast.Assign) and len(x.targets) == 1 and isinstance(x.targets[0], ast.Name)):
            return None
    v = a.targets[0].id
    if b.targets[0].id != v or v in keep:
        return None
    loads, stores = _loads_stores(fn, v)
    if len(stores) != 2:
        return None
    if any(isinstance(x, ast.Name) and x.id == v for x in ast.walk(st.test)):
        return None

    def flag(e):
        return isinstance(e, ast.Constant) and isinstance(e.value, bool)
    neg = ast.UnaryOp(op=ast.Not(), operand=st.test)
    if flag(a.value):
        # C true -> constant
        value = ast.BoolOp(op=ast.Or(), values=[st.test, b.value]) if a.value.value else ast.BoolOp(op=ast.And(), values=[neg, b.value])
    elif flag(b.value):
        value = ast.BoolOp(op=ast.Or(), values=[neg, a.value]) if b.value.value else ast.BoolOp(op=ast.And(), values=[st.test, a.value])
    else:
        return None
    return ast.fix_missing_locations(ast.copy_location(ast.Assign(targets=[a.targets[0]], value=value), st))


def inline_new_temps(module_name, tree):
    """Undo "introduce temporary": a local that the reference unit does not have, bound once by `t = E` and read once, in the
    statement that follows, is replaced by E there.  Returns the number of temporaries removed."""
    ref = alpha.reference().get(module_name)
    if not ref or '__units__' not in ref:
        return 0
    n = 0
    for key, fn in alpha.units(tree):
        if key not in ref['__units__']:
            continue
        known = set(a[1] for a in ref.get(key, {}).get('names', [])) if isinstance(ref.get(key), dict) else set()
        params = {x.arg for x in fn.args.posonlyargs + fn.args.args + fn.args.kwonlyargs}
        changed = True
        while changed:
            changed = False
            for lst in list(_stmt_lists(fn)):
                for i, st in enumerate(lst[:-1]):
                    merged = _merge_flag_diamond(st, known | params, fn)
                    if merged is not None:
                        lst[i] = st = merged
                        n += 1
                        changed = True
                    if not (isinstance(st, ast.Assign) and len(st.targets) == 1 and isinstance(st.targets[0], ast.Name)):
                        continue
                    t = st.targets[0].id
                    if t in known or t in params:
                        continue
                    loads, stores = _loads_stores(fn, t)
                    if len(stores) == 1 and len(loads) > 1 and _pure(st.value):
                        # a pure expression over names that are not re-bound while the temporary is in use: substitute at every use
                        rest = lst[i + 1:]
                        inside = [x for r_ in rest for x in ast.walk(r_)]
                        operands = set(x.id for x in ast.walk(st.value) if isinstance(x, ast.Name))
                        containers = set(x.value.id for x in ast.walk(st.value) if isinstance(x, ast.Subscript) and isinstance(x.value, ast.Name))
                        touched = any(
                            (isinstance(x, (ast.Subscript, ast.Attribute)) and isinstance(x.ctx, (ast.Store, ast.Del)) and isinstance(x.value, ast.Name)
                             and x.value.id in containers) or
                            (isinstance(x, ast.Call) and (any(isinstance(a, ast.Name) and a.id in containers for a in x.args) or
                                                          (isinstance(x.func, ast.Attribute) and isinstance(x.func.value, ast.Name)
                                                           and x.func.value.id in containers and x.func.attr not in ('get', 'keys', 'values', 'items'))))
                            for x in inside) if containers else False
                        if not touched and all(any(l_ is x for x in inside) for l_ in loads) and not any(
                                isinstance(x, ast.Name) and isinstance(x.ctx, (ast.Store, ast.Del)) and x.id in operands for x in inside) and \
                                not any(isinstance(x, (ast.Lambda, ast.FunctionDef)) for x in inside):
                            value = st.value
                            ids = set(id(l_) for l_ in loads)

                            class _M(ast.NodeTransformer):
                                def visit_Name(self, node):
                                    return ast.copy_location(copy.deepcopy(value), node) if id(node) in ids else node
                            for k in range(i + 1, len(lst)):
                                lst[k] = _M().visit(lst[k])
                            del lst[i]
                            n += 1
                            changed = True
                            break
                    if len(stores) != 1 or len(loads) != 1:
                        continue
                    host = _first_use_host(lst[i + 1])
                    if host is None or not any(x is loads[0] for x in ast.walk(host)):
                        continue
                    if any(isinstance(x, (ast.Lambda, ast.ListComp, ast.SetComp, ast.DictComp, ast.GeneratorExp)) and
                           any(y is loads[0] for y in ast.walk(x)) for x in ast.walk(host)):
                        continue
                    value = st.value

                    class _S(ast.NodeTransformer):
                        def visit_Name(self, node):
                            return ast.copy_location(copy.deepcopy(value), node) if node is loads[0] else node
                    nxt = lst[i + 1]
                    new = _S().visit(nxt)
                    lst[i + 1] = new
                    del lst[i]
                    n += 1
                    changed = True
                    break
                if changed:
                    break
    if n:
        ast.fix_missing_locations(tree)
    return n


def _literal(e):
    if isinstance(e, ast.Constant):
        return True
    if isinstance(e, (ast.Tuple, ast.List)):
        return all(_literal(x) for x in e.elts)
    if isinstance(e, ast.UnaryOp) and isinstance(e.op, (ast.USub, ast.Invert)):
        return _literal(e.operand)
    if isinstance(e, ast.BinOp):
        return _literal(e.left) and _literal(e.right)
    return False


def inline_new_constants(module_name, tree):
    """Undo "move a constant to module / class level": a name bound once, at module or class level, to a literal, which the
    reference module does not have, is replaced by the literal wherever it is read (plain `NAME`, `self.NAME`, `Class.NAME`)."""
    ref = alpha.reference().get(module_name)
    if not ref or '__names__' not in ref:
        return 0
    known = set(ref['__names__'])
    cands = {}
    for node in ast.walk(tree):
        if isinstance(node, (ast.Module, ast.ClassDef)):
            for st in node.body:
                if isinstance(st, ast.Assign) and len(st.targets) == 1 and isinstance(st.targets[0], ast.Name) and _literal(st.value):
                    nm = st.targets[0].id
                    if nm not in known:
                        cands[nm] = None if nm in cands else (st.value, isinstance(node, ast.ClassDef))
    cands = {k: v for k, v in cands.items() if v is not None}
    # the name must not be bound anywhere else
    for x in ast.walk(tree):
        if isinstance(x, ast.Name) and isinstance(x.ctx, (ast.Store, ast.Del)) and x.id in cands:
            cands[x.id] = (cands[x.id][0], cands[x.id][1], cands[x.id][2] + 1 if len(cands[x.id]) > 2 else 1)
        if isinstance(x, ast.arg) and x.arg in cands:
            cands[x.arg] = (cands[x.arg][0], cands[x.arg][1], 99)
    cands = {k: v for k, v in cands.items() if len(v) > 2 and v[2] == 1}
    if not cands:
        return 0
    n = 0

    class _C(ast.NodeTransformer):
        def visit_Name(self, node):
            nonlocal n
            if isinstance(node.ctx, ast.Load) and node.id in cands and not cands[node.id][1]:
                n += 1
                return ast.copy_location(copy.deepcopy(cands[node.id][0]), node)
            return node

        def visit_Attribute(self, node):
            nonlocal n
            self.generic_visit(node)
            if isinstance(node.ctx, ast.Load) and node.attr in cands and cands[node.attr][1] and isinstance(node.value, ast.Name):
                n += 1
                return ast.copy_location(copy.deepcopy(cands[node.attr][0]), node)
            return node
    _C().visit(tree)
    if n:
        ast.fix_missing_locations(tree)
    return n
