# -*- coding: utf-8 -*-
"""Canary fixtures: tiny synthetic trees under /verif/fixtures/<name>/nfc/... analysed by the
same rule code on every run (a rule whose expected violation count is zero must still be
seen to fire)."""
import os

from .model import Program
from .core import VERIF

_cache = {}


def fixture_program(name):
    if name not in _cache:
        _cache[name] = Program(src=os.path.join(VERIF, 'fixtures', name))
    return _cache[name]
