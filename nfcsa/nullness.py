# -*- coding: utf-8 -*-
"""Failure sentinels: a function that answers a failed tag access with None (or a tuple of None) instead of raising obliges each
caller to test for it before the value is used as a number, a sequence or an object -- otherwise the tag's failure surfaces as
TypeError / AttributeError instead of the documented result."""
import ast

from .model import norm, walk_no_nested
from .cfg import cfg_of
from .q import cfg_node_for


def sentinel_kind(f):
    """'tuple' if some return is a tuple display of None constants only (and another return is not), 'none' if some return is
    `return None` / bare return inside an exception handler or under a test while another returns a value, else None."""
    rets = [r for r in walk_no_nested(f.node) if isinstance(r, ast.Return)]
    alln = [r for r in rets if isinstance(r.value, ast.Tuple) and r.value.elts and all(isinstance(e, ast.Constant) and e.value is None for e in r.value.elts)]
    if alln and len(alln) < len(rets):
        return 'tuple'
    nones = [r for r in rets if r.value is None or (isinstance(r.value, ast.Constant) and r.value.value is None)]
    vals = [r for r in rets if r not in nones]
    if nones and vals:
        return 'none'
    return None


def _no_none(expr):
    from .q import try_const
    v = try_const(expr, default=NotImplemented)
    if v is NotImplemented or v is None:
        return False
    if isinstance(v, (tuple, list, set, frozenset)):
        return all(x is not None for x in v)
    return True


def _none_tests(cfg, names):
    """edges on which one of `names` is known not to be None."""
    edges = []
    for e, t in cfg.test_nodes.items():
        txt = norm(e)
        for v in names:
            if txt in (v + ' is None', v + ' == None'):
                edges.append((t, 'false'))
            elif txt in (v + ' is not None', v + ' != None', v):
                edges.append((t, 'true'))
            elif isinstance(e, ast.Compare) and len(e.ops) == 1 and norm(e.left) == v and isinstance(e.ops[0], (ast.Eq, ast.In)) \
                    and _no_none(e.comparators[0]):
                edges.append((t, 'true'))       # equal to / member of constants other than None
    return edges


def _numeric_uses(f, names):
    """AST nodes that use one of names as a number / sequence / object: arithmetic operand, ordering comparison, subscripted value,
    attribute base, len()/range()/bytearray() argument, iteration."""
    out = []
    for x in walk_no_nested(f.node):
        def is_n(e):
            return isinstance(e, ast.Name) and e.id in names and isinstance(e.ctx, ast.Load)
        if isinstance(x, ast.BinOp) and (is_n(x.left) or is_n(x.right)):
            out.append(x)
        elif isinstance(x, ast.Compare) and any(isinstance(o, (ast.Lt, ast.LtE, ast.Gt, ast.GtE)) for o in x.ops) and \
                (is_n(x.left) or any(is_n(c) for c in x.comparators)):
            out.append(x)
        elif isinstance(x, ast.Subscript) and is_n(x.value) and isinstance(x.ctx, ast.Load):
            out.append(x)
        elif isinstance(x, ast.Attribute) and is_n(x.value):
            out.append(x)
        elif isinstance(x, ast.Call) and norm(x.func) in ('len', 'range', 'bytearray', 'bytes', 'sum', 'min', 'max') and any(is_n(a) for a in x.args):
            out.append(x)
        elif isinstance(x, ast.For) and is_n(x.iter):
            out.append(x.iter)
        elif isinstance(x, ast.AugAssign) and is_n(x.value):
            out.append(x)
    return out


def check_callers(report, prog, res, callee, rule, funcs, what):
    """Every call of `callee` in `funcs` whose result is bound to local names: uses of those names as values are reachable from
    the call only through a not-None edge on one of them.  Returns the number of call sites examined."""
    n = 0
    from .core import key
    for f in funcs:
        sites = []
        for st in walk_no_nested(f.node):
            if not isinstance(st, ast.Assign) or not isinstance(st.value, ast.Call):
                continue
            try:
                tg = res.callees(f, st.value, None, record=False)
            except Exception:
                tg = []
            if not any(t.func is callee for t in tg):
                if not (isinstance(st.value.func, ast.Name) and st.value.func.id == callee.name and callee.module is f.module and callee.cls is None) and \
                        not (isinstance(st.value.func, ast.Attribute) and norm(st.value.func.value) == 'self' and f.cls is not None and
                             prog.lookup(f.cls, st.value.func.attr) is callee):
                    continue
            sites.append(st)
        if not sites:
            continue
        cfg = cfg_of(f)
        for st in sites:
            n += 1
            names = set()
            for t in st.targets:
                if isinstance(t, ast.Name):
                    names.add(t.id)
                elif isinstance(t, ast.Tuple):
                    names |= set(e.id for e in t.elts if isinstance(e, ast.Name))
            # one level of re-destructuring: a, b, c = tlv
            for st2 in walk_no_nested(f.node):
                if isinstance(st2, ast.Assign) and isinstance(st2.value, ast.Name) and st2.value.id in names and isinstance(st2.targets[0], ast.Tuple):
                    names |= set(e.id for e in st2.targets[0].elts if isinstance(e, ast.Name))
            if not names:
                continue
            src = cfg.node_of(st)
            edges = _none_tests(cfg, names)
            rebinds = [cfg.node_of(s2) for s2 in walk_no_nested(f.node) if isinstance(s2, ast.Assign) and s2 is not st and
                       not isinstance(s2.value, ast.Name) and any(isinstance(t, ast.Name) and t.id in names for t in s2.targets) and
                       cfg.node_of(s2) is not None and not (isinstance(s2.value, ast.Call) and s2 in sites)]
            bad = None
            for u in _numeric_uses(f, names):
                un = cfg_node_for(cfg, u)
                if un is None or un is src:
                    continue
                if un in cfg.reachable(src, avoid_edges=edges, avoid_nodes=[r for r in rebinds if r is not un], labels_excluded=('exc',)):
                    bad = u
                    break
            report.check(bad is None, rule, key(f.qname, 'result of %s tested for the failure value before use' % callee.name, st), f.loc(st),
                         '%s: `%s` can be the failure value of %s (%s) when `%s` is evaluated: TypeError instead of the documented outcome'
                         % (f.qname, '/'.join(sorted(names)), callee.qname, what, norm(bad)[:60] if bad is not None else ''))
    return n
