# -*- coding: utf-8 -*-
"""Reasoned suppressions of infeasible reports of the may-analyses.

One entry silences exactly one obligation key.  Every entry names the guard that makes the
reported path infeasible as an *anchor* (function qualname, pattern); the anchor is re-checked
on every run and if it has disappeared the suppression is void and the report comes back.
No wildcards.  Real defects never go here (they are fixed or listed in known_findings.json)."""
import ast

from .model import norm, walk_no_nested
from .q import find

# (property, rule, key) -> (reason, [(function qualname, pattern or callable), ...])
TABLE = {}


def add(prop, rule, key, reason, anchors):
    TABLE[(prop, rule, key)] = (reason, anchors)


def _negated_test_present(f, text):
    """The anchor is the text of a test: it also holds when the function tests the exact negation (branches swapped)."""
    from .canon import _negate
    try:
        want = ast.parse(text, mode='eval').body
    except SyntaxError:
        return False
    neg = norm(_negate(want))
    for s in walk_no_nested(f.node):
        if isinstance(s, (ast.If, ast.While, ast.IfExp)) and norm(s.test) == neg:
            return True
    return False


def lookup(prog, prop, rule, key):
    ent = TABLE.get((prop, rule, key))
    if ent is None:
        return None
    reason, anchors = ent
    for q, pattern in anchors:
        f = prog.functions.get(q)
        if f is None:
            return None
        if callable(pattern):
            if not pattern(f):
                return None
        elif isinstance(pattern, str) and pattern.startswith('text:'):
            if pattern[5:] not in norm(f.node).replace('\n', ' ') and \
                    not any(pattern[5:] in norm(s) for s in walk_no_nested(f.node) if isinstance(s, (ast.stmt, ast.expr))) and \
                    not _negated_test_present(f, pattern[5:]):
                return None
        else:
            if not find(f.node, pattern):
                return None
    return reason
