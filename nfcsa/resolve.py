# -*- coding: utf-8 -*-
"""E1 (second half) -- class-rooted callee resolution and light type inference."""
import ast

from .model import (ClassInfo, FuncInfo, AnalysisError, norm, walk_no_nested,
                    enclosing)


class Ctx(object):
    """Analysis context: `self` is an instance of `root`; `owner` is the object
    that created / owns it (for back references such as NDEF._tag)."""
    __slots__ = ('root', 'owner')

    def __init__(self, root=None, owner=None):
        self.root = root
        self.owner = owner

    def key(self):
        return (self.root.qname if self.root else None,
                self.owner.qname if self.owner else None)

    def __hash__(self):
        return hash(self.key())

    def __eq__(self, other):
        return isinstance(other, Ctx) and self.key() == other.key()

    def __repr__(self):
        return 'Ctx(%s%s)' % (self.root.name if self.root else '-',
                              '<-' + self.owner.name if self.owner else '')


# --- frozen receiver-type table -------------------------------------------------------
# (class in MRO of self, attribute) -> list of class qualified names, with the reason.
ATTR_TYPES = {
    ('nfc.clf.ContactlessFrontend', 'device'): (
        ['nfc.clf.pn531.Device', 'nfc.clf.pn532.Device', 'nfc.clf.pn533.Device',
         'nfc.clf.rcs956.Device', 'nfc.clf.rcs380.Device', 'nfc.clf.acr122.Device',
         'nfc.clf.arygon.DeviceA', 'nfc.clf.arygon.DeviceB', 'nfc.clf.udp.Device'],
        'device.connect() imports a driver module by name and calls its init()'),
    ('nfc.tag.Tag', '_clf'): (['nfc.clf.ContactlessFrontend'], 'Tag(clf, target) is created by activate(clf, target)'),
    ('nfc.tag.Tag', 'clf'): (['nfc.clf.ContactlessFrontend'], 'property returning _clf'),
    ('nfc.tag.tt3.Type3TagEmulation', 'clf'): (['nfc.clf.ContactlessFrontend'], 'emulate(clf, target)'),
    ('nfc.tag.tt4.IsoDepInitiator', 'clf'): (['nfc.clf.ContactlessFrontend'], 'IsoDepInitiator(clf, ..) in Type4Tag.__init__'),
    ('nfc.dep.DataExchangeProtocol', 'clf'): (['nfc.clf.ContactlessFrontend'], 'DEP(clf=self) in _llcp_connect'),
    ('nfc.llcp.llc.LogicalLinkController', 'mac'): (['nfc.dep.Initiator', 'nfc.dep.Target'], 'llc.activate(mac=DEP(clf=self))'),
    ('nfc.llcp.llc.LogicalLinkController', 'sec'): (['nfc.llcp.sec.CipherSuite1'], 'sec.cipher_suite("ECDH_anon_WITH_AEAD_AES_128_CCM_4")'),
    ('nfc.llcp.llc.LogicalLinkController', 'snl'): ([], 'dict'),
    ('nfc.llcp.llc.ServiceAccessPoint', 'llc'): (['nfc.llcp.llc.LogicalLinkController'], 'ServiceAccessPoint(addr, llc=self)'),
    ('nfc.llcp.llc.ServiceDiscovery', 'llc'): (['nfc.llcp.llc.LogicalLinkController'], 'ServiceDiscovery(llc=self)'),
    ('nfc.llcp.socket.Socket', '_llc'): (['nfc.llcp.llc.LogicalLinkController'], 'Socket(llc, sock_type)'),
    ('nfc.llcp.socket.Socket', '_tco'): (['nfc.llcp.tco.RawAccessPoint', 'nfc.llcp.tco.LogicalDataLink',
                                          'nfc.llcp.tco.DataLinkConnection'], 'llc.socket(sock_type)'),
    ('nfc.tag.tt4.Type4Tag', '_dep'): (['nfc.tag.tt4.IsoDepInitiator'], 'constructed in Type4ATag/Type4BTag.__init__'),
    ('nfc.clf.pn53x.Device', 'chipset'): (None, 'typed per driver module: <module>.Chipset'),
    ('nfc.clf.pn53x.Chipset', 'transport'): (['nfc.clf.transport.USB', 'nfc.clf.transport.TTY'], 'init(transport)'),
    ('nfc.clf.rcs380.Chipset', 'transport'): (['nfc.clf.transport.USB'], 'init(transport)'),
    ('nfc.clf.acr122.Chipset', 'transport'): (['nfc.clf.transport.USB'], 'init(transport)'),
    ('nfc.snep.client.SnepClient', 'socket'): (['nfc.llcp.socket.Socket'], 'nfc.llcp.Socket(llc, DATA_LINK_CONNECTION)'),
    ('nfc.handover.client.HandoverClient', 'socket'): (['nfc.llcp.socket.Socket'], 'nfc.llcp.Socket(llc, DATA_LINK_CONNECTION)'),
}

LOCAL_TYPES = {
    ('nfc.clf.ContactlessFrontend._llcp_connect', 'llc'): (['nfc.llcp.llc.LogicalLinkController'], "options['llc'] is set by connect() after the isinstance test"),
    ('nfc.clf.ContactlessFrontend.connect', 'llc'): (['nfc.llcp.llc.LogicalLinkController'], 'constructed in connect()'),
    ('nfc.clf.ContactlessFrontend._rdwr_connect', 'tag'): (['nfc.tag.Tag'], 'nfc.tag.activate returns a Tag subclass instance or None'),
    ('nfc.clf.ContactlessFrontend._card_connect', 'tag'): (['nfc.tag.tt3.Type3TagEmulation'], 'nfc.tag.emulate'),
}

# element classes of container attributes
ELEM_TYPES = {
    ('nfc.llcp.llc.LogicalLinkController', 'sap'): (['nfc.llcp.llc.ServiceAccessPoint', 'nfc.llcp.llc.ServiceDiscovery'],
                                                   'table of 64 entries filled by __init__ / bind'),
    ('nfc.llcp.llc.ServiceAccessPoint', 'sock_list'): (['nfc.llcp.tco.RawAccessPoint', 'nfc.llcp.tco.LogicalDataLink',
                                                       'nfc.llcp.tco.DataLinkConnection'], 'insert_socket(socket)'),
}

# attributes that refer back to the owner object (Ctx.owner); default class if no owner known
BACKREFS = {
    ('nfc.tag.Tag.NDEF', '_tag'): 'OUTER',
    ('nfc.tag.Tag.NDEF', 'tag'): 'OUTER',
    ('nfc.tag.tt1.Type1TagMemoryReader', '_tag'): 'nfc.tag.tt1.Type1Tag',
    ('nfc.tag.tt2.Type2TagMemoryReader', '_tag'): 'nfc.tag.tt2.Type2Tag',
}


class Target(object):
    __slots__ = ('func', 'ctx', 'ext', 'via')

    def __init__(self, func=None, ctx=None, ext=None, via=None):
        self.func = func
        self.ctx = ctx
        self.ext = ext      # dotted name of an external callable
        self.via = via      # 'init' when the call constructs a class

    def __repr__(self):
        return '<T %s %s>' % (self.func.qname if self.func else self.ext, self.ctx)


class Resolver(object):
    def __init__(self, prog):
        self.p = prog
        self._attr_cache = {}
        self._local_cache = {}
        self.unresolved = []        # (FuncInfo, call node)
        self.resolved_count = 0

    # ------------------------------------------------------------- self / types
    def self_class(self, func, ctx):
        oc = func.owner_class
        if oc is None:
            return None
        if ctx is not None and ctx.root is not None and oc in self.p.mro(ctx.root):
            return ctx.root
        return oc

    def enclosing_method(self, func):
        f = func
        while f is not None and f.cls is None:
            f = f.parent
        return f

    def types_of(self, func, expr, ctx, depth=0):
        """Set of ClassInfo the value of `expr` may be an instance of (empty = unknown)."""
        if depth > 4:
            return set()
        p = self.p
        if isinstance(expr, ast.Name):
            if expr.id == 'self' and self.enclosing_method(func) is not None:
                sc = self.self_class(func, ctx)
                return {sc} if sc else set()
            return self._local_types(func, expr.id, ctx, depth)
        if isinstance(expr, ast.Attribute):
            # static reference to a class?  (x = nfc.clf.Foo) - not an instance
            bases = self.types_of(func, expr.value, ctx, depth + 1)
            out = set()
            for b in bases:
                out |= self._attr_types(b, expr.attr, ctx, depth + 1)
            return out
        if isinstance(expr, ast.Call):
            out = set()
            for t in self.callees(func, expr, ctx, record=False):
                if t.via == 'init':
                    out.add(t.ctx.root)
                elif t.func is not None and t.via != 'init':
                    out |= self._return_types(t.func, t.ctx, depth + 1)
            # constructing a class that has no __init__ in the repository
            r = self._static(func, expr.func, ctx)
            if r is not None and r[0] == 'class':
                out.add(r[1])
            return out
        if isinstance(expr, ast.Subscript) and not isinstance(expr.slice, ast.Slice):
            return self.elem_types(func, expr.value, ctx, depth + 1)
        if isinstance(expr, ast.IfExp):
            return self.types_of(func, expr.body, ctx, depth + 1) | \
                self.types_of(func, expr.orelse, ctx, depth + 1)
        if isinstance(expr, ast.BoolOp):
            out = set()
            for v in expr.values:
                out |= self.types_of(func, v, ctx, depth + 1)
            return out
        return set()

    def elem_types(self, func, expr, ctx, depth=0):
        """Classes of the elements of a container expression (frozen table ELEM_TYPES, filter(None, x), sorted(x, ...))."""
        if depth > 5:
            return set()
        if isinstance(expr, ast.Call) and norm(expr.func) in ('filter', 'sorted', 'reversed', 'list', 'tuple') and expr.args:
            return self.elem_types(func, expr.args[-1] if norm(expr.func) == 'filter' else expr.args[0], ctx, depth + 1)
        if isinstance(expr, ast.Attribute):
            out = set()
            for b in self.types_of(func, expr.value, ctx, depth + 1):
                for c in self.p.mro(b):
                    if isinstance(c, ClassInfo) and (c.qname, expr.attr) in ELEM_TYPES:
                        for q in ELEM_TYPES[(c.qname, expr.attr)][0]:
                            out.add(self.p.cls(q))
                        break
            return out
        return set()

    def _static(self, func, expr, ctx):
        """Static reference (class / function / module) named by expr, incl. self.NESTED."""
        if isinstance(expr, ast.Attribute) and isinstance(expr.value, ast.Name) \
                and expr.value.id in ('self', 'cls') and self.enclosing_method(func) is not None:
            sc = self.self_class(func, ctx)
            if sc is not None:
                for c in self.p.mro(sc):
                    if isinstance(c, ClassInfo) and expr.attr in c.nested:
                        return ('class', c.nested[expr.attr])
            return None
        if isinstance(expr, ast.Name) and expr.id in self._assigned_names(func):
            return None
        return self.p.resolve_expr(func.module, expr, scope=func)

    def _assigned_names(self, func):
        k = ('assigned', func.qname)
        if k not in self._local_cache:
            names = set(func.params)
            for n in walk_no_nested(func.node):
                if isinstance(n, ast.Name) and isinstance(n.ctx, ast.Store):
                    names.add(n.id)
            self._local_cache[k] = names
        return self._local_cache[k]

    def _local_types(self, func, name, ctx, depth):
        k = ('local', func.qname, name, ctx.key() if ctx else None)
        if k in self._local_cache:
            return self._local_cache[k]
        lt = LOCAL_TYPES.get((func.qname, name))
        if lt:
            self._local_cache[k] = set(self.p.cls(q) for q in lt[0])
            return self._local_cache[k]
        self._local_cache[k] = set()
        out = set()
        f = func
        found = False
        while f is not None and not found:
            for n in walk_no_nested(f.node):
                if isinstance(n, ast.Assign):
                    for t in n.targets:
                        if isinstance(t, ast.Name) and t.id == name:
                            found = True
                            out |= self.types_of(f, n.value, ctx, depth + 1)
                elif isinstance(n, ast.For) and isinstance(n.target, ast.Name) and n.target.id == name:
                    et = self.elem_types(f, n.iter, ctx, depth + 1)
                    if et:
                        found = True
                        out |= et
                elif isinstance(n, ast.withitem) and isinstance(n.optional_vars, ast.Name) \
                        and n.optional_vars.id == name:
                    found = True
                    out |= self.types_of(f, n.context_expr, ctx, depth + 1)
                elif isinstance(n, ast.Assert):
                    # assert isinstance(x, Class)
                    t = n.test
                    if isinstance(t, ast.Call) and isinstance(t.func, ast.Name) and t.func.id == 'isinstance' \
                            and len(t.args) == 2 and isinstance(t.args[0], ast.Name) and t.args[0].id == name:
                        alts = t.args[1].elts if isinstance(t.args[1], ast.Tuple) else [t.args[1]]
                        for alt in alts:
                            r = self._static(f, alt, ctx)
                            if r is not None and r[0] == 'class':
                                out.add(r[1])
            if name in f.params:
                pt = PARAM_TYPES.get((f.qname, name))
                if pt:
                    for q in pt[0]:
                        out.add(self.p.cls(q))
                elif f.cls is not None and name != 'self':
                    # union of the argument classes at the call sites self.<method>(...) inside the class hierarchy
                    idx = [x.arg for x in f.node.args.args].index(name) - 1 if name in [x.arg for x in f.node.args.args] else -1
                    if idx >= 0 and depth < 3:
                        for c in self.p.classes.values():
                            if f.cls in self.p.mro(c) or c is f.cls:
                                for m in c.methods.values():
                                    for call in walk_no_nested(m.node):
                                        if isinstance(call, ast.Call) and isinstance(call.func, ast.Attribute) and call.func.attr == f.name \
                                                and isinstance(call.func.value, ast.Name) and call.func.value.id == 'self' and len(call.args) > idx:
                                            out |= self.types_of(m, call.args[idx], Ctx(c, ctx.owner if ctx else None), depth + 1)
                if not out and name == 'clf' and f.module.name.startswith('nfc.tag'):
                    # every `clf` parameter in nfc.tag.* is the ContactlessFrontend handed down from connect()/activate()
                    out.add(self.p.cls('nfc.clf.ContactlessFrontend'))
                found = True
            f = f.parent
        self._local_cache[k] = out
        return out

    def _attr_types(self, cls, attr, ctx, depth):
        """Types of `<instance of cls>.attr`."""
        p = self.p
        owner = ctx.owner if (ctx is not None and ctx.root is cls) else None
        k = ('attr', cls.qname, attr, owner.qname if owner else None)
        if k in self._attr_cache:
            return self._attr_cache[k]
        self._attr_cache[k] = set()
        out = set()
        mro = [c for c in p.mro(cls) if isinstance(c, ClassInfo)]
        done = False
        for c in mro:
            br = BACKREFS.get((c.qname, attr))
            if br is not None:
                if br == 'OUTER':
                    if owner is not None:
                        out.add(owner)
                    elif cls.outer is not None:
                        out.add(cls.outer)
                else:
                    dflt = p.cls(br)
                    # the owner must be an instance of the declared class (a reader created by an NDEF object still
                    # refers to the tag, not to the NDEF object)
                    if owner is not None and dflt in p.mro(owner):
                        out.add(owner)
                    elif owner is not None and owner.outer is not None and dflt in p.mro(owner.outer):
                        out.add(owner.outer)
                    else:
                        out.add(dflt)
                done = True
                break
            ent = ATTR_TYPES.get((c.qname, attr))
            if ent is not None and ent[0] is not None:
                for q in ent[0]:
                    out.add(p.cls(q))
                done = True
                break
        if not done:
            # Chipset of a pn53x-family driver: the Chipset class of the driver's own module
            if attr == 'chipset':
                m = p.modules[cls.module.name]
                init = m.names.get('init')
                if init and init[0] == 'func':
                    f = init[1]
                    varcls = []
                    for n in walk_no_nested(f.node):
                        if isinstance(n, ast.Assign) and isinstance(n.value, ast.Call) and len(n.targets) == 1 \
                                and isinstance(n.targets[0], ast.Name):
                            r = p.resolve_expr(m, n.value.func, scope=f)
                            if r and r[0] == 'class':
                                varcls.append((n.lineno, n.targets[0].id, r[1]))
                    for n in walk_no_nested(f.node):
                        if isinstance(n, ast.Call) and n.args:
                            r = p.resolve_expr(m, n.func, scope=f)
                            if r and r[0] == 'class' and r[1] is cls:
                                a0 = n.args[0]
                                prev = [c for ln, v, c in sorted(varcls, key=lambda x: x[0])
                                        if isinstance(a0, ast.Name) and v == a0.id and ln <= n.lineno]
                                if prev:
                                    out.add(prev[-1])
                                elif isinstance(a0, ast.Call):
                                    r2 = p.resolve_expr(m, a0.func, scope=f)
                                    if r2 and r2[0] == 'class':
                                        out.add(r2[1])
                if out:
                    done = True
        if not done:
            # property defined in the class: return types of the getter
            f = p.lookup(cls, attr)
            if isinstance(f, FuncInfo) and f.kind == 'property':
                out |= self._return_types(f, Ctx(cls, owner), depth + 1)
            else:
                # assignments self.attr = <expr> in any method of the MRO
                for c in mro:
                    for mname, m in list(c.methods.items()) + [(n, s) for n, s in c.setters.items()]:
                        for n in walk_no_nested(m.node):
                            if isinstance(n, ast.Assign):
                                for t in n.targets:
                                    if isinstance(t, ast.Attribute) and t.attr == attr \
                                            and isinstance(t.value, ast.Name) and t.value.id == 'self':
                                        out |= self.types_of(m, n.value, Ctx(cls, owner), depth + 1)
        self._attr_cache[k] = out
        return out

    def _return_types(self, f, ctx, depth):
        k = ('ret', f.qname, ctx.key() if ctx else None)
        if k in self._attr_cache:
            return self._attr_cache[k]
        self._attr_cache[k] = set()
        out = set()
        if depth <= 4:
            for n in walk_no_nested(f.node):
                if isinstance(n, ast.Return) and n.value is not None:
                    out |= self.types_of(f, n.value, ctx, depth + 1)
        self._attr_cache[k] = out
        return out

    # ------------------------------------------------------------- call targets
    def method_targets(self, cls, name, ctx_owner=None, after=None, from_ctx=None):
        """Targets for calling method `name` on an instance of `cls`."""
        f = self.p.lookup(cls, name, after=after)
        if isinstance(f, FuncInfo):
            if from_ctx is not None and from_ctx.root is cls:
                return [Target(f, from_ctx)]
            return [Target(f, Ctx(cls, ctx_owner))]
        if isinstance(f, tuple) and f[0] == 'attr':
            # class attribute alias:  name = other_function
            r = self.p.resolve_expr(f[1].module, f[2])
            if r and r[0] == 'func':
                return [Target(r[1], Ctx(cls, ctx_owner))]
        return []

    def callees(self, func, call, ctx, record=True):
        """Resolve a Call node inside `func` analysed under `ctx`."""
        p = self.p
        self._cur_ctx = ctx
        fn = call.func
        out = []
        # super(X, self).m(...)  /  super().m(...)
        if isinstance(fn, ast.Attribute) and isinstance(fn.value, ast.Call) \
                and isinstance(fn.value.func, ast.Name) and fn.value.func.id == 'super':
            sc = self.self_class(func, ctx)
            after = func.owner_class
            if fn.value.args:
                r = self._static(func, fn.value.args[0], ctx)
                if r and r[0] == 'class':
                    after = r[1]
            if sc is not None:
                out = self.method_targets(sc, fn.attr, after=after, from_ctx=ctx,
                                          ctx_owner=ctx.owner if ctx else None)
                if not out:
                    out = [Target(ext='builtins.object.' + fn.attr)]
            return self._done(func, call, out, record)
        # plain name
        if isinstance(fn, ast.Name):
            r = self._static(func, fn, ctx)
            if r is None:
                # local variable holding a bound method / function  (exchange = self.device.send...)
                out = self._local_callable(func, fn.id, ctx)
                return self._done(func, call, out, record)
            return self._done(func, call, self._from_static(r, ctx), record)
        # eval(<dict>[key] + 'SUFFIX').method(...)  /  eval('prefix' + name)(...): literal-driven dispatch
        ev = fn.value if isinstance(fn, ast.Attribute) else fn
        if isinstance(ev, ast.Call) and isinstance(ev.func, ast.Name) and ev.func.id == 'eval' and ev.args:
            classes = self._eval_classes(func, ev.args[0])
            for ci in classes:
                if isinstance(fn, ast.Attribute):
                    out.extend(self.method_targets(ci, fn.attr, ctx_owner=self.self_class(func, ctx)))
                else:
                    out.extend(self._from_static(('class', ci), ctx))
            return self._done(func, call, out, record)
        if isinstance(fn, ast.Subscript) and isinstance(fn.value, ast.Name):
            ent = func.module.names.get(fn.value.id)
            if ent and ent[0] == 'expr' and isinstance(ent[1], ast.Dict):
                for v in ent[1].values:
                    r = p.resolve_expr(func.module, v, scope=func)
                    if r and r[0] in ('class', 'func'):
                        out.extend(self._from_static(r, ctx))
                return self._done(func, call, out, record)
        if isinstance(fn, ast.Attribute):
            # static chain (module.func, Class.method, nfc.clf.Class)
            r = None
            root = fn
            while isinstance(root, ast.Attribute):
                root = root.value
            if isinstance(root, ast.Name) and root.id not in self._assigned_names(func) \
                    and not (root.id in ('self', 'cls') and self.enclosing_method(func) is not None):
                r = p.resolve_expr(func.module, fn, scope=func)
            if r is None and isinstance(fn.value, ast.Name) and fn.value.id in ('self', 'cls') \
                    and self.enclosing_method(func) is not None:
                r = self._static(func, fn, ctx)    # self.NDEF(...) -> nested class
            if r is not None and r[0] in ('class', 'func', 'ext'):
                return self._done(func, call, self._from_static(r, ctx), record)
            # local variable bound to a class taken from a module-level dict:  v = D.get(k, Default) ; v.method(...)
            if isinstance(fn.value, ast.Name):
                for ci in self._dict_classes(func, fn.value.id):
                    m = self.p.lookup(ci, fn.attr)
                    if isinstance(m, FuncInfo):
                        out.append(Target(m, Ctx(ci)))
                if out:
                    return self._done(func, call, out, record)
            # instance method call
            recv_types = self.types_of(func, fn.value, ctx)
            for t in sorted(recv_types, key=lambda c: c.qname):
                if isinstance(fn.value, ast.Name) and fn.value.id == 'self':
                    ts = self.method_targets(t, fn.attr, from_ctx=ctx, ctx_owner=ctx.owner if ctx else None)
                    if not ts:
                        ts = self._instance_alias(func, t, fn.attr, ctx)
                else:
                    owner = self.self_class(func, ctx)
                    ts = self.method_targets(t, fn.attr, ctx_owner=owner)
                    if not ts:
                        ts = self._instance_alias(func, t, fn.attr, Ctx(t, owner))
                out.extend(ts)
            return self._done(func, call, out, record)
        return self._done(func, call, out, record)

    def _dict_classes(self, func, name):
        out = []
        for n in walk_no_nested(func.node):
            if isinstance(n, ast.Assign) and any(isinstance(t, ast.Name) and t.id == name for t in n.targets):
                v = n.value
                d = None
                extra = []
                if isinstance(v, ast.Call) and isinstance(v.func, ast.Attribute) and v.func.attr == 'get' and isinstance(v.func.value, ast.Name):
                    d = v.func.value.id
                    extra = v.args[1:2]
                elif isinstance(v, ast.Subscript) and isinstance(v.value, ast.Name):
                    d = v.value.id
                ent = func.module.names.get(d) if d else None
                if ent and ent[0] == 'expr' and isinstance(ent[1], ast.Dict):
                    for x in list(ent[1].values) + list(extra):
                        r = self.p.resolve_expr(func.module, x, scope=func)
                        if r and r[0] == 'class' and r[1] not in out:
                            out.append(r[1])
        return out

    def _ctx_of(self, func, out, t):
        return self._cur_ctx

    def _eval_classes(self, func, arg):
        """Classes named by eval(D[k] + 'SUFFIX') where D is a dict literal assigned in the function."""
        out = []
        if isinstance(arg, ast.BinOp) and isinstance(arg.op, ast.Add) and isinstance(arg.left, ast.Constant) \
                and isinstance(arg.right, ast.Call) and isinstance(arg.right.func, ast.Attribute) \
                and arg.right.func.attr == 'capitalize' and isinstance(arg.right.func.value, ast.Name):
            var = arg.right.func.value.id
            for n in walk_no_nested(func.node):
                if isinstance(n, ast.For) and isinstance(n.target, ast.Name) and n.target.id == var \
                        and isinstance(n.iter, (ast.Tuple, ast.List)):
                    for e in n.iter.elts:
                        if isinstance(e, ast.Constant) and isinstance(e.value, str):
                            ci = self.p.classes.get(arg.left.value + e.value.capitalize())
                            if ci is not None:
                                out.append(ci)
            return out
        if isinstance(arg, ast.BinOp) and isinstance(arg.op, ast.Add) and isinstance(arg.right, ast.Constant) \
                and isinstance(arg.left, ast.Subscript) and isinstance(arg.left.value, ast.Name):
            suffix = arg.right.value
            dname = arg.left.value.id
            for n in walk_no_nested(func.node):
                if isinstance(n, ast.Assign) and any(isinstance(t, ast.Name) and t.id == dname for t in n.targets) \
                        and isinstance(n.value, ast.Dict):
                    for v in n.value.values:
                        if isinstance(v, ast.Constant) and isinstance(v.value, str):
                            ent = func.module.names.get(v.value + suffix)
                            if ent and ent[0] == 'class':
                                out.append(ent[1])
        return out

    def _instance_alias(self, func, cls, attr, ctx):
        """self.attr = self.other_method  (instance re-binding)."""
        out = []
        for c in self.p.mro(cls):
            if not isinstance(c, ClassInfo):
                continue
            for m in c.methods.values():
                for n in walk_no_nested(m.node):
                    if isinstance(n, ast.Assign) and isinstance(n.value, ast.Attribute) \
                            and isinstance(n.value.value, ast.Name) and n.value.value.id == 'self':
                        for t in n.targets:
                            if isinstance(t, ast.Attribute) and t.attr == attr \
                                    and isinstance(t.value, ast.Name) and t.value.id == 'self':
                                out.extend(self.method_targets(cls, n.value.attr, from_ctx=ctx))
        return out

    def _local_callable(self, func, name, ctx):
        out = []
        f = func
        while f is not None:
            for n in walk_no_nested(f.node):
                if isinstance(n, ast.Assign) and any(isinstance(t, ast.Name) and t.id == name for t in n.targets):
                    v = n.value
                    if isinstance(v, ast.Call) and isinstance(v.func, ast.Name) and v.func.id == 'eval' and v.args:
                        for ci in self._eval_classes(f, v.args[0]):
                            out.extend(self._from_static(('class', ci), ctx))
                    if isinstance(v, ast.Attribute):
                        fake = ast.Call(func=v, args=[], keywords=[])
                        ast.copy_location(fake, v)
                        out.extend(self.callees(f, fake, ctx, record=False))
            f = f.parent
        return out

    def _from_static(self, r, ctx):
        if r[0] == 'func':
            f = r[1]
            if f.cls is not None:
                # Class.method(self, ...) explicit call: keep ctx when compatible
                if ctx is not None and ctx.root is not None and f.cls in self.p.mro(ctx.root):
                    return [Target(f, ctx)]
                return [Target(f, Ctx(f.cls))]
            return [Target(f, Ctx(None, ctx.owner if ctx else None) if f.parent is None else ctx)]
        if r[0] == 'class':
            ci = r[1]
            init = self.p.lookup(ci, '__init__')
            owner = ctx.root if ctx is not None else None
            if isinstance(init, FuncInfo):
                return [Target(init, Ctx(ci, owner), via='init')]
            return [Target(ext='init:' + ci.qname, ctx=Ctx(ci, owner), via='init')]
        if r[0] == 'ext':
            return [Target(ext=r[1])]
        return []

    def _done(self, func, call, out, record):
        # an object that keeps a back reference to its first constructor argument (memory readers: _tag) is owned by that
        # argument's class, not by the object that happened to construct it
        for t in out:
            if t.via == 'init' and t.ctx is not None and t.ctx.root is not None and call.args:
                if any((c.qname, a) in BACKREFS for c in self.p.mro(t.ctx.root) if isinstance(c, ClassInfo) for a in ('_tag',)) \
                        and not t.ctx.root.qname.endswith('.NDEF'):
                    ats = sorted(self.types_of(func, call.args[0], self._ctx_of(func, out, t)), key=lambda c: c.qname)
                    if ats:
                        t.ctx = Ctx(t.ctx.root, ats[0])
        if record:
            if out:
                self.resolved_count += 1
            else:
                self.unresolved.append((func, call))
        return out


# parameter types that cannot be inferred locally (call-site argument classes), with reason
PARAM_TYPES = {
    ('nfc.snep.server.SnepServer._serve', 'client_socket'): (['nfc.llcp.socket.Socket'], 'listen_socket.accept()'),
    ('nfc.snep.server.SnepServer._listen', 'listen_socket'): (['nfc.llcp.socket.Socket'], 'nfc.llcp.Socket(llc, DATA_LINK_CONNECTION)'),
    ('nfc.handover.server.HandoverServer.serve', 'socket'): (['nfc.llcp.socket.Socket'], 'socket.accept()'),
    ('nfc.handover.server.HandoverServer.listen', 'socket'): (['nfc.llcp.socket.Socket'], 'nfc.llcp.Socket(llc, DATA_LINK_CONNECTION)'),
    ('nfc.snep.client.send_request', 'socket'): (['nfc.llcp.socket.Socket'], 'SnepClient.socket'),
    ('nfc.snep.client.recv_response', 'socket'): (['nfc.llcp.socket.Socket'], 'SnepClient.socket'),
    ('nfc.llcp.llc.ServiceAccessPoint.insert_socket', 'socket'): (['nfc.llcp.tco.RawAccessPoint', 'nfc.llcp.tco.LogicalDataLink', 'nfc.llcp.tco.DataLinkConnection'], 'bind / accept'),
    ('nfc.llcp.llc.ServiceAccessPoint.remove_socket', 'socket'): (['nfc.llcp.tco.RawAccessPoint', 'nfc.llcp.tco.LogicalDataLink', 'nfc.llcp.tco.DataLinkConnection'], 'llc.close'),
    ('nfc.tag.tt2.read_tlv', 'memory'): (['nfc.tag.tt2.Type2TagMemoryReader'], 'called with tag_memory = Type2TagMemoryReader(self.tag)'),
    ('nfc.tag.tt1.read_tlv', 'memory'): (['nfc.tag.tt1.Type1TagMemoryReader'], 'called with tag_memory = Type1TagMemoryReader(self.tag)'),
    ('nfc.tag.tt1.Type1TagMemoryReader.__init__', 'tag'): (['nfc.tag.tt1.Type1Tag'], 'constructed with self / self.tag'),
    ('nfc.tag.tt2.Type2TagMemoryReader.__init__', 'tag'): (['nfc.tag.tt2.Type2Tag'], 'constructed with self / self.tag'),
}
