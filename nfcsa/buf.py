# -*- coding: utf-8 -*-
"""E4 (reduced) -- length-guard analysis for buffers that come from the peer / the tag.

For one function and one buffer expression (a local name or attribute path such as `res.data`) every read that implies a
minimum length is enumerated:
    v[k]                         (constant k >= 0)            -> IndexError  unless len(v) >= k+1
    v.pop(0) / v.pop()                                        -> IndexError  unless len(v) >= 1
    a, b, c = v[i:j]  /  a, b = v                             -> ValueError  unless len(v) >= j
    struct.unpack(fmt, v[i:j])  (fixed fmt)                   -> struct.error unless len(v) >= j
    struct.unpack_from(fmt, v, k)                             -> struct.error unless len(v) >= k + size
    len(v) / v[...] where v may be None (the function itself tests v for None / truthiness elsewhere) -> TypeError
Each read must be dominated by a guard that proves the bound (CFG lower-bound analysis on len(v), with re-binding, del, pop,
append as kills) or sit lexically inside a try whose handler catches the implied exception."""
import ast
import struct

from .model import norm, walk_no_nested, ancestors, enclosing_stmt, head
from .cfg import cfg_of
from .q import try_const, lower_bound_at, cfg_node_for, match



def P(index, attr=None):
    """Buffer spec: the parameter at `index` (self / cls not counted), optionally one of its attributes."""
    return ('param', index, attr)


def FROM(*prefixes, **kw):
    """Buffer spec: every local name bound from a call whose text starts with one of `prefixes` + '(' (optionally an attribute of
    that name).  The table names the *source* of the bytes, so renaming the local variable does not detach the rule."""
    return ('from', prefixes, kw.get('attr'))


def names_for(func, spec):
    """Resolve a buffer spec to the expression texts to analyse in `func` (a plain string is taken literally)."""
    if isinstance(spec, str):
        return [spec]
    kind = spec[0]
    if kind == 'param':
        args = [a.arg for a in func.node.args.posonlyargs + func.node.args.args]
        if args and args[0] in ('self', 'cls') and func.kind != 'staticmethod':
            args = args[1:]
        if spec[1] >= len(args):
            return []
        return [args[spec[1]] + ('.' + spec[2] if spec[2] else '')]
    if kind == 'from':
        out = []
        for st in walk_no_nested(func.node):
            if isinstance(st, ast.Assign) and len(st.targets) == 1 and isinstance(st.targets[0], ast.Name):
                v = norm(st.value)
                if any(v.startswith(pre + '(') for pre in spec[1]):
                    name = st.targets[0].id + ('.' + spec[2] if spec[2] else '')
                    if name not in out:
                        out.append(name)
        return out
    raise ValueError('bad buffer spec %r' % (spec,))


def spec_text(spec):
    if isinstance(spec, str):
        return spec
    if spec[0] == 'param':
        return 'parameter %d%s' % (spec[1], ('.' + spec[2]) if spec[2] else '')
    return 'value of %s(...)%s' % (' / '.join(spec[1]), ('.' + spec[2]) if spec[2] else '')


def _is(expr, var):
    return norm(expr) == var


def kill_nodes(cfg, var):
    base = var.split('.')[0].split('[')[0]
    out = []
    for n in cfg.nodes:
        a = n.ast
        if a is None or n.kind not in ('stmt', 'for', 'with', 'except'):
            continue
        if n.kind == 'for':
            tg = [a.target]
            if any(isinstance(x, ast.Name) and x.id == base for t in tg for x in ast.walk(t)):
                out.append(n)
            continue
        if isinstance(a, ast.AugAssign) and isinstance(a.op, ast.Add):
            continue        # appending never shrinks the buffer
        if isinstance(a, (ast.Assign, ast.AugAssign, ast.AnnAssign)):
            tg = a.targets if isinstance(a, ast.Assign) else [a.target]
            for t in tg:
                for x in ast.walk(t):
                    if (isinstance(x, ast.Name) and x.id == base and isinstance(x.ctx, ast.Store)) or norm(x) == var:
                        out.append(n)
        if isinstance(a, ast.Delete):
            for t in a.targets:
                if isinstance(t, ast.Subscript) and _is(t.value, var):
                    out.append(n)
        if isinstance(a, ast.stmt):
            for c in walk_no_nested(a):
                if isinstance(c, ast.Call) and isinstance(c.func, ast.Attribute) and _is(c.func.value, var) \
                        and c.func.attr in ('pop', 'clear', 'remove'):
                    out.append(n)
    # pops inside test nodes
    for e, t in cfg.test_nodes.items():
        for c in ast.walk(e):
            if isinstance(c, ast.Call) and isinstance(c.func, ast.Attribute) and _is(c.func.value, var) and c.func.attr == 'pop':
                out.append(t)
    return list(dict.fromkeys(out))


def extra_guards(cfg, var, prog=None, func=None):
    out = []
    for e, t in cfg.test_nodes.items():
        s = norm(e)
        if s == var:
            out.append(([(t, 'true')], 1))
        if isinstance(e, ast.Call) and isinstance(e.func, ast.Attribute) and e.func.attr == 'startswith' and _is(e.func.value, var) and e.args:
            c = try_const(e.args[0])
            n = len(c) if isinstance(c, (bytes, bytearray, str)) else None
            if n is None and prog is not None and func is not None and isinstance(e.args[0], ast.Attribute):
                # class level constant (cls.PDU_CODE / ATR_REQ.PDU_CODE): minimal length over the subclasses
                vals = []
                for ci in prog.classes.values():
                    if ci.module is func.module and e.args[0].attr in ci.attrs:
                        v = try_const(ci.attrs[e.args[0].attr])
                        if isinstance(v, (bytes, bytearray)):
                            vals.append(len(v))
                n = min(vals) if vals else None
            if n:
                out.append(([(t, 'true')], n))
        if isinstance(e, ast.Compare) and len(e.ops) == 1 and isinstance(e.ops[0], ast.Eq) and _is(e.left, var):
            c = try_const(e.comparators[0])
            if isinstance(c, (bytes, bytearray)):
                out.append(([(t, 'true')], len(c)))
        # len(v) == v[0]  /  v[0] == len(v): implies nothing about the minimum
    return out


def handled(node_ast, func, excs):
    prev = node_ast
    for a in ancestors(node_ast):
        if a is func.node:
            break
        if isinstance(a, ast.Try) and any(prev is s or any(prev is y for y in ast.walk(s)) for s in a.body):
            for h in a.handlers:
                if h.type is None:
                    return True
                names = [norm(x) for x in (h.type.elts if isinstance(h.type, ast.Tuple) else [h.type])]
                if any(n.split('.')[-1] in excs for n in names):
                    return True
        prev = a
    return False


def reads_of(func, var):
    """[(ast node of the read, needed length, what, exception names)]"""
    out = []
    for n in walk_no_nested(func.node):
        if isinstance(n, ast.Subscript) and _is(n.value, var) and isinstance(n.ctx, ast.Load):
            if isinstance(n.slice, ast.Slice):
                # fixed arity destructuring / struct.unpack of a slice
                par = getattr(n, '_parent', None)
                hi = try_const(n.slice.upper) if n.slice.upper is not None else None
                lo = try_const(n.slice.lower) if n.slice.lower is not None else 0
                if isinstance(par, ast.Call) and norm(par.func) in ('unpack', 'struct.unpack') and len(par.args) == 2 and par.args[1] is n:
                    fmt = try_const(par.args[0])
                    if isinstance(fmt, str) and isinstance(lo, int) and lo >= 0:
                        out.append((n, lo + struct.calcsize(fmt), norm(par), ('error', 'struct.error', 'Exception')))
                tup = _destructured(n)
                if tup is not None and isinstance(lo, int) and lo >= 0:
                    out.append((n, lo + tup, '%d-way unpack of %s' % (tup, norm(n)), ('ValueError', 'Exception')))
                continue
            k = try_const(n.slice)
            if isinstance(k, int) and not isinstance(k, bool):
                need = k + 1 if k >= 0 else -k
                out.append((n, need, norm(n), ('IndexError', 'LookupError', 'Exception')))
            elif isinstance(n.slice, ast.Name):
                # index held in a local: needs the relational guard len(var) > name (checked in check())
                out.append((n, ('rel', n.slice.id), norm(n), ('IndexError', 'LookupError', 'Exception')))
        elif isinstance(n, ast.Call) and isinstance(n.func, ast.Attribute) and _is(n.func.value, var) and n.func.attr == 'pop':
            out.append((n, 1, norm(n), ('IndexError', 'LookupError', 'Exception')))
        elif isinstance(n, ast.Call) and norm(n.func) in ('struct.unpack_from', 'unpack_from') and len(n.args) >= 2 and _is(n.args[1], var):
            fmt = try_const(n.args[0])
            off = try_const(n.args[2]) if len(n.args) > 2 else 0
            if isinstance(fmt, str) and isinstance(off, int):
                out.append((n, off + struct.calcsize(fmt), norm(n), ('error', 'struct.error', 'Exception')))
        elif isinstance(n, ast.Name) and norm(n) == var and isinstance(n.ctx, ast.Load):
            tup = _destructured(n)
            if tup is not None:
                out.append((n, tup, '%d-way unpack of %s' % (tup, var), ('ValueError', 'Exception')))
    return out


def _destructured(expr):
    """If expr is (an element of) the right hand side of a fixed-arity tuple assignment return the arity."""
    par = getattr(expr, '_parent', None)
    if isinstance(par, ast.Assign) and par.value is expr and len(par.targets) == 1 and isinstance(par.targets[0], (ast.Tuple, ast.List)) \
            and not any(isinstance(e, ast.Starred) for e in par.targets[0].elts):
        return len(par.targets[0].elts)
    if isinstance(par, ast.Tuple):
        gp = getattr(par, '_parent', None)
        if isinstance(gp, ast.Assign) and gp.value is par and len(gp.targets) == 1 and isinstance(gp.targets[0], ast.Tuple) \
                and len(gp.targets[0].elts) == len(par.elts):
            idx = [i for i, e in enumerate(par.elts) if e is expr][0]
            t = gp.targets[0].elts[idx]
            if isinstance(t, (ast.Tuple, ast.List)) and not any(isinstance(e, ast.Starred) for e in t.elts):
                return len(t.elts)
    return None


def ifexp_bound(node, var):
    """Bound established by an enclosing conditional expression `X if len(v) == n else Y` for a read inside X."""
    best = 0
    prev = node
    for a in ancestors(node):
        if isinstance(a, ast.IfExp) and any(prev is x for x in ast.walk(a.body)):
            t = a.test
            if isinstance(t, ast.Compare) and len(t.ops) == 1 and norm(t.left) == 'len(%s)' % var:
                n = try_const(t.comparators[0])
                if isinstance(n, int):
                    if isinstance(t.ops[0], (ast.Eq, ast.GtE)):
                        best = max(best, n)
                    elif isinstance(t.ops[0], ast.Gt):
                        best = max(best, n + 1)
            if norm(t) == var:
                best = max(best, 1)
        if isinstance(a, ast.BoolOp) and isinstance(a.op, ast.And):
            # `v and v[0] ...` / `len(v) >= n and v[k]`
            idx = [i for i, x in enumerate(a.values) if any(prev is y for y in ast.walk(x))]
            for x in a.values[:idx[0]] if idx else []:
                if norm(x) == var:
                    best = max(best, 1)
                if isinstance(x, ast.Compare) and len(x.ops) == 1 and norm(x.left) == 'len(%s)' % var:
                    n = try_const(x.comparators[0])
                    if isinstance(n, int) and isinstance(x.ops[0], (ast.Eq, ast.GtE)):
                        best = max(best, n)
                    elif isinstance(n, int) and isinstance(x.ops[0], ast.Gt):
                        best = max(best, n + 1)
        prev = a
    return best


def return_bound(prog, func):
    """Lower bound of len() of the buffer a function returns (min over its non-None returns); 0 if unknown."""
    cfg = cfg_of(func)
    bounds = []
    for n in cfg.nodes:
        if n.kind == 'stmt' and isinstance(n.ast, ast.Return) and n.ast.value is not None and not (isinstance(n.ast.value, ast.Constant) and n.ast.value.value is None):
            v = n.ast.value
            if isinstance(v, ast.Call) and norm(v.func) in ('bytearray', 'bytes') and len(v.args) == 1:
                v = v.args[0]
            if not isinstance(v, (ast.Name, ast.Attribute)):
                return 0
            var = norm(v)
            bounds.append(lower_bound_at(cfg, 'len(%s)' % var, n, extra_guards=extra_guards(cfg, var, prog, func),
                                         kills=kill_nodes(cfg, var)) or 0)
    return min(bounds) if bounds else 0


def pad_to(value, var):
    """`v += (N - len(v)) * b"\\0"`: pads v to at least N byte (a negative count multiplies to the empty string)."""
    from .q import match
    b = match(value, '($N - len($V)) * $B')
    if b is not None and norm(b['V']) == var:
        n, fill = try_const(b['N']), try_const(b['B'])
        if isinstance(n, int) and isinstance(fill, (bytes, bytearray)) and len(fill) == 1:
            return n
    return None


def source_bound(sources, text):
    """Bound guaranteed for the value of an assignment: exact text key, or a key 're:<regex>' matching the whole text."""
    import re
    if text in sources:
        return sources[text]
    for k, v in sources.items():
        if k.startswith('re:') and re.fullmatch(k[3:], text):
            return v
    return 0


INF = 10 ** 9


def maxlen_states(cfg, var, base=INF):
    """Forward dataflow: proven upper bound of len(var) on entry of every CFG node (join = maximum)."""
    ub_edges = {}
    for expr, tn in cfg.test_nodes.items():
        if not isinstance(expr, ast.Compare) or len(expr.ops) != 1:
            continue
        l, r, op = expr.left, expr.comparators[0], type(expr.ops[0])
        if norm(l) != 'len(%s)' % var:
            continue
        if op in (ast.In, ast.NotIn) and isinstance(r, (ast.Tuple, ast.List, ast.Set)):
            vals = [try_const(e) for e in r.elts]
            if vals and all(isinstance(v, int) for v in vals):
                ub_edges[(tn, 'true' if op is ast.In else 'false')] = max(vals)
            continue
        n = try_const(r)
        if not isinstance(n, int) or isinstance(n, bool):
            continue
        if op is ast.Eq:
            ub_edges[(tn, 'true')] = n
        elif op is ast.NotEq:
            ub_edges[(tn, 'false')] = n
        elif op is ast.Gt:
            ub_edges[(tn, 'false')] = n
        elif op is ast.GtE:
            ub_edges[(tn, 'false')] = n - 1
        elif op is ast.Lt:
            ub_edges[(tn, 'true')] = n - 1
        elif op is ast.LtE:
            ub_edges[(tn, 'true')] = n
    base_name = var.split('.')[0].split('[')[0]
    sets = {}
    for n in cfg.nodes:
        a = n.ast
        if a is None:
            continue
        if n.kind == 'stmt' and isinstance(a, (ast.Assign, ast.AnnAssign)):
            tg = a.targets if isinstance(a, ast.Assign) else [a.target]
            for t in tg:
                for x in ast.walk(t):
                    if (isinstance(x, ast.Name) and x.id == base_name and isinstance(x.ctx, ast.Store)) or (norm(x) == var and isinstance(getattr(x, 'ctx', None), ast.Store)):
                        ub = INF
                        v = getattr(a, 'value', None)
                        if norm(t) == var and isinstance(v, ast.Subscript) and isinstance(v.slice, ast.Slice):
                            lo = try_const(v.slice.lower) if v.slice.lower is not None else 0
                            hi = try_const(v.slice.upper) if v.slice.upper is not None else None
                            if isinstance(lo, int) and isinstance(hi, int) and 0 <= lo <= hi:
                                ub = hi - lo
                        sets[n] = ub
        if n.kind == 'stmt' and isinstance(a, ast.AugAssign) and any(norm(x) == var or (isinstance(x, ast.Name) and x.id == base_name) for x in ast.walk(a.target)):
            k = pad_to(a.value, var) if isinstance(a.op, ast.Add) and norm(a.target) == var else None
            sets[n] = ('pad', k) if k is not None else INF
        if n.kind == 'for' and any(isinstance(x, ast.Name) and x.id == base_name for x in ast.walk(a.target)):
            sets[n] = INF
        if n.kind in ('stmt', 'test'):
            for c in walk_no_nested(a):
                if isinstance(c, ast.Call) and isinstance(c.func, ast.Attribute) and _is(c.func.value, var) and c.func.attr in ('append', 'extend', 'insert'):
                    sets[n] = INF
    state = {cfg.entry: base}
    work = [cfg.entry]
    while work:
        n = work.pop()
        out = state[n]
        if n in sets:
            sv = sets[n]
            out = max(out, sv[1]) if isinstance(sv, tuple) else sv
        for m, lab in n.succ:
            v = min(out, ub_edges.get((n, lab), INF))
            old = state.get(m)
            new = v if old is None else max(old, v)
            if old is None or new > old:
                state[m] = new
                work.append(m)
    return state


def exact_unpacks(func, var):
    """Whole-buffer `unpack(<format>, var)`: needs len(var) == calcsize(format).  A format that is not a constant is returned
    as ('expr', <format expression>) and decided by case analysis in check()."""
    out = []
    for n in walk_no_nested(func.node):
        if isinstance(n, ast.Call) and norm(n.func) in ('unpack', 'struct.unpack') and len(n.args) == 2 and _is(n.args[1], var):
            fmt = try_const(n.args[0])
            if isinstance(fmt, str):
                try:
                    out.append((n, struct.calcsize(fmt), norm(n)))
                except struct.error:
                    pass
            else:
                out.append((n, ('expr', n.args[0]), norm(n)))
    return out


def _format_cases(func, cfg, node, fmt_expr, var):
    """unpack(fmt, var) with a computed format: find the guard `(x, len(var)) in ((a, n), (b, m), ...)` that every path to the
    call passes, evaluate the format for each admitted value of x and compare its size with the admitted length.
    Returns (ok, explanation)."""
    # the format expression: a name bound exactly once in the function
    expr = fmt_expr
    if isinstance(expr, ast.Name):
        defs = [s for s in walk_no_nested(func.node) if isinstance(s, ast.Assign) and len(s.targets) == 1 and norm(s.targets[0]) == expr.id]
        if len(defs) != 1:
            return False, 'format %s is not bound exactly once' % expr.id
        expr = defs[0].value
    target = cfg_node_for(cfg, node)
    for e, tn in cfg.test_nodes.items():
        if not (isinstance(e, ast.Compare) and len(e.ops) == 1 and isinstance(e.ops[0], (ast.In, ast.NotIn)) and isinstance(e.left, ast.Tuple) and len(e.left.elts) == 2):
            continue
        x, ln = e.left.elts
        if norm(ln) != 'len(%s)' % var or not isinstance(x, ast.Name):
            continue
        cases = try_const(e.comparators[0])
        if not (isinstance(cases, (tuple, list)) and cases and all(isinstance(c, (tuple, list)) and len(c) == 2 for c in cases)):
            continue
        label = 'true' if isinstance(e.ops[0], ast.In) else 'false'
        # a `not (...)` wrapper is resolved by the CFG: the call must be unreachable without the passing edge
        passing = [(tn, label)]
        if target in cfg.reachable(cfg.entry, avoid_edges=passing):
            passing = [(tn, 'false' if label == 'true' else 'true')]
            if target in cfg.reachable(cfg.entry, avoid_edges=passing):
                continue
            # reached through the other edge only: `not (pair in cases)` evaluated as a whole -- the test node holds the inner
            # comparison, so the edge labels are those of the inner expression; nothing admitted on this edge
            continue
        bad = []
        for xv, lv in cases:
            f = try_const(expr, {x.id: xv})
            if not isinstance(f, str):
                return False, 'format not evaluable for %s == %r' % (x.id, xv)
            try:
                if struct.calcsize(f) != lv:
                    bad.append('%s == %r: format %r needs %d byte, guard admits %d' % (x.id, xv, f, struct.calcsize(f), lv))
            except struct.error:
                bad.append('bad format %r' % f)
        return (not bad), ('; '.join(bad) if bad else 'cases %r' % (cases,))
    # second idiom: the format is selected by len(var) itself and a guard admits a finite set of lengths
    lt = 'len(%s)' % var
    for e, tn in cfg.test_nodes.items():
        if not (isinstance(e, ast.Compare) and len(e.ops) == 1 and isinstance(e.ops[0], (ast.In, ast.NotIn)) and norm(e.left) == lt):
            continue
        vals = try_const(e.comparators[0])
        if not (isinstance(vals, (tuple, list)) and vals and all(isinstance(v, int) for v in vals)):
            continue
        label = 'true' if isinstance(e.ops[0], ast.In) else 'false'
        if target in cfg.reachable(cfg.entry, avoid_edges=[(tn, label)]):
            continue
        bad = []
        for lv in vals:
            f = try_const(expr, {lt: lv})
            if not isinstance(f, str):
                return False, 'format not evaluable for %s == %d' % (lt, lv)
            try:
                if struct.calcsize(f) != lv:
                    bad.append('%s == %d: format %r needs %d byte' % (lt, lv, f, struct.calcsize(f)))
            except struct.error:
                bad.append('bad format %r' % f)
        return (not bad), ('; '.join(bad) if bad else 'lengths %r' % (tuple(vals),))
    return False, 'no guard relates len(%s) to the value that selects the format' % var


def minlen_states(cfg, var, extra, sources=None, base=0):
    """Forward dataflow: proven lower bound of len(var) on entry of every CFG node (E4 core).  Guards raise the bound on
    their passing edge, pop() lowers it by one, `del v[a:b]` by the constant width, re-binding resets it (or sets the bound
    the assigned source guarantees); join = minimum."""
    from .q import var_facts
    guards = {}
    for edges, n in list(var_facts(cfg, 'len(%s)' % var)) + list(extra):
        if isinstance(n, int):
            for node, lab in edges:
                guards.setdefault((node, lab), 0)
                guards[(node, lab)] = max(guards[(node, lab)], n)
    base_name = var.split('.')[0].split('[')[0]
    pops = {}
    dels = {}
    rebinds = {}
    pads = {}
    for n in cfg.nodes:
        a = n.ast
        if a is None:
            continue
        if n.kind in ('stmt', 'test'):
            for c in walk_no_nested(a):
                if isinstance(c, ast.Call) and isinstance(c.func, ast.Attribute) and _is(c.func.value, var):
                    if c.func.attr == 'pop':
                        pops[n] = pops.get(n, 0) + 1
                    elif c.func.attr in ('clear', 'remove'):
                        rebinds[n] = 0
        if n.kind == 'stmt' and isinstance(a, ast.Delete):
            for t in a.targets:
                if isinstance(t, ast.Subscript) and _is(t.value, var):
                    w = None
                    if isinstance(t.slice, ast.Slice):
                        lo = try_const(t.slice.lower) if t.slice.lower is not None else 0
                        hi = try_const(t.slice.upper) if t.slice.upper is not None else None
                        if isinstance(lo, int) and isinstance(hi, int) and 0 <= lo <= hi:
                            w = hi - lo
                    elif isinstance(try_const(t.slice), int):
                        w = 1
                    if w is None:
                        rebinds[n] = 0
                    else:
                        dels[n] = dels.get(n, 0) + w
        if n.kind == 'stmt' and isinstance(a, (ast.Assign, ast.AnnAssign)):
            tg = a.targets if isinstance(a, ast.Assign) else [a.target]
            for t in tg:
                for x in ast.walk(t):
                    if (isinstance(x, ast.Name) and x.id == base_name and isinstance(x.ctx, ast.Store) and not isinstance(getattr(x, '_parent', None), ast.Subscript)) \
                            or (norm(x) == var and isinstance(getattr(x, 'ctx', None), ast.Store)):
                        b = 0
                        if sources and isinstance(a, ast.Assign) and norm(t) == var:
                            b = source_bound(sources, norm(a.value))
                            v_ = a.value
                            if not b and isinstance(v_, ast.Subscript) and isinstance(v_.slice, ast.Slice):
                                # a constant slice of a value with a proven length
                                lo = try_const(v_.slice.lower) if v_.slice.lower is not None else 0
                                hi = try_const(v_.slice.upper) if v_.slice.upper is not None else None
                                inner = source_bound(sources, norm(v_.value))
                                if isinstance(lo, int) and lo >= 0 and inner:
                                    b = max(0, (min(hi, inner) if isinstance(hi, int) and hi >= 0 else inner) - lo)
                        rebinds[n] = b
        if n.kind == 'stmt' and isinstance(a, ast.AugAssign) and not isinstance(a.op, ast.Add):
            if any(norm(x) == var or (isinstance(x, ast.Name) and x.id == base_name) for x in ast.walk(a.target)):
                rebinds[n] = 0
        if n.kind == 'stmt' and isinstance(a, ast.AugAssign) and isinstance(a.op, ast.Add) and norm(a.target) == var:
            k = pad_to(a.value, var)
            if k is not None:
                pads[n] = k
        if n.kind == 'for' and any(isinstance(x, ast.Name) and x.id == base_name for x in ast.walk(a.target)):
            rebinds[n] = 0
    # path sensitivity for boolean flags that never change inside the function (`check_status and len(rsp) < 12` followed by
    # `check_status and rsp[10]`): one run per valuation of at most three such flags, prune the contradicting branch edges
    stored = set()
    for n in cfg.nodes:
        if n.ast is not None:
            for x in ast.walk(n.ast):
                if isinstance(x, ast.Name) and isinstance(x.ctx, (ast.Store, ast.Del)):
                    stored.add(x.id)
    flag_tests = {}
    for expr, tn in cfg.test_nodes.items():
        neg = False
        e = expr
        if isinstance(e, ast.UnaryOp) and isinstance(e.op, ast.Not):
            neg, e = True, e.operand
        if isinstance(e, ast.Name) and e.id not in stored and e.id != base_name:
            flag_tests.setdefault(e.id, []).append((tn, neg))
    flags = sorted(f for f, lst in flag_tests.items() if len(lst) >= 2)[:3]
    merged = {}
    for bits in range(1 << len(flags)):
        pruned = set()
        for i, f in enumerate(flags):
            val = bool(bits >> i & 1)
            for tn, neg in flag_tests[f]:
                truth = (not val) if neg else val
                pruned.add((tn, 'false' if truth else 'true'))
        state = {cfg.entry: base}
        work = [cfg.entry]
        while work:
            n = work.pop()
            cur = state[n]
            out = cur
            if n in rebinds:
                out = rebinds[n]
            out = max(0, out - pops.get(n, 0) - dels.get(n, 0))
            if n in pads:
                out = max(out, pads[n])
            for m, lab in n.succ:
                if (n, lab) in pruned:
                    continue
                v = out
                if (n, lab) in guards:
                    # the guard was evaluated on the value before pops in the same node only if it is a pure test
                    v = max(v, guards[(n, lab)] - pops.get(n, 0))
                old = state.get(m)
                new = v if old is None else min(old, v)
                if old is None or new < old:
                    state[m] = new
                    work.append(m)
        for n, v in state.items():
            merged[n] = v if n not in merged else min(merged[n], v)
    state = merged
    return state, pops


def check(report, prog, func, var, rule, what_source, base=0, sources=None, collect=None):
    """Emit one obligation per read of `var` in func.  `base` is a length guaranteed by every caller (verified by the
    rule that passes it); `sources` maps the text of an assignment value to the bound its callee guarantees.
    Returns the number of reads."""
    from .core import key
    cfg = cfg_of(func)
    kills = kill_nodes(cfg, var)
    extra = extra_guards(cfg, var, prog, func)
    states, pops = minlen_states(cfg, var, extra, sources, base)
    rs = reads_of(func, var)
    texts = [w for _, _, w, _ in rs]
    rs = [(node, need, (what if texts.count(what) == 1 else '%s in `%s`' % (what, head(enclosing_stmt(node)).rstrip(':'))), excs)
          for node, need, what, excs in rs]
    for node, need, what, excs in rs:
        k = key(func.qname, '%s is long enough for' % var, what)
        if handled(node, func, excs):
            report.ok(rule, k, func.loc(node), detail='inside a handler for %s' % excs[0])
            continue
        target = cfg_node_for(cfg, node)
        if isinstance(need, tuple):
            # v[k] with k a local name: a test `len(v) > k` / `k < len(v)` must hold on every path, k (and v) unchanged since
            kname = need[1]
            tests_ = [(tn, 'true') for e, tn in cfg.test_nodes.items() if norm(e) in ('len(%s) > %s' % (var, kname), '%s < len(%s)' % (kname, var))] + \
                     [(tn, 'false') for e, tn in cfg.test_nodes.items() if norm(e) in ('len(%s) <= %s' % (var, kname), '%s >= len(%s)' % (kname, var))]
            from .q import assign_nodes
            okk = bool(tests_) and target not in cfg.reachable(cfg.entry, avoid_edges=tests_)
            if okk:
                for a_ in list(assign_nodes(cfg, kname)) + list(kills):
                    if a_ in cfg.reachable() and any(target in cfg.reachable(a_, avoid_edges=tests_) for _ in [0]) and a_ is not target:
                        okk = False
            loop_idx = any(isinstance(a, (ast.For, ast.comprehension)) and any(isinstance(x, ast.Name) and x.id == kname for x in ast.walk(a.target))
                           and 'len(%s)' % var in norm(a.iter) for a in ancestors(node))
            okk = okk or loop_idx
            exc = excs[0]
            msg = '`%s` needs len(%s) > %s but no such test holds on every path: a short %s raises %s' % (what, var, kname, what_source, exc)
            k2 = key(func.qname, '%s is long enough for' % var, what)
            if collect is not None:
                if okk:
                    report.ok(rule, k2, func.loc(node), detail='relational guard')
                else:
                    collect.setdefault(func.qname, []).append((node, exc, '%s [%s]' % (what, msg)))
                continue
            report.check(okk, rule, k2, func.loc(node), '%s: %s' % (func.qname, msg))
            continue
        have = states.get(target)
        if have is None:
            have = 0        # unreachable in the CFG: be conservative
        if '.pop(0)' in what or '.pop()' in what:
            need = max(need, pops.get(target, 1))      # the k-th pop in one statement needs k elements
        have = max(have, ifexp_bound(node, var))
        # a pop in the same node executed before this read shifts nothing we can use: be exact for the single-read case only
        exc = {'error': 'struct.error'}.get(excs[0], excs[0])
        msg = '`%s` needs len(%s) >= %d but only >= %d is established on every path (%s): a short %s raises %s' % (
            what, var, need, have, 'no length guard dominates the read' if have == 0 else 'guard too weak', what_source, exc)
        if collect is not None:
            if have >= need:
                report.ok(rule, k, func.loc(node), detail='need %d have %d' % (need, have))
            else:
                collect.setdefault(func.qname, []).append((node, exc, '%s [%s]' % (what, msg)))
            continue
        report.check(have >= need, rule, k, func.loc(node), '%s: %s' % (func.qname, msg), detail='need %d have %d' % (need, have))
    ex = exact_unpacks(func, var)
    if ex:
        ups = maxlen_states(cfg, var)
    for node, size, what in ex:
        k = key(func.qname, '%s has exactly the length of the format in' % var, what)
        if handled(node, func, ('error', 'struct.error', 'Exception')):
            report.ok(rule, k, func.loc(node), detail='inside a handler for struct.error')
            continue
        target = cfg_node_for(cfg, node)
        if isinstance(size, tuple):
            okk, why = _format_cases(func, cfg, node, size[1], var)
            msg = '`%s`: the length of %s is not tied to the computed format on every path (%s): %s of another length raises struct.error' % (what, var, why, what_source)
        else:
            lo = states.get(target) or 0
            hi = ups.get(target, INF)
            okk = lo >= size and hi <= size
            msg = '`%s` needs len(%s) == %d but only %d <= len <= %s is established on every path: %s of another length raises struct.error' % (
                what, var, size, lo, 'unbounded' if hi >= INF else hi, what_source)
        if collect is not None:
            if okk:
                report.ok(rule, k, func.loc(node), detail='len == %s' % (size if not isinstance(size, tuple) else 'format size (case analysis)'))
            else:
                collect.setdefault(func.qname, []).append((node, 'struct.error', '%s [%s]' % (what, msg)))
            continue
        report.check(okk, rule, k, func.loc(node), '%s: %s' % (func.qname, msg))
    return len(rs) + len(ex)


def check_none(report, prog, func, var, rule, what_source, collect=None):
    """Engler contradiction rule: the function tests `var` for None / truthiness somewhere, and dereferences it (len(), subscript)
    on a path where that test was not passed."""
    from .core import key
    cfg = cfg_of(func)
    tests_ = [(t, 'true') for e, t in cfg.test_nodes.items() if norm(e) == var] + \
             [(t, 'false') for e, t in cfg.test_nodes.items() if norm(e) in ('%s is None' % var,)] + \
             [(t, 'true') for e, t in cfg.test_nodes.items() if norm(e) in ('%s is not None' % var,)]
    believes = bool(tests_) or any(isinstance(x, ast.IfExp) and norm(x.test) == var for x in ast.walk(func.node))
    if not believes:
        return 0
    n = 0
    for c in walk_no_nested(func.node):
        deref = None
        if isinstance(c, ast.Call) and norm(c.func) == 'len' and c.args and norm(c.args[0]) == var:
            deref = c
        elif isinstance(c, ast.Subscript) and norm(c.value) == var and isinstance(c.ctx, ast.Load):
            deref = c
        if deref is None:
            continue
        # inside the guarded arm of a conditional expression?
        if any(isinstance(a, ast.IfExp) and norm(a.test) == var and any(x is deref for x in ast.walk(a.body)) for a in ancestors(deref)):
            continue
        n += 1
        target = cfg_node_for(cfg, deref)
        reach = cfg.reachable(cfg.entry, avoid_edges=tests_)
        okk = target not in reach and bool(tests_)
        if collect is not None and not okk:
            collect.setdefault(func.qname, []).append((deref, 'TypeError', '%s with %s None [%s tests `%s` for None/emptiness elsewhere; %s]'
                                                      % (norm(deref), var, func.qname, var, what_source)))
            break
        report.check(okk, rule, key(func.qname, '%s is not None when dereferenced' % var, deref), func.loc(deref),
                     '%s tests `%s` for None/emptiness in one place but evaluates `%s` unconditionally: %s None raises TypeError'
                     % (func.qname, var, norm(deref), what_source))
        break       # one obligation per function/variable is enough
    return n
