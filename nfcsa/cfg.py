# -*- coding: utf-8 -*-
"""E2 -- statement-level control-flow graph with split short-circuit conditions,
dominators and reachability-with-removal queries.

Node kinds
  entry, exit (normal), raise (exceptional exit), stmt, test, for, with,
  withexit, except, finally, join
Edge labels
  next, true, false, body (for: next item), done (for: exhausted), exc,
  back (loop back edge), brk, cont, ret
"""
import ast

from .model import norm, head


class Node(object):
    __slots__ = ('id', 'kind', 'ast', 'succ', 'pred', 'owner', 'negated')

    def __init__(self, id, kind, node=None, owner=None):
        self.id = id
        self.kind = kind
        self.ast = node
        self.succ = []      # (Node, label)
        self.pred = []      # (Node, label)
        self.owner = owner  # the compound statement a test/for/with node belongs to
        self.negated = False

    @property
    def lineno(self):
        return getattr(self.ast, 'lineno', 0)

    def text(self):
        if self.ast is None:
            return '<%s>' % self.kind
        if self.kind == 'test':
            return 'test %s' % norm(self.ast)
        return head(self.ast)

    def __repr__(self):
        return '<N%d %s %s L%d>' % (self.id, self.kind, self.text()[:50], self.lineno)


class CFG(object):
    def __init__(self, funcnode, may_raise=None):
        self.func = funcnode
        self.nodes = []
        self.may_raise = may_raise or _default_may_raise
        self.entry = self._new('entry')
        self.exit = self._new('exit')
        self.raise_exit = self._new('raise')
        self.stmt_node = {}     # ast stmt -> first Node of it
        self.test_nodes = {}    # ast expr (atomic condition) -> Node
        self._loops = []        # stack of (head, after, finally_depth)
        self._handlers = []     # stack of lists of handler-entry nodes / finally entries
        self._finallies = []    # stack of (finally_entry, state)
        ends = self._body(funcnode.body, [(self.entry, 'next')])
        for n, l in ends:
            self._edge(n, self.exit, l)
        self._dom = None

    # ---------------------------------------------------------------- building
    def _new(self, kind, node=None, owner=None):
        n = Node(len(self.nodes), kind, node, owner)
        self.nodes.append(n)
        return n

    def _edge(self, a, b, label='next'):
        if (b, label) not in a.succ:
            a.succ.append((b, label))
            b.pred.append((a, label))

    def _connect(self, ins, node):
        for n, l in ins:
            self._edge(n, node, l)

    def _exc_targets(self):
        """Where an exception raised here may go (conservative)."""
        out = []
        for level in reversed(self._handlers):
            out.extend(level['entries'])
            if level['catch_all']:
                return out
        out.append(self.raise_exit)
        return out

    def _add_exc(self, node):
        for t in self._exc_targets():
            self._edge(node, t, 'exc')

    def _body(self, stmts, ins):
        for st in stmts:
            ins = self._stmt(st, ins)
        return ins

    def _cond(self, expr, ins, owner):
        """Build test nodes for a condition.  Returns (true_outs, false_outs)."""
        if isinstance(expr, ast.BoolOp):
            if isinstance(expr.op, ast.And):
                falses = []
                cur = ins
                for v in expr.values:
                    t, f = self._cond(v, cur, owner)
                    falses.extend(f)
                    cur = t
                return cur, falses
            else:
                trues = []
                cur = ins
                for v in expr.values:
                    t, f = self._cond(v, cur, owner)
                    trues.extend(t)
                    cur = f
                return trues, cur
        if isinstance(expr, ast.UnaryOp) and isinstance(expr.op, ast.Not):
            t, f = self._cond(expr.operand, ins, owner)
            return f, t
        n = self._new('test', expr, owner)
        self.test_nodes[expr] = n
        self._connect(ins, n)
        if self.may_raise(expr):
            self._add_exc(n)
        if isinstance(expr, ast.Constant):
            if expr.value:
                return [(n, 'true')], []
            return [], [(n, 'false')]
        return [(n, 'true')], [(n, 'false')]

    def _stmt(self, st, ins):
        if isinstance(st, ast.If):
            first = len(self.nodes)
            t, f = self._cond(st.test, ins, st)
            self.stmt_node[st] = self.nodes[first]
            outs = self._body(st.body, t)
            outs2 = self._body(st.orelse, f) if st.orelse else f
            return outs + outs2
        if isinstance(st, ast.While):
            headn = self._new('join', st, st)
            self.stmt_node[st] = headn
            self._connect(ins, headn)
            t, f = self._cond(st.test, [(headn, 'next')], st)
            after = self._new('join', None, st)
            self._loops.append((headn, after, len(self._finallies)))
            outs = self._body(st.body, t)
            self._loops.pop()
            for n, l in outs:
                self._edge(n, headn, 'back' if l == 'next' else l)
            outs2 = self._body(st.orelse, f) if st.orelse else f
            self._connect(outs2, after)
            if not after.pred:
                return []
            return [(after, 'next')]
        if isinstance(st, (ast.For, ast.AsyncFor)):
            it = self._new('stmt', st.iter, st)     # evaluation of the iterable
            self.stmt_node[st] = it
            self._connect(ins, it)
            if self.may_raise(st.iter):
                self._add_exc(it)
            headn = self._new('for', st, st)
            self._edge(it, headn, 'next')
            after = self._new('join', None, st)
            self._loops.append((headn, after, len(self._finallies)))
            outs = self._body(st.body, [(headn, 'body')])
            self._loops.pop()
            for n, l in outs:
                self._edge(n, headn, 'back' if l == 'next' else l)
            # `for i in itertools.count(...)` never runs out: the loop is left by break / return / raise only
            endless = isinstance(st.iter, ast.Call) and norm(st.iter.func) in ('itertools.count', 'count') and not st.orelse
            f = [] if endless else [(headn, 'done')]
            outs2 = self._body(st.orelse, f) if st.orelse else f
            self._connect(outs2, after)
            if not after.pred:
                return []
            return [(after, 'next')]
        if isinstance(st, (ast.With, ast.AsyncWith)):
            w = self._new('with', st, st)
            self.stmt_node[st] = w
            self._connect(ins, w)
            self._add_exc(w)
            outs = self._body(st.body, [(w, 'next')])
            wx = self._new('withexit', st, st)
            self._connect(outs, wx)
            if not wx.pred:
                return []
            return [(wx, 'next')]
        if isinstance(st, ast.Try):
            return self._try(st, ins)
        if isinstance(st, ast.Return):
            n = self._new('stmt', st)
            self.stmt_node[st] = n
            self._connect(ins, n)
            if st.value is not None and self.may_raise(st.value):
                self._add_exc(n)
            self._jump(n, self.exit, 'ret', 0)
            return []
        if isinstance(st, ast.Raise):
            n = self._new('stmt', st)
            self.stmt_node[st] = n
            self._connect(ins, n)
            self._add_exc(n)
            return []
        if isinstance(st, ast.Break):
            n = self._new('stmt', st)
            self.stmt_node[st] = n
            self._connect(ins, n)
            headn, after, fd = self._loops[-1]
            self._jump(n, after, 'brk', fd)
            return []
        if isinstance(st, ast.Continue):
            n = self._new('stmt', st)
            self.stmt_node[st] = n
            self._connect(ins, n)
            headn, after, fd = self._loops[-1]
            self._jump(n, headn, 'cont', fd)
            return []
        if isinstance(st, ast.Assert):
            first = len(self.nodes)
            t, f = self._cond(st.test, ins, st)
            self.stmt_node[st] = self.nodes[first]
            if f:
                fail = self._new('stmt', st)     # the raise of AssertionError
                fail.kind = 'assertfail'
                self._connect(f, fail)
                self._add_exc(fail)
            return t
        # simple statement (incl. nested def/class, which only bind a name)
        n = self._new('stmt', st)
        self.stmt_node[st] = n
        self._connect(ins, n)
        if not isinstance(st, (ast.FunctionDef, ast.ClassDef, ast.Pass, ast.Global, ast.Nonlocal,
                               ast.Import, ast.ImportFrom)) and self.may_raise(st):
            self._add_exc(n)
        return [(n, 'next')]

    def _jump(self, n, target, label, finally_depth):
        """return/break/continue: pass through enclosing finally blocks first."""
        pend = self._finallies[finally_depth:]
        if pend:
            fin = pend[-1]
            self._edge(n, fin['entry'], label)
            fin['jumps'].append((target, label, finally_depth, len(self._finallies) - 1))
        else:
            self._edge(n, target, label)

    def _try(self, st, ins):
        tnode = self._new('join', st, st)
        self.stmt_node[st] = tnode
        self._connect(ins, tnode)
        fin = None
        if st.finalbody:
            fin = {'entry': self._new('finally', st, st), 'jumps': []}
        handler_entries = []
        catch_all = False
        for h in st.handlers:
            hn = self._new('except', h, st)
            handler_entries.append(hn)
            if h.type is None or (isinstance(h.type, ast.Name) and h.type.id in ('BaseException',)):
                catch_all = True
        # try body: exceptions go to handlers (+ finally)
        if fin is not None:
            self._finallies.append(fin)
            self._handlers.append({'entries': [fin['entry']], 'catch_all': True})
        self._handlers.append({'entries': handler_entries, 'catch_all': catch_all})
        outs = self._body(st.body, [(tnode, 'next')])
        self._handlers.pop()
        # else + handlers: exceptions go to finally / outer
        if st.orelse:
            outs = self._body(st.orelse, outs)
        for h, hn in zip(st.handlers, handler_entries):
            outs = outs + self._body(h.body, [(hn, 'next')])
        if fin is not None:
            self._handlers.pop()
            self._finallies.pop()
            self._connect(outs, fin['entry'])
            fouts = self._body(st.finalbody, [(fin['entry'], 'next')])
            # after the finally: continue normally, re-raise, or complete pending jumps
            for t in self._exc_targets():
                for n, l in fouts:
                    self._edge(n, t, 'exc')
            for target, label, fd, idx in fin['jumps']:
                for n, l in fouts:
                    outer = self._finallies[fd:]
                    if outer:
                        self._edge(n, outer[-1]['entry'], label)
                        outer[-1]['jumps'].append((target, label, fd, 0))
                    else:
                        self._edge(n, target, label)
            return fouts
        return outs

    # ---------------------------------------------------------------- queries
    def node_of(self, stmt):
        return self.stmt_node.get(stmt)

    def nodes_in(self, astnode):
        """All CFG nodes whose ast lies inside `astnode` (by identity walk)."""
        inside = set(id(x) for x in ast.walk(astnode))
        return [n for n in self.nodes if (n.ast is not None and id(n.ast) in inside)
                or (n.ast is None and n.owner is not None and id(n.owner) in inside and n.owner is not astnode)]

    def reachable(self, src=None, avoid_nodes=(), avoid_edges=(), labels_excluded=()):
        """Set of nodes reachable from src (default entry) without entering avoid_nodes and
        without using avoid_edges ((node, label) or (node, label, dst))."""
        src = src or self.entry
        avoid_nodes = set(avoid_nodes)
        avoid_edges = set(avoid_edges)
        seen = set()
        if src in avoid_nodes:
            return seen
        stack = [src]
        seen.add(src)
        while stack:
            n = stack.pop()
            for m, l in n.succ:
                if l in labels_excluded:
                    continue
                if (n, l) in avoid_edges or (n, l, m) in avoid_edges:
                    continue
                if m in avoid_nodes or m in seen:
                    continue
                seen.add(m)
                stack.append(m)
        return seen

    def path(self, src, dst, avoid_nodes=(), avoid_edges=(), labels_excluded=()):
        """One witness path src -> dst (list of nodes) or None."""
        avoid_nodes = set(avoid_nodes)
        avoid_edges = set(avoid_edges)
        prev = {src: None}
        queue = [src]
        while queue:
            n = queue.pop(0)
            if n is dst:
                out = []
                while n is not None:
                    out.append(n)
                    n = prev[n]
                return list(reversed(out))
            for m, l in n.succ:
                if l in labels_excluded or (n, l) in avoid_edges or (n, l, m) in avoid_edges:
                    continue
                if m in avoid_nodes or m in prev:
                    continue
                prev[m] = n
                queue.append(m)
        return None

    # ---------------------------------------------------------------- path-sensitive reachability
    def tracker(self):
        if getattr(self, '_tracker', None) is None:
            self._tracker = Tracker(self)
        return self._tracker

    def reachable_ps(self, src=None, avoid_nodes=(), avoid_edges=(), labels_excluded=(), init=None):
        """Like reachable() but correlated branches are respected: two tests with the same text over
        never-reassigned operands take the same outcome on one path, and flag variables assigned
        None/False/constructor results decide a later `if flag:`.  Returns the set of nodes."""
        tr = self.tracker()
        src = src or self.entry
        avoid_nodes = set(avoid_nodes)
        avoid_edges = set(avoid_edges)
        start = (src, frozenset((init or {}).items()))
        if src in avoid_nodes:
            return set()
        seen = {start}
        stack = [start]
        nodes = {src}
        while stack:
            n, dec = stack.pop()
            d = dict(dec)
            eff = tr.effect(n)
            if eff:
                for k, v in eff.items():
                    if v is None:
                        d.pop(k, None)
                    else:
                        d[k] = v
            tk = tr.test_key(n)
            for m, l in n.succ:
                if l in labels_excluded or (n, l) in avoid_edges or (n, l, m) in avoid_edges or m in avoid_nodes:
                    continue
                d2 = d
                if tk is not None and l in ('true', 'false'):
                    key, positive = tk
                    want = (l == 'true') if positive else (l == 'false')
                    if key in d:
                        if d[key] != want:
                            continue
                    else:
                        d2 = dict(d)
                        d2[key] = want
                st = (m, frozenset(d2.items()))
                if st in seen:
                    continue
                if len(seen) > 200000:
                    raise RuntimeError('reachable_ps: state explosion')
                seen.add(st)
                nodes.add(m)
                stack.append(st)
        return nodes

    def dominators(self):
        if self._dom is not None:
            return self._dom
        reach = self.reachable()
        nodes = [n for n in self.nodes if n in reach]
        allset = set(nodes)
        dom = {n: set(allset) for n in nodes}
        dom[self.entry] = {self.entry}
        changed = True
        while changed:
            changed = False
            for n in nodes:
                if n is self.entry:
                    continue
                preds = [p for p, l in n.pred if p in reach]
                if preds:
                    new = set.intersection(*[dom[p] for p in preds])
                else:
                    new = set()
                new = new | {n}
                if new != dom[n]:
                    dom[n] = new
                    changed = True
        self._dom = dom
        return dom

    def dominates(self, a, b):
        return a in self.dominators().get(b, ())

    def fmt_path(self, path, limit=12):
        items = ['L%d %s' % (n.lineno, n.text()[:60]) for n in path if n.ast is not None]
        if len(items) > limit:
            items = items[:limit // 2] + ['...'] + items[-limit // 2:]
        return ' -> '.join(items)


class Tracker(object):
    """Predicates tracked by reachable_ps for one function."""

    def __init__(self, cfg):
        self.cfg = cfg
        assigned = set()
        flag_assign = {}
        for n in cfg.nodes:
            if n.kind in ('stmt', 'for', 'with') and n.ast is not None:
                for t in _store_targets(n):
                    assigned.add(t)
        self.assigned = assigned
        self._tk = {}
        self._eff = {}
        for n in cfg.nodes:
            if n.kind == 'test':
                self._tk[n] = self._key(n.ast)
            elif n.kind == 'stmt' and isinstance(n.ast, ast.Assign) and len(n.ast.targets) == 1 \
                    and isinstance(n.ast.targets[0], ast.Name):
                name = n.ast.targets[0].id
                v = n.ast.value
                # two predicates per flag variable: its truth value and whether it is None
                if isinstance(v, ast.Constant) and (v.value in (None, False, 0, True) or isinstance(v.value, (str, bytes, int))):
                    self._eff[n] = {name: bool(v.value), name + ' is None': v.value is None}
                elif isinstance(v, ast.Call) and _looks_like_object(v):
                    self._eff[n] = {name: True, name + ' is None': False}
                else:
                    self._eff[n] = {name: None, name + ' is None': None}
            elif n.kind in ('stmt', 'for', 'with', 'except') and n.ast is not None:
                eff = {}
                for t in _store_targets(n):
                    eff[t] = None
                    eff[t + ' is None'] = None
                if eff:
                    self._eff[n] = eff
        # predicates over self.* do not survive a call on self / super / a wait (state may change)
        self._self_keys = set(k[0] for k in self._tk.values() if k is not None and 'self.' in k[0])
        for n in cfg.nodes:
            if n.kind in ('stmt', 'test') and n.ast is not None and self._self_keys:
                for x in ast.walk(n.ast):
                    if isinstance(x, ast.Call) and isinstance(x.func, ast.Attribute):
                        root = x.func
                        while isinstance(root, ast.Attribute):
                            root = root.value
                        if (isinstance(root, ast.Name) and root.id == 'self') or \
                                (isinstance(root, ast.Call) and norm(root.func) == 'super') or x.func.attr == 'wait':
                            eff = dict(self._eff.get(n, {}))
                            for k in self._self_keys:
                                if n.kind == 'test' and self._tk.get(n) is not None and self._tk[n][0] == k:
                                    continue
                                eff[k] = None
                            self._eff[n] = eff
                            break

    def _key(self, expr):
        # flag variable
        if isinstance(expr, ast.Name):
            return (expr.id, True)
        if isinstance(expr, ast.Compare) and len(expr.ops) == 1 and isinstance(expr.left, ast.Name) \
                and isinstance(expr.comparators[0], ast.Constant) and expr.comparators[0].value is None:
            if isinstance(expr.ops[0], ast.Is):
                return (expr.left.id + ' is None', True)
            if isinstance(expr.ops[0], ast.IsNot):
                return (expr.left.id + ' is None', False)
        # generic predicate: no operand is ever assigned in the function, no call inside
        for x in ast.walk(expr):
            if isinstance(x, ast.Call):
                f = norm(x.func)
                if f not in ('len', 'isinstance', 'type', 'bool'):
                    return None
        names = set()
        for x in ast.walk(expr):
            if isinstance(x, ast.Name):
                names.add(x.id)
            elif isinstance(x, ast.Attribute):
                names.add(norm(x))
        if names & self.assigned:
            return None
        return (norm(expr), True)

    def test_key(self, n):
        return self._tk.get(n)

    def effect(self, n):
        return self._eff.get(n)


def _store_targets(n):
    out = set()
    a = n.ast
    tg = []
    if isinstance(a, ast.Assign):
        tg = a.targets
    elif isinstance(a, (ast.AugAssign, ast.AnnAssign)):
        tg = [a.target]
    elif isinstance(a, ast.For) and n.kind == 'for':
        tg = [a.target]
    elif isinstance(a, ast.With) and n.kind == 'with':
        tg = [i.optional_vars for i in a.items if i.optional_vars is not None]
    elif isinstance(a, ast.ExceptHandler) and a.name:
        out.add(a.name)
    elif isinstance(a, ast.Delete):
        tg = a.targets
    for t in tg:
        for x in ast.walk(t):
            if isinstance(x, ast.Name):
                out.add(x.id)
            elif isinstance(x, ast.Attribute):
                out.add(norm(x))
    return out


def _looks_like_object(call):
    """Constructor-like call whose result is truthy: CamelCase callee or .from_xxx factory."""
    f = call.func
    name = f.attr if isinstance(f, ast.Attribute) else (f.id if isinstance(f, ast.Name) else '')
    return name[:1].isupper() or name.startswith('from_')


def _default_may_raise(node):
    for n in ast.walk(node):
        if isinstance(n, (ast.Call, ast.Subscript, ast.Raise, ast.BinOp, ast.Attribute, ast.Await,
                          ast.Starred, ast.Delete)):
            return True
        if isinstance(n, ast.Assign) and any(isinstance(t, (ast.Tuple, ast.List)) for t in n.targets):
            return True
    return False


_cfg_cache = {}


def cfg_of(funcinfo):
    c = _cfg_cache.get(funcinfo.node)
    if c is None:
        c = CFG(funcinfo.node)
        _cfg_cache[funcinfo.node] = c
    return c
