# -*- coding: utf-8 -*-
"""Semantic normal form applied to every module right after parsing, before any rule looks at it.

The rules compare constructs after `norm()` (ast.unparse); so that a behaviour-preserving rewrite into an equivalent
spelling is not a change, equivalent spellings are mapped to one form here:

  * CONST <op> expr              ->  expr <flipped op> CONST            (`2 > size` == `size < 2`)
  * not (a == b) / not (a in b)  ->  a != b / a not in b  (only the total relations ==, !=, in, not in, is, is not)
  * not not x (in a test)        ->  x
  * if not c: A else: B          ->  if c: B else: A       (plain else; also the conditional expression; likewise
                                     `if a != b: A else: B` -> `if a == b: B else: A` for !=, not in, is not)
  * x = x + e / x = x - e        ->  x += e / x -= e       (plain name; the analyses treat both as an update of x)
  * t = E; return t              ->  return E              (t a plain local bound right before the return and used nowhere else)

Line numbers are kept; nothing else is rewritten.  The repository source is never modified -- this works on the parsed tree."""
import ast

_FLIP = {ast.Lt: ast.Gt, ast.Gt: ast.Lt, ast.LtE: ast.GtE, ast.GtE: ast.LtE, ast.Eq: ast.Eq, ast.NotEq: ast.NotEq}
_NEG = {ast.Eq: ast.NotEq, ast.NotEq: ast.Eq, ast.In: ast.NotIn, ast.NotIn: ast.In, ast.Is: ast.IsNot, ast.IsNot: ast.Is}


def _is_const(e):
    if isinstance(e, ast.Constant):
        return True
    return isinstance(e, ast.UnaryOp) and isinstance(e.op, ast.USub) and isinstance(e.operand, ast.Constant)


def _negate(test):
    """test' with test' == not test, in canonical form."""
    if isinstance(test, ast.UnaryOp) and isinstance(test.op, ast.Not):
        return test.operand
    if isinstance(test, ast.Compare) and len(test.ops) == 1 and type(test.ops[0]) in _NEG:
        return ast.copy_location(ast.Compare(test.left, [_NEG[type(test.ops[0])]()], test.comparators), test)
    return ast.copy_location(ast.UnaryOp(ast.Not(), test), test)


class Canon(ast.NodeTransformer):
    def visit_Compare(self, n):
        self.generic_visit(n)
        if len(n.ops) == 1 and type(n.ops[0]) in _FLIP and _is_const(n.left) and not _is_const(n.comparators[0]):
            return ast.copy_location(ast.Compare(n.comparators[0], [_FLIP[type(n.ops[0])]()], [n.left]), n)
        return n

    def visit_UnaryOp(self, n):
        self.generic_visit(n)
        if isinstance(n.op, ast.Not):
            o = n.operand
            if isinstance(o, ast.Compare) and len(o.ops) == 1 and type(o.ops[0]) in _NEG:
                return ast.copy_location(ast.Compare(o.left, [_NEG[type(o.ops[0])]()], o.comparators), n)
        return n

    def _test(self, t):
        # double negation is the identity in a test position
        while isinstance(t, ast.UnaryOp) and isinstance(t.op, ast.Not) and isinstance(t.operand, ast.UnaryOp) and isinstance(t.operand.op, ast.Not):
            t = t.operand.operand
        return t

    def visit_If(self, n):
        self.generic_visit(n)
        n.test = self._test(n.test)
        plain_else = n.orelse and not (len(n.orelse) == 1 and isinstance(n.orelse[0], ast.If))
        if plain_else and isinstance(n.test, ast.UnaryOp) and isinstance(n.test.op, ast.Not):
            n.test = n.test.operand
            n.body, n.orelse = n.orelse, n.body
        elif plain_else and isinstance(n.test, ast.Compare) and len(n.test.ops) == 1 and isinstance(n.test.ops[0], (ast.NotEq, ast.NotIn, ast.IsNot)):
            # a two-armed `if a != b: X else: Y` is spelled with the positive relation
            n.test = ast.copy_location(ast.Compare(n.test.left, [_NEG[type(n.test.ops[0])]()], n.test.comparators), n.test)
            n.body, n.orelse = n.orelse, n.body
        return n

    def visit_While(self, n):
        self.generic_visit(n)
        n.test = self._test(n.test)
        return n

    def visit_IfExp(self, n):
        self.generic_visit(n)
        n.test = self._test(n.test)
        if isinstance(n.test, ast.UnaryOp) and isinstance(n.test.op, ast.Not):
            n.test = n.test.operand
            n.body, n.orelse = n.orelse, n.body
        elif isinstance(n.test, ast.Compare) and len(n.test.ops) == 1 and isinstance(n.test.ops[0], (ast.NotEq, ast.NotIn, ast.IsNot)):
            n.test = ast.copy_location(ast.Compare(n.test.left, [_NEG[type(n.test.ops[0])]()], n.test.comparators), n.test)
            n.body, n.orelse = n.orelse, n.body
        return n

    def visit_Assign(self, n):
        self.generic_visit(n)
        if len(n.targets) == 1 and isinstance(n.targets[0], ast.Name) and isinstance(n.value, ast.BinOp) and isinstance(n.value.op, (ast.Add, ast.Sub)) \
                and isinstance(n.value.left, ast.Name) and n.value.left.id == n.targets[0].id:
            return ast.copy_location(ast.AugAssign(ast.Name(n.targets[0].id, ast.Store()), n.value.op, n.value.right), n)
        return n


def _inline_return_temps(fn):
    """`t = E` immediately followed by `return t`: return E -- when every read of t in the function is such a return."""
    loads = {}
    for x in ast.walk(fn):
        if isinstance(x, ast.Name) and isinstance(x.ctx, ast.Load):
            loads[x.id] = loads.get(x.id, 0) + 1
    lists = []
    for node in ast.walk(fn):
        for fld in ('body', 'orelse', 'finalbody'):
            b = getattr(node, fld, None)
            if isinstance(b, list) and b and isinstance(b[0], ast.stmt):
                lists.append((node, fld, b))

    def is_pair(st, nxt):
        return isinstance(st, ast.Assign) and len(st.targets) == 1 and isinstance(st.targets[0], ast.Name) and isinstance(nxt, ast.Return) and \
            isinstance(nxt.value, ast.Name) and nxt.value.id == st.targets[0].id
    pairs = {}
    for node, fld, b in lists:
        for i in range(len(b) - 1):
            if is_pair(b[i], b[i + 1]):
                pairs[b[i].targets[0].id] = pairs.get(b[i].targets[0].id, 0) + 1
    ok = {t for t, n in pairs.items() if loads.get(t) == n}
    if not ok:
        return
    for node, fld, b in lists:
        out = []
        i = 0
        while i < len(b):
            st = b[i]
            nxt = b[i + 1] if i + 1 < len(b) else None
            if is_pair(st, nxt) and st.targets[0].id in ok:
                out.append(ast.copy_location(ast.Return(st.value), st))
                i += 2
                continue
            out.append(st)
            i += 1
        setattr(node, fld, out)


def canonical(tree):
    tree = Canon().visit(tree)
    for fn in ast.walk(tree):
        if isinstance(fn, (ast.FunctionDef, ast.AsyncFunctionDef)):
            _inline_return_temps(fn)
    return ast.fix_missing_locations(tree)
