# -*- coding: utf-8 -*-
"""Semantic normal form applied to every module right after parsing, before any rule looks at it.

The rules compare constructs after `norm()` (ast.unparse); so that a behaviour-preserving rewrite into an equivalent
spelling is not a change, equivalent spellings are mapped to one form here:

  * CONST <op> expr              ->  expr <flipped op> CONST            (`2 > size` == `size < 2`)
  * not (a == b) / not (a in b)  ->  a != b / a not in b  (only the total relations ==, !=, in, not in, is, is not)
  * not not x (in a test)        ->  x
  * if not c: A else: B          ->  if c: B else: A       (plain else; also the conditional expression; likewise
                                     `if a != b: A else: B` -> `if a == b: B else: A` for !=, not in, is not)
  * x = x + e / x = x - e        ->  x += e / x -= e       (plain name; the analyses treat both as an update of x)
  * t = E; return t              ->  return E              (t a plain local bound right before the return and used nowhere else)

Line numbers are kept; nothing else is rewritten.  The repository source is never modified -- this works on the parsed tree."""
import ast

_FLIP = {ast.Lt: ast.Gt, ast.Gt: ast.Lt, ast.LtE: ast.GtE, ast.GtE: ast.LtE, ast.Eq: ast.Eq, ast.NotEq: ast.NotEq}
_NEG = {ast.Eq: ast.NotEq, ast.NotEq: ast.Eq, ast.In: ast.NotIn, ast.NotIn: ast.In, ast.Is: ast.IsNot, ast.IsNot: ast.Is}


def _is_const(e):
    if isinstance(e, ast.Constant):
        return True
    return isinstance(e, ast.UnaryOp) and isinstance(e.op, ast.USub) and isinstance(e.operand, ast.Constant)


def _negate(test):
    """test' with test' == not test, in canonical form."""
    if isinstance(test, ast.UnaryOp) and isinstance(test.op, ast.Not):
        return test.operand
    if isinstance(test, ast.Compare) and len(test.ops) == 1 and type(test.ops[0]) in _NEG:
        return ast.copy_location(ast.Compare(test.left, [_NEG[type(test.ops[0])]()], test.comparators), test)
    if isinstance(test, ast.BoolOp) and all(_negatable(v) for v in test.values):
        # De Morgan, only when every operand has a negation without `not`
        op = ast.Or() if isinstance(test.op, ast.And) else ast.And()
        return ast.copy_location(ast.BoolOp(op, [_negate(v) for v in test.values]), test)
    return ast.copy_location(ast.UnaryOp(ast.Not(), test), test)


def _negatable(t):
    return (isinstance(t, ast.Compare) and len(t.ops) == 1 and type(t.ops[0]) in _NEG) or (isinstance(t, ast.UnaryOp) and isinstance(t.op, ast.Not))


class Canon(ast.NodeTransformer):
    def visit_Compare(self, n):
        self.generic_visit(n)
        if len(n.ops) == 1 and type(n.ops[0]) in _FLIP and _is_const(n.left) and not _is_const(n.comparators[0]):
            return ast.copy_location(ast.Compare(n.comparators[0], [_FLIP[type(n.ops[0])]()], [n.left]), n)
        return n

    def visit_BinOp(self, n):
        self.generic_visit(n)
        # integer arithmetic on literals is the literal (2 | 16 is 18): named constants that were substituted fold away
        if isinstance(n.left, ast.Constant) and isinstance(n.right, ast.Constant) and type(n.left.value) is int and type(n.right.value) is int \
                and isinstance(n.op, (ast.BitOr, ast.BitAnd, ast.BitXor, ast.LShift, ast.Add, ast.Sub, ast.Mult)):
            import operator
            f = {ast.BitOr: operator.or_, ast.BitAnd: operator.and_, ast.BitXor: operator.xor, ast.LShift: operator.lshift,
                 ast.Add: operator.add, ast.Sub: operator.sub, ast.Mult: operator.mul}[type(n.op)]
            try:
                v = f(n.left.value, n.right.value)
            except Exception:
                return n
            if abs(v) < 2 ** 64:
                return ast.copy_location(ast.Constant(value=v), n)
        return n

    def visit_UnaryOp(self, n):
        self.generic_visit(n)
        if isinstance(n.op, ast.Not):
            o = n.operand
            if isinstance(o, ast.Compare) and len(o.ops) == 1 and type(o.ops[0]) in _NEG:
                return ast.copy_location(ast.Compare(o.left, [_NEG[type(o.ops[0])]()], o.comparators), n)
        return n

    def _test(self, t):
        # double negation is the identity in a test position
        while isinstance(t, ast.UnaryOp) and isinstance(t.op, ast.Not) and isinstance(t.operand, ast.UnaryOp) and isinstance(t.operand.op, ast.Not):
            t = t.operand.operand
        return t

    def visit_If(self, n):
        self.generic_visit(n)
        n.test = self._test(n.test)
        plain_else = n.orelse and not (len(n.orelse) == 1 and isinstance(n.orelse[0], ast.If))
        if plain_else and isinstance(n.test, ast.UnaryOp) and isinstance(n.test.op, ast.Not):
            n.test = n.test.operand
            n.body, n.orelse = n.orelse, n.body
        elif plain_else and isinstance(n.test, ast.Compare) and len(n.test.ops) == 1 and isinstance(n.test.ops[0], (ast.NotEq, ast.NotIn, ast.IsNot)):
            # a two-armed `if a != b: X else: Y` is spelled with the positive relation
            n.test = ast.copy_location(ast.Compare(n.test.left, [_NEG[type(n.test.ops[0])]()], n.test.comparators), n.test)
            n.body, n.orelse = n.orelse, n.body
        return n

    def visit_While(self, n):
        self.generic_visit(n)
        n.test = self._test(n.test)
        return n

    def visit_IfExp(self, n):
        self.generic_visit(n)
        n.test = self._test(n.test)
        if isinstance(n.test, ast.UnaryOp) and isinstance(n.test.op, ast.Not):
            n.test = n.test.operand
            n.body, n.orelse = n.orelse, n.body
        elif isinstance(n.test, ast.Compare) and len(n.test.ops) == 1 and isinstance(n.test.ops[0], (ast.NotEq, ast.NotIn, ast.IsNot)):
            n.test = ast.copy_location(ast.Compare(n.test.left, [_NEG[type(n.test.ops[0])]()], n.test.comparators), n.test)
            n.body, n.orelse = n.orelse, n.body
        return n

    def visit_Assign(self, n):
        self.generic_visit(n)
        if len(n.targets) == 1 and isinstance(n.targets[0], ast.Name) and isinstance(n.value, ast.BinOp) and isinstance(n.value.op, (ast.Add, ast.Sub)) \
                and isinstance(n.value.left, ast.Name) and n.value.left.id == n.targets[0].id:
            return ast.copy_location(ast.AugAssign(ast.Name(n.targets[0].id, ast.Store()), n.value.op, n.value.right), n)
        return n


def _inline_return_temps(fn):
    """`t = E` immediately followed by `return t`: return E -- when every read of t in the function is such a return."""
    loads = {}
    for x in ast.walk(fn):
        if isinstance(x, ast.Name) and isinstance(x.ctx, ast.Load):
            loads[x.id] = loads.get(x.id, 0) + 1
    lists = []
    for node in ast.walk(fn):
        for fld in ('body', 'orelse', 'finalbody'):
            b = getattr(node, fld, None)
            if isinstance(b, list) and b and isinstance(b[0], ast.stmt):
                lists.append((node, fld, b))

    def is_pair(st, nxt):
        return isinstance(st, ast.Assign) and len(st.targets) == 1 and isinstance(st.targets[0], ast.Name) and isinstance(nxt, ast.Return) and \
            isinstance(nxt.value, ast.Name) and nxt.value.id == st.targets[0].id
    pairs = {}
    for node, fld, b in lists:
        for i in range(len(b) - 1):
            if is_pair(b[i], b[i + 1]):
                pairs[b[i].targets[0].id] = pairs.get(b[i].targets[0].id, 0) + 1
    ok = {t for t, n in pairs.items() if loads.get(t) == n}
    if not ok:
        return
    for node, fld, b in lists:
        out = []
        i = 0
        while i < len(b):
            st = b[i]
            nxt = b[i + 1] if i + 1 < len(b) else None
            if is_pair(st, nxt) and st.targets[0].id in ok:
                out.append(ast.copy_location(ast.Return(st.value), st))
                i += 2
                continue
            out.append(st)
            i += 1
        setattr(node, fld, out)


def _bodies(node):
    for x in ast.walk(node):
        for fld in ('body', 'orelse', 'finalbody'):
            lst = getattr(x, fld, None)
            if isinstance(lst, list) and lst and isinstance(lst[0], ast.stmt):
                yield x, fld, lst
        if isinstance(x, ast.Try):
            for h in x.handlers:
                yield h, 'body', h.body


def _counting_loops(fn):
    """`v = A` directly followed by `while v < B: BODY; v += C` (C a positive constant, BODY without `continue` and without
    another store to v, B not stored in the loop, v not read after the loop) is the same iteration as `for v in range(A, B, C): BODY`:
    both spellings are brought to the for form."""
    changed = True
    while changed:
        changed = False
        for owner, fld, lst in list(_bodies(fn)):
            for i in range(len(lst) - 1):
                a, w = lst[i], lst[i + 1]
                if not (isinstance(a, ast.Assign) and len(a.targets) == 1 and isinstance(a.targets[0], ast.Name) and isinstance(w, ast.While)
                        and not w.orelse and isinstance(w.test, ast.Compare) and len(w.test.ops) == 1 and isinstance(w.test.ops[0], ast.Lt)
                        and isinstance(w.test.left, ast.Name) and w.test.left.id == a.targets[0].id and w.body):
                    continue
                v = a.targets[0].id
                last = w.body[-1]
                if not (isinstance(last, ast.AugAssign) and isinstance(last.op, ast.Add) and isinstance(last.target, ast.Name) and last.target.id == v
                        and isinstance(last.value, ast.Constant) and isinstance(last.value.value, int) and last.value.value > 0):
                    continue
                inner = w.body[:-1]
                if not inner:
                    continue
                bad = False
                bound_names = set(x.id for x in ast.walk(w.test.comparators[0]) if isinstance(x, ast.Name))
                for st in inner:
                    for x in ast.walk(st):
                        if isinstance(x, ast.Continue):
                            bad = True
                        if isinstance(x, ast.Name) and isinstance(x.ctx, (ast.Store, ast.Del)) and (x.id == v or x.id in bound_names):
                            bad = True
                        if isinstance(x, (ast.FunctionDef, ast.Lambda)):
                            bad = True
                # v must not be read after the loop
                after = False
                seen_loop = False
                for x in ast.walk(fn):
                    pass
                rest = lst[i + 2:]
                for st in rest:
                    for x in ast.walk(st):
                        if isinstance(x, ast.Name) and x.id == v and isinstance(x.ctx, ast.Load):
                            after = True
                if bad or after or owner is not fn and any(isinstance(x, ast.Name) and x.id == v for st in _stmts_after(fn, owner) for x in ast.walk(st)):
                    continue
                rng = ast.Call(func=ast.Name(id='range', ctx=ast.Load()), args=[a.value, w.test.comparators[0], last.value], keywords=[])
                loop = ast.For(target=ast.Name(id=v, ctx=ast.Store()), iter=rng, body=inner, orelse=[], type_comment=None)
                ast.copy_location(loop, w)
                lst[i:i + 2] = [loop]
                changed = True
                break
            if changed:
                break


def _count_loops(fn):
    """`v = A` directly followed by `while True: v += 1; BODY` (A an integer constant, no other store to v in BODY) is
    `for v in itertools.count(start=A+1): BODY` -- a `continue` goes through the increment in both spellings and v keeps its value
    after a break.  Brought to the for form (the module must import itertools)."""
    changed = True
    while changed:
        changed = False
        for owner, fld, lst in list(_bodies(fn)):
            for i in range(len(lst) - 1):
                a, w = lst[i], lst[i + 1]
                if not (isinstance(a, ast.Assign) and len(a.targets) == 1 and isinstance(a.targets[0], ast.Name) and isinstance(w, ast.While)
                        and not w.orelse and isinstance(w.test, ast.Constant) and w.test.value is True and len(w.body) > 1
                        and isinstance(a.value, ast.Constant) and isinstance(a.value.value, int) and not isinstance(a.value.value, bool)):
                    continue
                v = a.targets[0].id
                first = w.body[0]
                if not (isinstance(first, ast.AugAssign) and isinstance(first.op, ast.Add) and isinstance(first.target, ast.Name)
                        and first.target.id == v and isinstance(first.value, ast.Constant) and first.value.value == 1):
                    continue
                inner = w.body[1:]
                if any(isinstance(x, ast.Name) and x.id == v and isinstance(x.ctx, (ast.Store, ast.Del)) for st in inner for x in ast.walk(st)) or \
                        any(isinstance(x, (ast.FunctionDef, ast.Lambda)) for st in inner for x in ast.walk(st)):
                    continue
                it = ast.Call(func=ast.Attribute(value=ast.Name(id='itertools', ctx=ast.Load()), attr='count', ctx=ast.Load()), args=[],
                              keywords=[ast.keyword(arg='start', value=ast.Constant(value=a.value.value + 1))])
                loop = ast.For(target=ast.Name(id=v, ctx=ast.Store()), iter=it, body=inner, orelse=[], type_comment=None)
                ast.copy_location(loop, w)
                lst[i:i + 2] = [loop]
                changed = True
                break
            if changed:
                break


def _stmts_after(fn, owner):
    """statements of fn that can run after `owner` finished (conservative: everything that is not inside owner)."""
    inside = set(id(x) for x in ast.walk(owner))
    return [st for st in ast.walk(fn) if isinstance(st, ast.stmt) and id(st) not in inside and st is not fn
            and getattr(st, 'lineno', 0) > getattr(owner, 'end_lineno', getattr(owner, 'lineno', 0))]


def _guard_continue(fn):
    """Inside a loop body `if C: continue` followed by REST (to the end of the body) is `if not C: REST`."""
    for loop in ast.walk(fn):
        if not isinstance(loop, (ast.For, ast.While)):
            continue
        changed = True
        while changed:
            changed = False
            body = loop.body
            for i, st in enumerate(body):
                if isinstance(st, ast.If) and not st.orelse and len(st.body) == 1 and isinstance(st.body[0], ast.Continue) and i + 1 < len(body):
                    # a trailing counter increment of a while loop must stay outside
                    rest = body[i + 1:]
                    new = ast.If(test=_negate(st.test), body=rest, orelse=[])
                    ast.copy_location(new, st)
                    loop.body = body[:i] + [new]
                    changed = True
                    break


class _SliceCall(ast.NodeTransformer):
    """x[slice(a, b)] is x[a:b]"""
    def visit_Subscript(self, n):
        self.generic_visit(n)
        s = n.slice
        if isinstance(s, ast.Call) and isinstance(s.func, ast.Name) and s.func.id == 'slice' and not s.keywords and 1 <= len(s.args) <= 3:
            a = list(s.args)
            if len(a) == 1:
                lo, hi, st = None, a[0], None
            else:
                lo, hi, st = a[0], a[1], (a[2] if len(a) == 3 else None)
            def none(e):
                return None if (isinstance(e, ast.Constant) and e.value is None) else e
            n.slice = ast.Slice(lower=none(lo), upper=none(hi), step=none(st))
        return n


def canonical(tree):
    imports_itertools = any(isinstance(st, ast.Import) and any(a.name == 'itertools' and a.asname is None for a in st.names)
                            for st in getattr(tree, 'body', []))
    tree = Canon().visit(tree)
    tree = _SliceCall().visit(tree)
    for fn in ast.walk(tree):
        if isinstance(fn, (ast.FunctionDef, ast.AsyncFunctionDef)):
            _inline_return_temps(fn)
            _guard_continue(fn)
            _counting_loops(fn)
            if imports_itertools:
                _count_loops(fn)
    for node in ast.walk(tree):
        # bool(X) in a test position is X
        if isinstance(node, (ast.If, ast.While, ast.IfExp)):
            t = node.test
            if isinstance(t, ast.Call) and isinstance(t.func, ast.Name) and t.func.id == 'bool' and len(t.args) == 1 and not t.keywords:
                node.test = t.args[0]
    return ast.fix_missing_locations(tree)
