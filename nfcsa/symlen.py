# -*- coding: utf-8 -*-
"""E6 -- symbolic byte length of bytes-building code (encoders) and of __len__ expressions.

A length is a linear form  {key: coeff}  with keys
   ('c',)                         constant 1
   ('len', text)                  len(<expr>)
   ('if', guard_text, form)       form counted when guard holds
   ('sum', iter_text, form)       sum of form over the elements v of iter (element is named _v)
Two forms are equal iff their canonical dictionaries are equal.
"""
import ast
import struct

from .model import clone, norm, FuncInfo, ClassInfo, AnalysisError, walk_no_nested
from .q import try_const, NotConst, const
from .resolve import Ctx


class Unsupported(Exception):
    pass


def F(c=0):
    return {('c',): c} if c else {}


def add(a, b):
    out = dict(a)
    for k, v in b.items():
        out[k] = out.get(k, 0) + v
        if out[k] == 0:
            del out[k]
    return out


def scale(a, n):
    return {k: v * n for k, v in a.items()} if n else {}


def freeze(a):
    return frozenset(a.items())


def guarded(g, form):
    if not form:
        return {}
    return {('if', g, freeze(form)): 1}


def summed(it, form):
    """sum over v in it of form (form may mention _v)."""
    if not form:
        return {}
    const_part = {k: v for k, v in form.items() if '_v' not in repr(k)}
    var_part = {k: v for k, v in form.items() if '_v' in repr(k)}
    out = {}
    if const_part:
        # c * len(it)
        if set(const_part) == {('c',)}:
            out[('len', it)] = const_part[('c',)]
        else:
            out[('sum', it, freeze(const_part))] = 1
    if var_part:
        out[('sum', it, freeze(var_part))] = 1
    return out


def show(form):
    if not form:
        return '0'
    parts = []
    for k, v in sorted(form.items(), key=repr):
        if k == ('c',):
            parts.append(str(v))
        elif k[0] == 'len':
            parts.append(('%d*' % v if v != 1 else '') + 'len(%s)' % k[1])
        elif k[0] == 'int':
            parts.append(('%d*' % v if v != 1 else '') + k[1])
        elif k[0] == 'if':
            parts.append(('%d*' % v if v != 1 else '') + '[%s](%s)' % (k[1], show(dict(k[2]))))
        elif k[0] == 'sum':
            parts.append(('%d*' % v if v != 1 else '') + 'SUM{_v in %s}(%s)' % (k[1], show(dict(k[2]))))
    return ' + '.join(parts)


class _Rename(ast.NodeTransformer):
    def __init__(self, mapping):
        self.mapping = mapping

    def visit_Name(self, node):
        if node.id in self.mapping:
            rep = self.mapping[node.id]
            if isinstance(rep, ast.AST):
                return rep
            return ast.copy_location(ast.Name(id=rep, ctx=node.ctx), node)
        return node


def subst(expr, mapping):
    return _Rename(mapping).visit(clone(expr))


class LenEval(object):
    def __init__(self, prog, resolver):
        self.p = prog
        self.r = resolver
        self.trace = []

    # ------------------------------------------------------------- expressions -> byte length
    def length(self, expr, func, ctx, env):
        """Symbolic length of the bytes value of expr.  env: local name -> form | ('expr', ast)."""
        if isinstance(expr, ast.Constant):
            if isinstance(expr.value, (bytes, str)):
                return F(len(expr.value))
            raise Unsupported('constant %r' % (expr.value,))
        if isinstance(expr, ast.Name):
            if expr.id in env:
                v = env[expr.id]
                if isinstance(v, dict):
                    return v
                if isinstance(v, tuple) and v[0] == 'alias':
                    env2 = {k: x for k, x in env.items() if k != expr.id}
                    if isinstance(v[1], ast.Name) and v[1].id == expr.id:
                        return {('len', norm(expr)): 1}
                    return self.length(v[1], func, ctx, env2)
            return {('len', norm(expr)): 1}
        if isinstance(expr, ast.BinOp) and isinstance(expr.op, ast.Add):
            return add(self.length(expr.left, func, ctx, env), self.length(expr.right, func, ctx, env))
        if isinstance(expr, ast.BinOp) and isinstance(expr.op, ast.Mult):
            n = try_const(expr.right)
            if isinstance(n, int):
                return scale(self.length(expr.left, func, ctx, env), n)
            n = try_const(expr.left)
            if isinstance(n, int):
                return scale(self.length(expr.right, func, ctx, env), n)
        if isinstance(expr, ast.IfExp):
            g = norm(expr.test)
            a = self.length(expr.body, func, ctx, env)
            b = self.length(expr.orelse, func, ctx, env)
            if not a and b:
                # `0 if c else B` is `B if not c else 0` (the canonical form spells a two-armed choice with the positive relation)
                from .canon import _negate
                return guarded(norm(_negate(expr.test)), b)
            out = guarded(g, a)
            if b:
                out = add(out, guarded('not (%s)' % g, b))
            return out
        if isinstance(expr, ast.Call):
            fn = expr.func
            fname = norm(fn)
            if fname in ('struct.pack', 'pack'):
                fmt = try_const(expr.args[0])
                if isinstance(fmt, str):
                    return F(struct.calcsize(fmt))
                raise Unsupported('non-constant struct format %s' % norm(expr.args[0]))
            if fname in ('bytes', 'bytearray') and len(expr.args) == 1:
                a = expr.args[0]
                if isinstance(a, (ast.List, ast.Tuple)):
                    return F(len(a.elts))
                c = try_const(a)
                if isinstance(c, int):
                    return F(c)
                if isinstance(c, (bytes, bytearray, list, tuple)):
                    return F(len(c))
                if isinstance(a, ast.Name) and a.id in env:
                    return self.length(a, func, ctx, env)
                return {('len', self._canon_text(a, env)): 1}
            if fname in ('bytes', 'bytearray') and not expr.args:
                return F(0)
            # method / function call returning bytes: evaluate the callee
            targets = self.r.callees(func, expr, ctx, record=False)
            tfuncs = [t for t in targets if t.func is not None]
            if len(tfuncs) == 1:
                t = tfuncs[0]
                return self.call_length(t.func, t.ctx, expr, func, ctx, env)
            if isinstance(fn, ast.Attribute) and fn.attr == 'encode' and not expr.args:
                # <pdu>.encode(): by the induction hypothesis (R1 for every class) == len(<pdu>)
                return {('len', self._canon_text(fn.value, env)): 1}
            raise Unsupported('call %s' % norm(expr))
        if isinstance(expr, ast.Attribute):
            # class-level bytes constant (self.PDU_CODE / Class.PDU_CODE): same length in every subclass?
            if isinstance(expr.value, ast.Name) and expr.value.id in ('self', 'cls') and ctx is not None and ctx.root is not None:
                vals = set()
                for c in self.p.subclasses(ctx.root):
                    a = self.p.lookup(c, expr.attr)
                    if isinstance(a, tuple) and a[0] == 'attr':
                        v = try_const(a[2])
                        vals.add(len(v) if isinstance(v, (bytes, bytearray)) else None)
                if vals and None not in vals and len(vals) == 1:
                    return F(vals.pop())
            r = self.p.resolve_expr(func.module, expr, scope=func) if isinstance(expr.value, ast.Name) else None
            if r is not None and r[0] == 'expr':
                v = try_const(r[1])
                if isinstance(v, (bytes, bytearray)):
                    return F(len(v))
            return {('len', self._canon_text(expr, env)): 1}
        if isinstance(expr, ast.Subscript):
            return {('len', self._canon_text(expr, env)): 1}
        raise Unsupported(norm(expr))

    def _canon_text(self, expr, env):
        mapping = {}
        for k, v in env.items():
            if isinstance(v, tuple) and v[0] == 'alias':
                mapping[k] = v[1]
        if mapping:
            expr = subst(expr, mapping)
        return norm(expr)

    def call_length(self, callee, cctx, call, func, ctx, env):
        """Length of the bytes returned by callee for this call (parameters bound)."""
        binds = {}
        params = [a.arg for a in callee.node.args.args]
        if callee.kind in ('method', 'property', 'classmethod') or (callee.cls is not None and callee.kind != 'staticmethod'):
            params = params[1:]
        for pn, a in zip(params, call.args):
            c = try_const(a, self._const_env(func, ctx))
            if c is not None and isinstance(c, (int, str, bytes)):
                binds[pn] = ('const', c)
            else:
                # alias the parameter to the caller's expression (canonical text)
                binds[pn] = ('alias', self._alias_expr(a, env))
        return self.func_length(callee, cctx, binds)

    def _alias_expr(self, a, env):
        mapping = {k: v[1] for k, v in env.items() if isinstance(v, tuple) and v[0] == 'alias'}
        return subst(a, mapping) if mapping else a

    def _const_env(self, func, ctx):
        """Names usable in constant folding: class constants such as Parameter.MIUX."""
        return ConstEnv(self.p, func)

    # ------------------------------------------------------------- functions -> length of return value
    def func_length(self, f, ctx, binds=None):
        env = dict(binds or {})
        res = self._exec(f.node.body, f, ctx, env)
        if res is None:
            raise Unsupported('%s: no return value length' % f.qname)
        return res

    def _truth(self, test, f, ctx, env):
        """Evaluate a branch condition under constant bindings: True/False/None(unknown)."""
        cenv = ConstEnv(self.p, f, {k: v[1] for k, v in env.items() if isinstance(v, tuple) and v[0] == 'const'})
        try:
            return bool(const(test, cenv))
        except Exception:
            return None

    def _exec(self, stmts, f, ctx, env):
        """Returns the form of the returned value if a return is reached on the (partially
        evaluated) straight-line path, else None; env is updated in place."""
        for st in stmts:
            if isinstance(st, ast.Expr) and isinstance(st.value, ast.Constant):
                continue
            if isinstance(st, ast.Return):
                if st.value is None:
                    raise Unsupported('bare return')
                return self.length(st.value, f, ctx, env)
            if isinstance(st, ast.Assign) and len(st.targets) == 1 and isinstance(st.targets[0], ast.Name):
                name = st.targets[0].id
                try:
                    env[name] = self.length(st.value, f, ctx, env)
                except Unsupported:
                    env[name] = ('alias', self._alias_expr(st.value, env))
                continue
            if isinstance(st, ast.Assign) and len(st.targets) == 1 and isinstance(st.targets[0], ast.Tuple) \
                    and isinstance(st.value, ast.Tuple) and len(st.value.elts) == len(st.targets[0].elts):
                for t, v in zip(st.targets[0].elts, st.value.elts):
                    if isinstance(t, ast.Name):
                        env[t.id] = ('alias', self._alias_expr(v, env))
                continue
            if isinstance(st, ast.AugAssign) and isinstance(st.op, ast.Add) and isinstance(st.target, ast.Name):
                cur = env.get(st.target.id)
                if not isinstance(cur, dict):
                    raise Unsupported('+= on unknown %s' % st.target.id)
                env[st.target.id] = add(cur, self.length(st.value, f, ctx, env))
                continue
            if isinstance(st, ast.Expr) and isinstance(st.value, ast.Call) and isinstance(st.value.func, ast.Attribute) \
                    and isinstance(st.value.func.value, ast.Name) and st.value.func.attr in ('append', 'extend') \
                    and isinstance(env.get(st.value.func.value.id), dict):
                name = st.value.func.value.id
                if st.value.func.attr == 'append':
                    env[name] = add(env[name], F(1))
                else:
                    a = st.value.args[0]
                    if isinstance(a, (ast.List, ast.Tuple)):
                        env[name] = add(env[name], F(len(a.elts)))
                    else:
                        env[name] = add(env[name], self.length(a, f, ctx, env))
                continue
            if isinstance(st, ast.Expr) and isinstance(st.value, ast.Call):
                continue
            if isinstance(st, ast.If):
                tv = self._truth(st.test, f, ctx, env)
                if tv is True:
                    r = self._exec(st.body, f, ctx, env)
                    if r is not None:
                        return r
                    continue
                if tv is False:
                    r = self._exec(st.orelse, f, ctx, env)
                    if r is not None:
                        return r
                    continue
                # unknown condition: a guard that only raises is a precondition, skip it
                if all(isinstance(s, ast.Raise) or (isinstance(s, ast.Expr) and 'log' in norm(s)) for s in st.body) \
                        and not st.orelse:
                    continue
                # conditional append(s)
                before = {k: v for k, v in env.items()}
                benv = dict(env)
                r = self._exec(st.body, f, ctx, benv)
                if r is not None:
                    raise Unsupported('conditional return under %s' % norm(st.test))
                if st.orelse:
                    raise Unsupported('if/else with unknown condition %s' % norm(st.test))
                g = self._canon_text(st.test, env)
                for k, v in benv.items():
                    if isinstance(v, dict) and isinstance(before.get(k), dict) and v != before[k]:
                        delta = add(v, scale(before[k], -1))
                        env[k] = add(before[k], guarded(g, delta))
                continue
            if isinstance(st, ast.For) and isinstance(st.target, ast.Name):
                it = st.iter
                var = st.target.id
                elem_alias = ast.Name(id='_v', ctx=ast.Load())
                # for encoded in [x.encode() for x in seq]  ->  iterate seq with elem = x.encode()
                if isinstance(it, ast.ListComp) and len(it.generators) == 1 and not it.generators[0].ifs \
                        and isinstance(it.generators[0].target, ast.Name):
                    g = it.generators[0]
                    elem_alias = subst(it.elt, {g.target.id: '_v'})
                    it = g.iter
                before = {k: v for k, v in env.items()}
                benv = dict(env)
                benv[var] = ('alias', elem_alias)
                r = self._exec(st.body, f, ctx, benv)
                if r is not None:
                    raise Unsupported('return inside for')
                ittext = self._canon_text(it, env)
                for k, v in benv.items():
                    if k != var and isinstance(v, dict) and isinstance(before.get(k), dict) and v != before[k]:
                        delta = add(v, scale(before[k], -1))
                        env[k] = add(before[k], summed(ittext, delta))
                continue
            if isinstance(st, ast.Try):
                r = self._exec(st.body, f, ctx, env)
                if r is not None:
                    return r
                continue
            if isinstance(st, ast.Raise):
                return None
            raise Unsupported('statement %s' % norm(st)[:60])
        return None

    # ------------------------------------------------------------- __len__ style integer expressions
    def intform(self, expr, func, ctx, env=None):
        """Canonical form of an integer expression built from constants, len(), conditional
        expressions and sum() over comprehensions."""
        env = env or {}
        c = try_const(expr)
        if isinstance(c, int) and not isinstance(c, bool):
            return F(c)
        if isinstance(expr, ast.BinOp) and isinstance(expr.op, ast.Add):
            return add(self.intform(expr.left, func, ctx, env), self.intform(expr.right, func, ctx, env))
        if isinstance(expr, ast.BinOp) and isinstance(expr.op, ast.Sub):
            return add(self.intform(expr.left, func, ctx, env), scale(self.intform(expr.right, func, ctx, env), -1))
        if isinstance(expr, ast.BinOp) and isinstance(expr.op, ast.Mult):
            n = try_const(expr.right)
            if isinstance(n, int):
                return scale(self.intform(expr.left, func, ctx, env), n)
            n = try_const(expr.left)
            if isinstance(n, int):
                return scale(self.intform(expr.right, func, ctx, env), n)
        if isinstance(expr, ast.IfExp):
            g = self._canon_text(expr.test, env)
            a = self.intform(expr.body, func, ctx, env)
            b = self.intform(expr.orelse, func, ctx, env)
            if not a and b:
                from .canon import _negate
                return guarded(self._canon_text(_negate(expr.test), env), b)
            out = guarded(g, a)
            if b:
                out = add(out, guarded('not (%s)' % g, b))
            return out
        if isinstance(expr, ast.Call) and norm(expr.func) == 'len' and len(expr.args) == 1:
            return {('len', self._canon_text(expr.args[0], env)): 1}
        if isinstance(expr, ast.Call) and norm(expr.func) == 'sum' and len(expr.args) == 1 \
                and isinstance(expr.args[0], (ast.ListComp, ast.GeneratorExp)) \
                and len(expr.args[0].generators) == 1 and not expr.args[0].generators[0].ifs \
                and isinstance(expr.args[0].generators[0].target, ast.Name):
            comp = expr.args[0]
            g = comp.generators[0]
            elt = subst(comp.elt, {g.target.id: '_v'})
            return summed(self._canon_text(g.iter, env), self.intform(elt, func, ctx, env))
        if isinstance(expr, ast.Attribute):
            # a class constant of the receiver folds; any other attribute is an opaque integer term of its own
            root = getattr(ctx, 'root', None)
            if norm(expr.value) in ('self', 'cls') and root is not None:
                v = self.p.lookup(root, expr.attr)
                c = try_const(v[2]) if isinstance(v, tuple) and len(v) > 2 else None
                if isinstance(c, int) and not isinstance(c, bool):
                    return F(c)
            return {('int', self._canon_text(expr, env)): 1}
        raise Unsupported('int expr %s' % norm(expr))


def ConstEnv(prog, func, base=None):
    """Environment for q.const: `<Class>.<CONST>` for every class of the function's module
    (e.g. Parameter.MIUX from `VERSION, MIUX, ... = range(1, 12)`) plus given bindings."""
    env = {}
    for c in prog.classes.values():
        if c.module is func.module and c.outer is None:
            for k, v in class_consts(prog, c).items():
                env['%s.%s' % (c.name, k)] = v
    env.update(base or {})
    return env


def class_consts(prog, cls):
    """Integer/bytes class-level constants incl. tuple-unpacking from range()."""
    out = {}
    for st in cls.node.body:
        if isinstance(st, ast.Assign) and len(st.targets) == 1:
            t = st.targets[0]
            if isinstance(t, ast.Tuple):
                v = try_const(st.value)
                if v is not None:
                    try:
                        vals = list(v)
                    except TypeError:
                        continue
                    if len(vals) == len(t.elts):
                        for a, b in zip(t.elts, vals):
                            if isinstance(a, ast.Name):
                                out[a.id] = b
            elif isinstance(t, ast.Name):
                v = try_const(st.value, out)
                if v is not None:
                    out[t.id] = v
    return out
