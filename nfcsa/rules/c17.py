# -*- coding: utf-8 -*-
"""C17 -- LLCP addressing: binding, discovery and delivery reach the right socket (structural clauses)."""
import ast
import errno as _errno

from ..model import norm, head, walk_no_nested, AnalysisError, FuncInfo, enclosing_stmt, ancestors
from ..cfg import cfg_of
from ..resolve import Resolver, Ctx
from ..escape import Escape, items_sorted
from ..q import (find, match, try_const, only_via, tests, stmt_nodes, one, fmt, cfg_node_for, edges_where, calls)
from ..core import key

LLC = 'nfc.llcp.llc.LogicalLinkController'
SAP = 'nfc.llcp.llc.ServiceAccessPoint'
SD = 'nfc.llcp.llc.ServiceDiscovery'
EXPLANATION = (
    'R1 every store that creates a ServiceAccessPoint in the address table is dominated by a test that the slot is '
    'free, or takes its index from .index(None) over the slice it is added to; R2 the range constants (32+sap[32:64], '
    '16+sap[16:32], range(32, 64), well-known map < 16, table size 64) are mutually consistent; R3 the name registered by '
    'bind-by-name is released on the path that frees the address; R4 the errno values reachable from bind() are within '
    'the documented vocabulary; R5 dispatch indexes the table with the DSAP only, connect-by-name rewrites the DSAP from '
    'the local name table, recvfrom returns data and source of the same PDU, SDRES answers come from the local name table; '
    'R6 bind on a bound socket is refused before any table update.  Allocation behaviour over long histories against a '
    'reference model is not decided.')

BIND_ERRNOS = {'EADDRINUSE', 'EACCES', 'EFAULT', 'EAGAIN', 'ENOTSOCK', 'EINVAL'}


def rule_no_double(report, prog):
    n = 0
    for name in ('_bind_by_none', '_bind_by_addr', '_bind_by_name'):
        f = prog.func(LLC + '.' + name)
        cfg = cfg_of(f)
        for st, b in find(f.node, 'self.sap[$A] = ServiceAccessPoint($A, self)'):
            n += 1
            a = norm(b['A'])
            node = cfg.node_of(st)
            # (i) slot tested free
            edges = [(t, 'true') for e, t in cfg.test_nodes.items() if norm(e) == 'self.sap[%s] is None' % a] + \
                    [(t, 'false') for e, t in cfg.test_nodes.items() if norm(e) in ('self.sap[%s] is not None' % a, 'self.sap[%s]' % a)]
            defs = [(s_, bb) for s_, bb in find(f.node, '%s = $K + self.sap[$K:$H].index(None)' % a)]
            dnodes = [cfg.node_of(s_) for s_, bb in defs]
            others = [x for x in cfg.nodes if x.kind == 'stmt' and isinstance(x.ast, ast.Assign)
                      and any(norm(t) == a for t in x.ast.targets) and x not in dnodes]
            # every path to the store passes, after the last other definition of the index, either a
            # `slot is free` test on its passing edge or an index(None) definition over the slice
            reach = cfg.reachable(cfg.entry, avoid_nodes=dnodes, avoid_edges=edges)
            ok1 = node not in reach
            p = cfg.path(cfg.entry, node, avoid_nodes=dnodes, avoid_edges=edges) if not ok1 else None
            ok2 = ok1
            for o in others:
                if node in cfg.reachable(o, avoid_nodes=dnodes, avoid_edges=edges):
                    ok1 = ok2 = False
                    p = cfg.path(o, node, avoid_nodes=dnodes, avoid_edges=edges)
            report.check(ok1 or ok2, 'C17-R1', key(f.qname, 'slot proven free before a SAP is created', st), f.loc(st),
                         '%s stores a new ServiceAccessPoint at sap[%s] without proof that the slot is free: an access point '
                         'already bound there (and its sockets) is silently replaced' % (name, a), fmt(cfg, p))
            # the store, the socket bind and the insert use the same index
            ins = find(f.node, 'self.sap[%s].insert_socket(socket)' % a)
            report.check(len(ins) == 1, 'C17-R1', key(f.qname, 'socket inserted at the address just created', a), f.loc(st),
                         'socket is not inserted into the SAP created at sap[%s]' % a)
    report.floor('C17-R1', n, 3)
    # a bind puts the application's socket only into the access point it has just created (behind the proof that the slot was free):
    # every insert_socket() in the bind functions is dominated by a store of a new ServiceAccessPoint at the same index -- inserting
    # into an access point that exists already hands one address to two open sockets
    for name in ('_bind_by_none', '_bind_by_addr', '_bind_by_name'):
        f = prog.func(LLC + '.' + name)
        cfg = cfg_of(f)
        for c in ast.walk(f.node):
            if isinstance(c, ast.Call) and isinstance(c.func, ast.Attribute) and c.func.attr == 'insert_socket':
                st = enclosing_stmt(c)
                node = cfg_node_for(cfg, st)
                recv = norm(c.func.value)
                stores = [cfg.node_of(s_) for s_, bb in find(f.node, 'self.sap[$A] = ServiceAccessPoint($A, self)') if 'self.sap[%s]' % norm(bb['A']) == recv]
                okk = node is not None and any(sn is not None and cfg.dominates(sn, node) for sn in stores)
                report.check(okk, 'C17-R1', key(f.qname, 'socket inserted only into the access point created by this bind', recv), f.loc(st),
                             '%s can insert the socket into an access point that exists already (%s): the address is handed to a second open socket'
                             % (name, norm(st)))
    # all three run under the link lock
    for name in ('_bind_by_none', '_bind_by_addr', '_bind_by_name'):
        f = prog.func(LLC + '.' + name)
        for st, b in find(f.node, 'self.sap[$A] = ServiceAccessPoint($A, self)'):
            locked = any(isinstance(a, ast.With) and any(norm(i.context_expr) == 'self.lock' for i in a.items) for a in ancestors(st))
            report.check(locked, 'C17-R1', key(f.qname, 'table update under the link lock'), f.loc(st),
                         'address table updated without holding the link lock (two binds can get one address)')


def rule_ranges(report, prog):
    f = prog.func(LLC + '._bind_by_none')
    b = find(f.node, 'addr = $K + self.sap[$L:$H].index(None)')
    okk = len(b) == 1 and (try_const(b[0][1]['K']), try_const(b[0][1]['L']), try_const(b[0][1]['H'])) == (32, 32, 64)
    report.check(okk, 'C17-R2', key(f.qname, 'anonymous bind allocates 32 + sap[32:64].index(None)'), f.loc(),
                 'anonymous bind range is not 32..63 with matching offset: %s' % (norm(b[0][0]) if b else 'not found'))
    f = prog.func(LLC + '._bind_by_name')
    b = find(f.node, 'addr = $K + self.sap[$L:$H].index(None)')
    okk = len(b) == 1 and (try_const(b[0][1]['K']), try_const(b[0][1]['L']), try_const(b[0][1]['H'])) == (16, 16, 32)
    report.check(okk, 'C17-R2', key(f.qname, 'named bind allocates 16 + sap[16:32].index(None)'), f.loc(),
                 'named bind range is not 16..31 with matching offset: %s' % (norm(b[0][0]) if b else 'not found'))
    f = prog.func(LLC + '._bind_by_addr')
    rng = [try_const(c) for c in ast.walk(f.node) if isinstance(c, ast.Call) and norm(c.func) == 'range']
    report.check(rng == [range(32, 64)], 'C17-R2', key(f.qname, 'explicit bind allowed for range(32, 64)'), f.loc(),
                 'explicit bind range is %r, expected range(32, 64)' % rng)
    lim = [norm(e) for e in ast.walk(f.node) if isinstance(e, ast.BoolOp) and 'addr' in norm(e)]
    report.check('addr < 0 or addr > 63' in lim, 'C17-R2', key(f.qname, 'address outside 0..63 is EFAULT'), f.loc(),
                 'address range test changed: %r' % lim)
    m = prog.modules['nfc.llcp.llc']
    wm = m.names.get('wks_map')
    d = try_const(wm[1]) if wm and wm[0] == 'expr' else None
    report.check(isinstance(d, dict) and d.get(b'urn:nfc:sn:sdp') == 1 and d.get(b'urn:nfc:sn:snep') == 4
                 and all(0 < v < 16 for v in d.values()) and len(set(d.values())) == len(d), 'C17-R2',
                 key('nfc.llcp.llc.wks_map', 'well-known names map to distinct addresses below 16 (sdp=1, snep=4)'), m.relpath,
                 'wks_map is %r' % (d,))
    init = prog.func(LLC + '.__init__')
    report.check(bool(find(init.node, 'self.sap = 64 * [None]')), 'C17-R2', key(init.qname, 'address table has 64 slots'),
                 init.loc(), 'SAP table size changed')
    report.check(bool(find(init.node, "self.snl = dict({b'urn:nfc:sn:sdp': 1})")), 'C17-R2',
                 key(init.qname, 'name table starts with sdp -> 1'), init.loc(), 'initial service name table changed')


def rule_release(report, prog):
    """The name registered in _bind_by_name must be removed where the address is freed."""
    reg = find(prog.func(LLC + '._bind_by_name').node, 'self.snl[name] = addr')
    if len(reg) != 1:
        raise AnalysisError('C17-R3: name registration not found')
    f = prog.func(SAP + '.remove_socket')
    frees = find(f.node, 'self.llc.sap[self.addr] = None')
    report.check(len(frees) == 1, 'C17-R3', key(f.qname, 'closing the last socket frees the address'), f.loc(),
                 'remove_socket no longer frees the address when the last socket is closed')
    purged = False
    for st in walk_no_nested(f.node):
        t = norm(st) if isinstance(st, ast.stmt) else ''
        if isinstance(st, (ast.Delete, ast.Assign, ast.Expr, ast.For)) and 'snl' in t and isinstance(st, ast.stmt):
            if isinstance(st, ast.Delete) or '.pop(' in t or 'snl =' in t or 'del ' in t:
                purged = True
    # or a helper called from remove_socket that touches llc.snl
    for c in calls(f.node):
        r = None
        if isinstance(c.func, ast.Attribute) and norm(c.func.value) in ('self.llc', 'self'):
            cls = prog.cls(LLC) if norm(c.func.value) == 'self.llc' else prog.cls(SAP)
            r = prog.lookup(cls, c.func.attr)
        if isinstance(r, FuncInfo) and any('snl' in norm(s) and (isinstance(s, ast.Delete) or '.pop(' in norm(s))
                                          for s in walk_no_nested(r.node) if isinstance(s, ast.stmt)):
            purged = True
    # ... and only then: while another socket of the service access point is open (a listening socket whose accepted connection was
    # closed) the name must stay resolvable
    cfg = cfg_of(f)
    last = [(t, 'true') for e, t in cfg.test_nodes.items() if norm(e) in ('len(self.sock_list) == 0', 'not self.sock_list')] + \
           [(t, 'false') for e, t in cfg.test_nodes.items() if norm(e) in ('len(self.sock_list) > 0', 'self.sock_list', 'len(self.sock_list) != 0')]
    dels = [n for n in cfg.nodes if n.kind == 'stmt' and n.ast is not None and isinstance(n.ast, (ast.Delete, ast.Expr, ast.Assign)) and 'snl' in norm(n.ast) and
            (isinstance(n.ast, ast.Delete) or '.pop(' in norm(n.ast))]
    early = [n for n in dels if not last or n in cfg.reachable(cfg.entry, avoid_edges=last)]
    report.check(not early, 'C17-R3', key(f.qname, 'service name released only when the last socket of the access point is gone'),
                 f.loc(early[0].ast) if early else f.loc(),
                 'remove_socket drops the service name although other sockets of the service access point may still be open: the listening '
                 'service becomes unresolvable and its name can be bound a second time')
    report.check(purged, 'C17-R3', key(f.qname, 'service name released together with the address'), f.loc(),
                 'the service name registered by bind-by-name is never removed from llc.snl: after the last socket is closed the '
                 'name still resolves to the freed address and binding the name again fails with EADDRINUSE')
    # the existence test that yields EADDRINUSE reads the same table
    g = prog.func(LLC + '._bind_by_name')
    report.check(any(norm(e) == 'self.snl.get(name) is not None' for e in ast.walk(g.node) if isinstance(e, ast.Compare)),
                 'C17-R3', key(g.qname, 'EADDRINUSE is decided from the name table'), g.loc(),
                 'bind-by-name no longer refuses a name that is already registered')


def rule_errnos(report, prog, res):
    f = prog.func(LLC + '.bind')
    cone = [f] + [prog.func(LLC + '.' + n) for n in ('_bind_by_none', '_bind_by_addr', '_bind_by_name')]
    n = 0
    for g in cone:
        for r in walk_no_nested(g.node):
            if isinstance(r, ast.Raise) and isinstance(r.exc, ast.Call) and norm(r.exc.func) == 'err.Error':
                n += 1
                arg = norm(r.exc.args[0]) if r.exc.args else ''
                name = arg.replace('errno.', '')
                report.check(name in BIND_ERRNOS, 'C17-R4', key(g.qname, 'bind errno within the documented set', r), g.loc(r),
                             'bind() can fail with %s, which is outside {EADDRINUSE, EACCES, EFAULT, EAGAIN} (+ENOTSOCK/EINVAL for '
                             'misuse)' % name)
    report.floor('C17-R4', n, 8)
    # which condition gives which errno
    g = prog.func(LLC + '._bind_by_addr')
    cfg = cfg_of(g)
    for text, want in (('self.sap[addr] is None', 'EADDRINUSE'),):
        t = tests(cfg, text)
        if t:
            raises = [x for x in cfg.reachable(t[0], avoid_edges=[(t[0], 'true')]) if x.kind == 'stmt' and isinstance(x.ast, ast.Raise)]
            okk = any(want in norm(x.ast) for x in raises)
            report.check(okk, 'C17-R4', key(g.qname, 'occupied address -> ' + want), g.loc(),
                         'an occupied address is not answered with %s' % want)
    t = [tn for e, tn in cfg.test_nodes.items() if 'range(32, 64)' in norm(e) or 'RawAccessPoint' in norm(e)]
    raises = [r for r in walk_no_nested(g.node) if isinstance(r, ast.Raise) and 'EACCES' in norm(r)]
    report.check(len(raises) == 1, 'C17-R4', key(g.qname, 'reserved address -> EACCES'), g.loc(),
                 'binding an address below 32 by number is not refused with EACCES')


def rule_delivery(report, prog):
    f = prog.func(LLC + '.dispatch')
    cfg = cfg_of(f)
    subs = [s for s in walk_no_nested(f.node) if isinstance(s, ast.Subscript) and norm(s.value) == 'self.sap'
            and isinstance(s.ctx, ast.Load)]
    idx = sorted(set(norm(s.slice) for s in subs))
    report.check(set(idx) <= {'rcvd_pdu.dsap', 'addr', '1'} and 'rcvd_pdu.dsap' in idx, 'C17-R5',
                 key(f.qname, 'table indexed by the DSAP of the PDU'), f.loc(),
                 'dispatch indexes the SAP table with %r' % idx)
    enq = find(f.node, 'sap.enqueue(rcvd_pdu)')
    lk = find(f.node, 'sap = self.sap[rcvd_pdu.dsap]')
    report.check(len(enq) == 1 and len(lk) == 1, 'C17-R5', key(f.qname, 'PDU enqueued at the SAP found by its DSAP'), f.loc(),
                 'dispatch no longer enqueues at self.sap[rcvd_pdu.dsap]')
    # connect-by-name rewrite
    rw = find(f.node, 'addr = self.snl.get(rcvd_pdu.sn)')
    new = [c for c in ast.walk(f.node) if isinstance(c, ast.Call) and norm(c.func) == 'pdu.Connect']
    okk = len(rw) == 1 and len(new) == 1 and {k.arg: norm(k.value) for k in new[0].keywords} == {
        'dsap': 'addr', 'ssap': 'rcvd_pdu.ssap', 'rw': 'rcvd_pdu.rw', 'miu': 'rcvd_pdu.miu'}
    report.check(okk, 'C17-R5', key(f.qname, 'connect-by-name rewrites DSAP from the local name table, keeps SSAP/RW/MIU'),
                 f.loc(), 'connect-by-name rewrite changed')
    t = tests(cfg, "rcvd_pdu.name == 'CONNECT'")
    report.check(any('rcvd_pdu.dsap == 1' in norm(x.owner.test) for x in t if isinstance(x.owner, ast.If)), 'C17-R5',
                 key(f.qname, 'rewrite only for CONNECT addressed to SAP 1'), f.loc(), 'connect-by-name condition changed')
    # unknown name / unbound -> DM with reason
    dm = [c for c in ast.walk(f.node) if isinstance(c, ast.Call) and norm(c.func) == 'pdu.DisconnectedMode']
    report.check(len(dm) == 1 and [norm(a) for a in dm[0].args][:2] == ['rcvd_pdu.ssap', '1'], 'C17-R5',
                 key(f.qname, 'unknown service name answered with DM to the requester'), f.loc(), 'DM for unknown name changed')
    # SAP.enqueue: match by peer
    g = prog.func(SAP + '.enqueue')
    okk = any(norm(e) == 'rcvd_pdu.ssap == socket.peer or socket.peer is None' for e in ast.walk(g.node) if isinstance(e, ast.BoolOp))
    report.check(okk, 'C17-R5', key(g.qname, 'socket selected by peer == SSAP (or unconnected)'), g.loc(),
                 'socket selection inside a SAP changed')
    okk = any(norm(e) == 'socket.state.LISTEN' for e in ast.walk(g.node) if isinstance(e, ast.Attribute))
    report.check(okk, 'C17-R5', key(g.qname, 'CONNECT goes to the listening socket'), g.loc(), 'CONNECT routing changed')
    # recvfrom returns data and source of the same PDU
    h = prog.func('nfc.llcp.tco.LogicalDataLink.recvfrom')
    ret = [r for r in walk_no_nested(h.node) if isinstance(r, ast.Return)]
    report.check(len(ret) == 1 and norm(ret[0].value) == '(rcvd_pdu.data, rcvd_pdu.ssap) if rcvd_pdu else (None, None)',
                 'C17-R5', key(h.qname, 'returns (data, ssap) of one PDU'), h.loc(), 'recvfrom return value changed')
    s = prog.func('nfc.llcp.tco.LogicalDataLink.sendto')
    ui = [c for c in ast.walk(s.node) if isinstance(c, ast.Call) and norm(c.func) == 'pdu.UnnumberedInformation']
    report.check(len(ui) == 1 and [norm(a) for a in ui[0].args] == ['dest', 'self.addr'], 'C17-R5',
                 key(s.qname, 'UI PDU addressed (dest, own address)'), s.loc(), 'UI PDU addressing changed')
    # the destination the application names reaches the UI PDU untouched: every function of the sendto chain passes its own
    # destination parameter on, in the callee's destination position, and never rebinds it
    chain = [('nfc.llcp.socket.Socket.sendto', 'addr', 'self.llc.sendto', 2),
             (LLC + '.sendto', 'dest', 'socket.sendto', 1),
             ('nfc.llcp.tco.LogicalDataLink.sendto', 'dest', 'pdu.UnnumberedInformation', 0),
             # connect: the name / address the application gives is what the connection asks the peer for (no local short cut
             # through the service discovery cache: the peer resolves a name when the CONNECT arrives)
             ('nfc.llcp.socket.Socket.connect', 'address', 'self.llc.connect', 1),
             (LLC + '.connect', 'dest', 'socket.connect', 0)]
    for q, param, callee, pos in chain:
        fn = prog.func(q)
        if param not in fn.params:
            raise AnalysisError('C17-R5: %s has no parameter %s' % (q, param))
        rebound = [x for x in ast.walk(fn.node) if isinstance(x, ast.Name) and x.id == param and isinstance(x.ctx, (ast.Store, ast.Del))]
        cs = [c for c in ast.walk(fn.node) if isinstance(c, ast.Call) and norm(c.func) == callee]
        okk = not rebound and len(cs) == 1 and len(cs[0].args) > pos and norm(cs[0].args[pos]) == param
        report.check(okk, 'C17-R5', key(q, 'the caller\'s destination address is passed on unchanged'), fn.loc(rebound[0] if rebound else None),
                     '%s %s: a datagram can be addressed to a service access point other than the one the application named'
                     % (q, ('rebinds `%s`' % param) if rebound else ('does not pass `%s` to %s' % (param, callee))))
    snd = prog.func(LLC + '.send')
    cs = [c for c in ast.walk(snd.node) if isinstance(c, ast.Call) and norm(c.func) == 'self.sendto']
    report.check(len(cs) == 1 and [norm(a) for a in cs[0].args] == ['socket', 'message', 'socket.peer', 'flags'], 'C17-R5',
                 key(snd.qname, 'send() addresses the connected peer'), snd.loc(), 'send() no longer sends to socket.peer')
    # a socket's own address is its binding: only bind() writes it (closing goes through the SAP, which needs the address to find
    # and free the entry -- a socket that forgets its address on close() can never be removed, its address and name stay taken)
    wr = []
    for q, fn in sorted(prog.functions.items()):
        if q.startswith('nfc.llcp.tco.') and fn.cls is not None:
            for st in walk_no_nested(fn.node):
                tg = st.targets if isinstance(st, ast.Assign) else [st.target] if isinstance(st, ast.AugAssign) else []
                if any(isinstance(x, ast.Attribute) and norm(x) == 'self.addr' for t in tg for x in ast.walk(t)):
                    wr.append((fn, st))
    bad_ = [(fn, st) for fn, st in wr if fn.name not in ('__init__', 'bind')]
    report.check(len(wr) >= 2 and not bad_, 'C17-R3', key('nfc.llcp.tco', 'a socket address is written by bind() only'),
                 bad_[0][0].loc(bad_[0][1]) if bad_ else 'src/nfc/llcp/tco.py',
                 '%s writes self.addr (`%s`): the service access point can no longer find the socket to release its address'
                 % (bad_[0][0].qname if bad_ else '', norm(bad_[0][1]) if bad_ else ''))
    # service discovery answers come from the local name table; results are stored under the requested name
    # (enqueue() folded by the checker's own evaluator for a received SNL PDU with answers and requests, the tables it works on owned
    # by the fold: answers are stored under the name the TID was sent for, requests are answered from the local table with their TID)
    e = prog.func(SD + '.enqueue')
    from ..q import fold_block, FoldObject, NotConst
    import collections

    class SNL(FoldObject):
        def __init__(self, sdres, sdreq):
            self.sdres, self.sdreq = sdres, sdreq

    class Cond(FoldObject):
        def notify_all(self):
            pass

        def notify(self):
            pass
    body = [st for st in e.node.body if not (isinstance(st, ast.Expr) and isinstance(st.value, ast.Constant))]
    env = {'rcvd_pdu': SNL([(5, 0x11), (6, 0x45), (9, 0x20)], [(1, 'urn:nfc:sn:snep'), (2, 'urn:nfc:sn:none')]),
           'pdu.ServiceNameLookup': SNL, 'self.snl': {'urn:nfc:sn:sdp': 1}, 'self.sent': {5: 'urn:nfc:sn:a', 6: 'urn:nfc:sn:b'},
           'self.tids': [], 'self.resp': Cond(), 'self.llc.snl': {'urn:nfc:sn:sdp': 1, 'urn:nfc:sn:snep': 4},
           'self.sdres': collections.deque(), 'self.sdreq': collections.deque(), 'self.llc.lock': None, 'isinstance': isinstance}
    why = None
    try:
        fold_block(body, env)
    except (NotConst, KeyError, IndexError, TypeError, ValueError) as x:
        why = 'enqueue() cannot be folded: %s: %s' % (type(x).__name__, x)
    ans = list(env['self.sdres'])
    report.check(why is None and ans == [(1, 4), (2, 0)], 'C17-R5', key(e.qname, 'SDRES answers the requested name from llc.snl with the request TID'), e.loc(),
                 'service discovery answer construction changed: %s' % (why or 'requests (1, snep) (2, unknown) answered with %r' % (ans,)))
    got = {k: v for k, v in env['self.snl'].items() if k != 'urn:nfc:sn:sdp'}
    report.check(why is None and got == {'urn:nfc:sn:a': 0x11, 'urn:nfc:sn:b': 1} and sorted(env['self.tids']) == [5, 6], 'C17-R5',
                 key(e.qname, 'SDRES is matched to the request by TID'), e.loc(),
                 'service discovery result matching changed: %s' % (why or 'answers for TID 5, 6 (and the unknown 9) stored as %r, TIDs released %r' % (got, env['self.tids'])))
    d = prog.func(SD + '.dequeue')
    report.check(bool(find(d.node, 'self.sent[tid] = name')), 'C17-R5', key(d.qname, 'request TID remembered when sent'), d.loc(),
                 'sent TID bookkeeping changed')


def rule_once(report, prog):
    f = prog.func(LLC + '.bind')
    cfg = cfg_of(f)
    edges = [(t, 'false') for e, t in cfg.test_nodes.items() if norm(e) == 'socket.addr is not None']
    n = 0
    for c in calls(f.node):
        if isinstance(c.func, ast.Attribute) and c.func.attr.startswith('_bind_by_'):
            n += 1
            node = cfg_node_for(cfg, c)
            okk, p = only_via(cfg, node, edges) if edges else (False, None)
            report.check(okk, 'C17-R6', key(f.qname, 'bound socket refused before', c.func.attr), f.loc(c),
                         'bind() reaches %s for a socket that is already bound' % c.func.attr, fmt(cfg, p))
    report.floor('C17-R6', n, 4)
    raises = [r for t, l in edges for r in ast.walk(t.owner) if isinstance(r, ast.Raise)]
    report.check(bool(raises) and 'EINVAL' in norm(raises[0]), 'C17-R6', key(f.qname, 'second bind -> EINVAL'), f.loc(),
                 'binding a bound socket is not refused with EINVAL')
    # insert_socket binds the socket to the SAP's own address
    g = prog.func(SAP + '.insert_socket')
    report.check(bool(find(g.node, 'socket.bind(self.addr)')), 'C17-R6', key(g.qname, 'socket bound to the address of its SAP'),
                 g.loc(), 'insert_socket no longer binds the socket to the SAP address')



def rule_transaction_ids(report, prog):
    """R5 (service discovery): a transaction id identifies one outstanding request: it leaves the pool when the request is created and
    returns only when the matching response was received -- returning it earlier lets two outstanding requests share an id and the
    first answer is stored under the wrong name."""
    sd = prog.cls('nfc.llcp.llc.ServiceDiscovery')
    n = 0
    for m in sd.methods.values():
        for c in walk_no_nested(m.node):
            if isinstance(c, ast.Call) and isinstance(c.func, ast.Attribute) and norm(c.func.value) == 'self.tids' and c.func.attr in ('append', 'extend', 'insert'):
                n += 1
                loops = [a for a in ancestors(c) if isinstance(a, ast.For) and 'sdres' in norm(a.iter)]
                report.check(m.name == 'enqueue' and bool(loops), 'C17-R5', key(m.qname, 'transaction id returns to the pool only for a received response', c), m.loc(c),
                             '%s gives a transaction id back (`%s`) outside the handling of received SDRES entries: the id can be drawn again while '
                             'its request is still outstanding' % (m.qname, norm(c)))
    report.floor('C17-R5 tids', n, 1)
    r = prog.lookup(sd, 'resolve')
    okk = isinstance(r, FuncInfo) and bool(find(r.node, 'self.tids.remove(tid)')) and bool(find(r.node, 'tid = random.choice(self.tids)'))
    report.check(okk, 'C17-R5', key(sd.qname + '.resolve', 'a request takes its transaction id out of the pool'), r.loc() if isinstance(r, FuncInfo) else sd.qname,
                 'resolve() no longer removes the chosen transaction id from the pool')

def run(report, prog, tier):
    rule_transaction_ids(report, prog)
    res = Resolver(prog)
    rule_no_double(report, prog)
    rule_ranges(report, prog)
    rule_release(report, prog)
    rule_errnos(report, prog, res)
    rule_delivery(report, prog)
    from .c05 import rule_sap_order
    rule_sap_order(report, prog, rule='C17-R5')
    rule_once(report, prog)
    report.assumptions += ['the address table is only modified by the functions of nfc.llcp.llc (checked: stores to self.sap[...])']
    # who writes the table
    writers = set()
    for m in prog.modules.values():
        for st in ast.walk(m.tree):
            if isinstance(st, ast.Assign):
                for t in st.targets:
                    if isinstance(t, ast.Subscript) and norm(t.value).endswith('.sap') and norm(t.value) in ('self.sap', 'self.llc.sap'):
                        fn = [a for a in ancestors(st) if isinstance(a, ast.FunctionDef)]
                        writers.add(getattr(fn[0], '_info').qname if fn else m.name)
    want = {LLC + '.__init__', LLC + '.terminate', LLC + '._bind_by_none', LLC + '._bind_by_addr', LLC + '._bind_by_name',
            SAP + '.remove_socket'}
    report.check(writers == want, 'C17-R1', key('address table writers', 'only bind / remove_socket / terminate'), 'src/nfc/llcp/llc.py',
                 'functions writing the SAP table: %s' % sorted(writers ^ want))


L = 'nfc.llcp.llc'
T = 'nfc.llcp.tco'
MUTANTS = [
    ('bind-by-addr-shares-existing-sap', 'nfc.llcp.llc', """                if self.sap[addr] is None:
                    socket.bind(addr)
                    self.sap[addr] = ServiceAccessPoint(addr, self)
                    self.sap[addr].insert_socket(socket)
                else:
                    raise err.Error(errno.EADDRINUSE)""", """                if self.sap[addr] is None:
                    self.sap[addr] = ServiceAccessPoint(addr, self)
                if not self.sap[addr].insert_socket(socket):
                    raise err.Error(errno.EADDRINUSE)""", 'C17-R1'),
    ('dlc-close-forgets-address', 'nfc.llcp.tco', """            super(DataLinkConnection, self).close()
            self.acks_ready.notify_all()""", """            super(DataLinkConnection, self).close()
            self.addr = None
            self.acks_ready.notify_all()""", 'C17-R3'),
    ('sendto-dest-from-peer', L, """        if isinstance(socket, tco.LogicalDataLink):
            if dest is None:""", """        if isinstance(socket, tco.LogicalDataLink):
            dest = socket.peer or dest
            if dest is None:""", 'C17-R5'),
    ('socket-sendto-wrong-position', 'nfc.llcp.socket', "return self.llc.sendto(self._tco, data, addr, flags)", "return self.llc.sendto(self._tco, data, flags, addr)", 'C17-R5'),
    ('bind-addr-no-free-test', L, """                if self.sap[addr] is None:
                    socket.bind(addr)
                    self.sap[addr] = ServiceAccessPoint(addr, self)
                    self.sap[addr].insert_socket(socket)
                else:
                    raise err.Error(errno.EADDRINUSE)""", """                if True:
                    socket.bind(addr)
                    self.sap[addr] = ServiceAccessPoint(addr, self)
                    self.sap[addr].insert_socket(socket)""", 'C17-R1'),
    ('wks-overwrite', L, """            elif self.sap[addr] is not None:
                raise err.Error(errno.EADDRINUSE)
""", "", 'C17-R1'),
    ('anon-range-offset', L, 'addr = 32 + self.sap[32:64].index(None)', 'addr = 32 + self.sap[31:64].index(None)', 'C17-R'),
    ('named-range-overlap', L, 'addr = 16 + self.sap[16:32].index(None)', 'addr = 16 + self.sap[16:33].index(None)', 'C17-R'),
    ('explicit-range-wide', L, 'if addr in range(32, 64) or isinstance(socket, tco.RawAccessPoint):',
     'if addr in range(16, 64) or isinstance(socket, tco.RawAccessPoint):', 'C17-R2'),
    ('snep-moved', L, 'b"urn:nfc:sn:snep": 4,', 'b"urn:nfc:sn:snep": 16,', 'C17-R2'),
    ('name-not-released', L, """                for name, addr in list(self.llc.snl.items()):
                    if addr == self.addr:
                        del self.llc.snl[name]
""", "", 'C17-R3'),
    ('name-in-use-untested', L, """            if self.snl.get(name) is not None:
                raise err.Error(errno.EADDRINUSE)
""", "", 'C17-R3'),
    ('exhaustion-enomem', L, 'raise err.Error(errno.EAGAIN)', 'raise err.Error(errno.ENOMEM)', 'C17-R4'),
    ('dispatch-by-ssap', L, 'sap = self.sap[rcvd_pdu.dsap]', 'sap = self.sap[rcvd_pdu.ssap]', 'C17-R5'),
    ('connect-by-name-keeps-dsap', L, 'rcvd_pdu = pdu.Connect(dsap=addr, ssap=rcvd_pdu.ssap,', 'rcvd_pdu = pdu.Connect(dsap=1, ssap=rcvd_pdu.ssap,', 'C17-R5'),
    ('recvfrom-wrong-source', T, 'return (rcvd_pdu.data, rcvd_pdu.ssap) if rcvd_pdu else (None, None)',
     'return (rcvd_pdu.data, rcvd_pdu.dsap) if rcvd_pdu else (None, None)', 'C17-R5'),
    ('sdres-from-remote-table', L, 'sap = self.llc.snl[name]', 'sap = self.snl[name]', 'C17-R5'),
    ('peer-match-dropped', L, 'if rcvd_pdu.ssap == socket.peer or socket.peer is None:', 'if True:', 'C17-R5'),
    ('rebind-allowed', L, """        if socket.addr is not None:
            raise err.Error(errno.EINVAL)
""", "", 'C17-R6'),
    ('unlocked-anon-bind', L, """    def _bind_by_none(self, socket):
        with self.lock:""", """    def _bind_by_none(self, socket):
        if True:""", 'C17-R1'),
]

EXPLANATION += ' Round 5: a bind inserts the socket only into the access point it has just created (dominance).'
