# -*- coding: utf-8 -*-
"""C09 -- when the LLCP link ends no application thread is left waiting (structural clauses)."""
import ast

from ..model import norm, head, walk_no_nested, AnalysisError, FuncInfo, ClassInfo, enclosing_stmt, ancestors, last_live
from ..cfg import CFG, cfg_of
from ..resolve import Resolver, Ctx
from ..escape import Escape, fmt_chain, items_sorted
from ..lock import lexical_locks
from ..q import find, match, try_const, only_via, tests, stmt_nodes, one, fmt, cfg_node_for, calls
from ..core import key

LLC = 'nfc.llcp.llc.LogicalLinkController'
TCO = 'nfc.llcp.tco.TransmissionControlObject'
EXPLANATION = (
    'R1 every path through LogicalLinkController.terminate() -- including exits by exceptions that may escape '
    'mac.deactivate()/exchange(), computed by the exception-escape analysis with clf.exchange as interface summary -- '
    'passes the SAP shutdown loop and the SHUTDOWN state store; R2 every exception class that may leave the try body of '
    'the two run loops has a handler that calls terminate(); R3 every Condition created in the transmission control '
    'objects and service discovery is notify_all()-ed under the lock by close()/shutdown() together with the state '
    'the waiters re-test; R4 every untimed wait() is executed in a locked region in which the shutdown indicator was '
    'tested before the wait, in the function itself or in every caller that holds the re-entrant lock across the call '
    '(otherwise check-then-wait loses the wake-up), and callers map the IndexError of an emptied queue; R5 accesses to '
    'the SAP table from application threads test for None under the lock; R6 service threads catch nfc.llcp.Error and '
    'close their socket.  Bounded time and bytecode-level schedules are not decided.')

CLF_EXCHANGE_RAISES = ['nfc.clf.TimeoutError', 'nfc.clf.TransmissionError', 'nfc.clf.ProtocolError',
                       'nfc.clf.BrokenLinkError', 'OSError']
BOUNDARIES = {
    'nfc.clf.ContactlessFrontend.exchange': CLF_EXCHANGE_RAISES,
    'nfc.clf.ContactlessFrontend.sense': ['nfc.clf.UnsupportedTargetError', 'OSError', 'ValueError'],
    'nfc.clf.ContactlessFrontend.listen': ['nfc.clf.UnsupportedTargetError', 'OSError', 'ValueError', 'AssertionError'],
}
SHUTDOWN_TESTS = ('self.state.SHUTDOWN', 'self.state.ESTABLISHED', 'self.state.CLOSED', 'self.state.LISTEN',
                  'self.state.CLOSE_WAIT', 'self.snl is None', 'self.snl is not None')


def rule_terminate(report, prog, res):
    f = prog.func(LLC + '.terminate')
    results = {}
    for root in ('nfc.dep.Initiator', 'nfc.dep.Target'):
        esc = Escape(prog, res, boundaries=BOUNDARIES, asserts=False)
        ctx = Ctx(prog.cls(LLC))

        def may_raise(node, esc=esc, ctx=ctx):
            r = esc.of_stmt(f, ctx, node)
            return bool(r)
        cfg = CFG(f.node, may_raise=may_raise)
        loops = [n for n in cfg.nodes if n.kind == 'for' and 'range(63' in norm(n.ast.iter)]
        shut = stmt_nodes(cfg, 'self.link.SHUTDOWN = True')
        sapshut = [n for n in cfg.nodes if n.kind == 'stmt' and n.ast is not None and '.shutdown()' in norm(n.ast)]
        if not loops or not shut or not sapshut:
            report.fail('C09-R1', key(f.qname, 'shutdown loop exists'), f.loc(),
                        'terminate() no longer shuts down the service access points / sets link SHUTDOWN')
            return
        for exit_node, what in ((cfg.exit, 'normal return'), (cfg.raise_exit, 'exceptional exit')):
            for must, mw in ((loops[0], 'SAP shutdown loop'), (shut[0], 'link.SHUTDOWN store')):
                reach = cfg.reachable(cfg.entry, avoid_nodes=[must])
                okk = exit_node not in reach
                wit = []
                if not okk:
                    p = cfg.path(cfg.entry, exit_node, avoid_nodes=[must])
                    wit = [cfg.fmt_path(p)]
                    # name the raising call
                    for n in p:
                        if any(m is cfg.raise_exit for m, l in n.succ if l == 'exc') and n.ast is not None:
                            r = esc.of_stmt(f, ctx, n.ast if isinstance(n.ast, ast.stmt) else enclosing_stmt(n.ast))
                            for it in items_sorted(r):
                                wit.append('%s may raise %s: %s' % (norm(n.ast)[:50], it.exc, ' <- '.join(fmt_chain(it, 4)[-2:])))
                results[(what, mw)] = okk
                report.check(okk, 'C09-R1', key(f.qname, what, 'passes ' + mw), f.loc(),
                             'terminate() can leave by %s without passing the %s: sockets stay open and blocked '
                             'callers are never woken' % (what, mw), wit)
        break
    # the loop shuts down *every* SAP: range(63, -1, -1) covers 0..63 and nulls the entry
    it = try_const(loops[0].ast.iter)
    report.check(it is not None and sorted(it) == list(range(64)), 'C09-R1', key(f.qname, 'loop covers SAP 0..63'),
                 f.loc(loops[0].ast), 'shutdown loop does not cover all 64 service access points: %s' % norm(loops[0].ast.iter))


def rule_runloops(report, prog, res):
    for name in ('run_as_initiator', 'run_as_target'):
        f = prog.func(LLC + '.' + name)
        ctx = Ctx(prog.cls(LLC))
        tries = [s for s in f.node.body if isinstance(s, ast.Try)]
        if len(tries) != 1:
            raise AnalysisError('C09-R2: %s has %d top-level try statements' % (name, len(tries)))
        t = tries[0]
        esc = Escape(prog, res, boundaries=BOUNDARIES, asserts=False,
                     skip_funcs=[LLC + '.terminate'])
        body = {}
        env = {'func': f, 'ctx': ctx, 'depth': 0, 'caught': None, 'caught_name': None}
        esc._done = set()
        body = esc._block(t.body, env)
        n = 0
        for it in items_sorted(body):
            e = it.exc
            handler = None
            for h in t.handlers:
                if esc._handler_matches(f, h, e):
                    handler = h
                    break
            n += 1
            k = key(f.qname, '%s raised in %s reaches a handler that terminates the link' % (e, it.site_func), it.site_text)
            if handler is None:
                report.fail('C09-R2', k, f.loc(t), '%s may leave %s without the link being terminated' % (e, name),
                            fmt_chain(it))
                continue
            term = [c for c in ast.walk(handler) if isinstance(c, ast.Call) and norm(c.func) == 'self.terminate']
            report.check(bool(term), 'C09-R2', k, f.loc(handler),
                         'handler for %s in %s does not call self.terminate()' % (e, name))
        report.stats['%s_body_escape_classes' % name] = n
        # every normal exit of the loop goes through terminate(): `return self.terminate(..)` / else branch
        cfg = cfg_of(f)
        term_nodes = [x for x in cfg.nodes if x.ast is not None and x.kind == 'stmt' and 'self.terminate(' in norm(x.ast)]
        reach = cfg.reachable(cfg.entry, avoid_nodes=term_nodes, labels_excluded=('exc',))
        report.check(cfg.exit not in reach, 'C09-R2', key(f.qname, 'every normal exit passes terminate()'), f.loc(),
                     '%s can return without terminating the link' % name,
                     fmt(cfg, cfg.path(cfg.entry, cfg.exit, avoid_nodes=term_nodes, labels_excluded=('exc',))))


def conditions_of(prog, cls):
    out = {}
    for c in prog.mro(cls):
        if isinstance(c, ClassInfo) and '__init__' in c.methods:
            for n, b in find(c.methods['__init__'].node, 'self.$A = $C'):
                if isinstance(b['C'], ast.Call) and norm(b['C'].func) == 'threading.Condition':
                    out[b['A']] = (c, b['C'])
    return out


def closure_of_close(prog, cls, name):
    """Statements executed by cls.<name>() following super().<name>() calls."""
    out = []
    seen = set()
    f = prog.lookup(cls, name)
    while isinstance(f, FuncInfo) and f.qname not in seen:
        seen.add(f.qname)
        out.append(f)
        nxt = None
        for c in ast.walk(f.node):
            if isinstance(c, ast.Call) and isinstance(c.func, ast.Attribute) and c.func.attr == name \
                    and isinstance(c.func.value, ast.Call) and norm(c.func.value.func) == 'super':
                nxt = prog.lookup(cls, name, after=f.owner_class)
        f = nxt
    return out


def rule_notify(report, prog, res):
    n = 0
    for cq, closer, state_text in (('nfc.llcp.tco.RawAccessPoint', 'close', 'self.state.SHUTDOWN = True'),
                                   ('nfc.llcp.tco.LogicalDataLink', 'close', 'self.state.SHUTDOWN = True'),
                                   ('nfc.llcp.tco.DataLinkConnection', 'close', 'self.state.SHUTDOWN = True'),
                                   ('nfc.llcp.llc.ServiceDiscovery', 'shutdown', 'self.snl = None')):
        cls = prog.cls(cq)
        conds = conditions_of(prog, cls)
        chain = closure_of_close(prog, cls, closer)
        for attr in sorted(conds):
            n += 1
            hit = None
            for f in chain:
                for c in ast.walk(f.node):
                    if isinstance(c, ast.Call) and norm(c.func) == 'self.%s.notify_all' % attr:
                        # unconditional within the function and under the lock
                        st = enclosing_stmt(c)
                        conds_above = [a for a in ancestors(st) if isinstance(a, (ast.If, ast.While, ast.For, ast.Try))
                                       and a is not f.node]
                        locked = any(isinstance(a, ast.With) for a in ancestors(st))
                        # ... and on every path through the function: no normal exit is reachable without passing the call
                        # (an early `return` in front of it -- "already closed" -- leaves the waiters asleep)
                        g_ = cfg_of(f)
                        cn = cfg_node_for(g_, st)
                        bypass = cn is None or g_.exit in g_.reachable(g_.entry, avoid_nodes=[cn], labels_excluded=('exc',))
                        if not conds_above and locked and not bypass:
                            hit = (f, c)
            report.check(hit is not None, 'C09-R3', key(cq, '%s() notify_all on %s under the lock' % (closer, attr)),
                         chain[0].loc(), '%s.%s() does not unconditionally notify_all() waiters of %s' % (cls.name, closer, attr))
        st_found = any(norm(s) == state_text for f in chain for s in walk_no_nested(f.node) if isinstance(s, ast.Assign))
        report.check(st_found, 'C09-R3', key(cq, '%s() sets the state waiters re-test' % closer, state_text), chain[0].loc(),
                     '%s.%s() no longer sets %s' % (cls.name, closer, state_text))
        # queues are emptied so that a woken receiver sees the closed socket (IndexError -> EPIPE)
        if closer == 'close':
            cleared = any(norm(c.func) == 'self.recv_queue.clear' for f in chain for c in ast.walk(f.node) if isinstance(c, ast.Call))
            report.check(cleared, 'C09-R3', key(cq, 'close() clears the receive queue'), chain[0].loc(),
                         '%s.close() leaves PDUs in the receive queue (a woken receiver would not see the closed socket)' % cls.name)
    report.floor('C09-R3', n, 9)
    # SAP shutdown closes every socket; ServiceAccessPoint.shutdown pops until empty
    f = prog.func('nfc.llcp.llc.ServiceAccessPoint.shutdown')
    okk = bool(find(f.node, 'socket.close()')) and bool(find(f.node, 'socket = self.sock_list.pop()')) \
        and any(isinstance(x, ast.While) for x in walk_no_nested(f.node))
    report.check(okk, 'C09-R3', key(f.qname, 'closes every socket of the SAP'), f.loc(),
                 'ServiceAccessPoint.shutdown does not close all sockets')


def _shutdown_test_before(func, node, region):
    """Is a shutdown-indicator test evaluated inside `region` (a With statement) before `node`?"""
    cfg = cfg_of(func)
    target = cfg_node_for(cfg, node)
    wn = cfg.node_of(region)
    if target is None or wn is None:
        return False
    tnodes = [n for e, n in cfg.test_nodes.items()
              if any(t in norm(e) for t in SHUTDOWN_TESTS) and any(a is region for a in ancestors(e))]
    if not tnodes:
        return False
    reach = cfg.reachable(wn, avoid_nodes=tnodes)
    return target not in reach


def _lock_region(node, func):
    for a in ancestors(node):
        if a is func.node:
            return None
        if isinstance(a, ast.With) and any(norm(i.context_expr).startswith('self.') for i in a.items):
            return a
    return None


def rule_waits(report, prog, res):
    sites = []
    classes = [prog.cls(q) for q in (TCO, 'nfc.llcp.tco.RawAccessPoint', 'nfc.llcp.tco.LogicalDataLink',
                                     'nfc.llcp.tco.DataLinkConnection', 'nfc.llcp.llc.ServiceDiscovery')]
    for c in classes:
        for m in c.methods.values():
            for call in walk_no_nested(m.node):
                if isinstance(call, ast.Call) and isinstance(call.func, ast.Attribute) and call.func.attr == 'wait' \
                        and norm(call.func.value).startswith('self.'):
                    sites.append((c, m, call))
    report.floor('C09-R4', len(sites), 7)
    for c, m, call in sites:
        region = _lock_region(call, m)
        cond = norm(call.func.value)
        k0 = key(m.qname, 'wait on %s' % cond)
        if region is None:
            report.fail('C09-R4', k0 + ' | inside with', m.loc(call), 'wait() outside a `with` on its Condition')
            continue
        timed = bool(call.args)
        loops = [a for a in ancestors(call) if isinstance(a, ast.While)]
        if loops:
            okl = any(t in norm(loops[0].test) for t in SHUTDOWN_TESTS)
            report.check(okl, 'C09-R4', k0 + ' | wait loop re-tests the shutdown state', m.loc(loops[0]),
                         'the loop around wait() in %s does not test the shutdown indicator: a thread woken by close() '
                         'goes back to waiting (or fails with a foreign exception)' % m.qname)
        if _shutdown_test_before(m, call, region):
            report.ok('C09-R4', k0 + ' | shutdown state tested inside the locked region', m.loc(call))
            continue
        # the function itself does not test: every caller must hold the lock across the call and test before
        callers = []
        for c2 in classes:
            for m2 in c2.methods.values():
                if m2 is m:
                    continue
                for cc in walk_no_nested(m2.node):
                    if isinstance(cc, ast.Call) and isinstance(cc.func, ast.Attribute) and cc.func.attr == m.name \
                            and isinstance(cc.func.value, ast.Call) and norm(cc.func.value.func) == 'super' \
                            and prog.lookup(c2, m.name, after=c2) is m:
                        callers.append((c2, m2, cc))
        if not callers:
            report.check(timed, 'C09-R4', k0 + ' | no caller tests the state', m.loc(call),
                         'untimed wait() in %s without a shutdown-state test in its locked region' % m.qname)
            continue
        for c2, m2, cc in callers:
            reg2 = _lock_region(cc, m2)
            okk = reg2 is not None and _shutdown_test_before(m2, cc, reg2)
            event = ''
            if m.name == 'poll' and len(cc.args) >= 1:
                event = ' (%s)' % norm(cc.args[0])
            report.check(okk, 'C09-R4', key(m.qname, 'wait on %s' % cond, 'caller %s tests the state under the lock' % m2.qname),
                         m2.loc(cc),
                         '%s tests the socket state outside the lock and then blocks in %s%s: if close() runs in between, '
                         'the notify_all() is lost and the thread waits %s' % (
                             m2.qname.replace('nfc.llcp.tco.', ''), m.qname.replace('nfc.llcp.tco.', ''), event,
                             'for the full timeout' if timed else 'forever'),
                         ['wait site %s' % m.loc(call)])
    # callers of the base recv() map the IndexError of an emptied queue
    base_recv = prog.func(TCO + '.recv')
    n = 0
    for c2 in classes:
        for m2 in c2.methods.values():
            for cc in walk_no_nested(m2.node):
                if isinstance(cc, ast.Call) and isinstance(cc.func, ast.Attribute) and cc.func.attr == 'recv' \
                        and isinstance(cc.func.value, ast.Call) and norm(cc.func.value.func) == 'super':
                    n += 1
                    tr = [a for a in ancestors(cc) if isinstance(a, ast.Try)
                          and any('IndexError' in norm(h.type) for h in a.handlers if h.type is not None)]
                    report.check(bool(tr), 'C09-R4', key(m2.qname, 'IndexError of a closed socket is mapped'), m2.loc(cc),
                                 '%s does not catch the IndexError raised when the socket was closed while waiting' % m2.qname)
    report.floor('C09-R4 recv callers', n, 6)


def rule_saptable(report, prog, res):
    cls = prog.cls(LLC)
    run_thread = {'dispatch', 'collect', 'terminate', 'run_as_initiator', 'run_as_target', 'exchange', 'activate',
                  '__init__', '_bind_by_none', '_bind_by_addr', '_bind_by_name'}
    n = 0
    for m in cls.methods.values():
        if m.name in run_thread:
            continue
        for sub in walk_no_nested(m.node):
            if isinstance(sub, ast.Subscript) and norm(sub.value) == 'self.sap' and isinstance(sub.ctx, ast.Load):
                par = getattr(sub, '_parent', None)
                if not (isinstance(par, ast.Attribute) and par.value is sub):
                    continue        # value use (truthiness test) is fine
                n += 1
                held = lexical_locks(sub, m.node, {'self.lock': 'lock'})
                cfg = cfg_of(m)
                text = norm(sub)
                tnodes = [(t, 'true') for e, t in cfg.test_nodes.items() if norm(e) == text] + \
                         [(t, 'false') for e, t in cfg.test_nodes.items() if norm(e) == text + ' is None'] + \
                         [(t, 'true') for e, t in cfg.test_nodes.items() if norm(e) == text + ' is not None']
                target = cfg_node_for(cfg, sub)
                okk, p = only_via(cfg, target, tnodes) if tnodes else (False, None)
                report.check(okk and 'lock' in held, 'C09-R5',
                             key(m.qname, 'SAP table entry tested for None under the lock', sub), m.loc(sub),
                             '%s dereferences %s without a None test under the lock: after terminate() has cleared the table '
                             'this raises AttributeError instead of nfc.llcp.Error' % (m.qname.replace('nfc.llcp.llc.', ''), text))
    report.floor('C09-R5', n, 2)
    # terminate() runs on the link thread while application threads may close their last socket (remove_socket clears the table
    # entry under the lock): it must not read an entry twice -- test and use go through one local read, else the second read can be
    # None, the AttributeError leaves the finally block and neither the remaining access points nor the link state are shut down
    t = cls.methods['terminate']
    twice = [sub for sub in walk_no_nested(t.node) if isinstance(sub, ast.Subscript) and norm(sub.value) == 'self.sap' and isinstance(sub.ctx, ast.Load)
             and isinstance(getattr(sub, '_parent', None), ast.Attribute) and sub._parent.value is sub
             and 'lock' not in lexical_locks(sub, t.node, {'self.lock': 'lock'})]
    loads = [sub for sub in walk_no_nested(t.node) if isinstance(sub, ast.Subscript) and norm(sub.value) == 'self.sap' and isinstance(sub.ctx, ast.Load)]
    report.check(bool(loads) and not twice, 'C09-R5', key(t.qname, 'a table entry is read once before it is tested and shut down'), t.loc(twice[0]) if twice else t.loc(),
                 'terminate() dereferences %s directly after testing it in a separate read: a socket closing on another thread can clear the entry '
                 'in between (AttributeError, the shutdown of the other access points and of the link state is skipped)' % (norm(twice[0]) if twice else ''))


def rule_shutdown_order(report, prog, res):
    """R7: link termination closes sockets on the run-loop thread.  DataLinkConnection.close() performs the graceful DISC / DM
    handshake (and blocks in recv() for the answer) only while the socket is bound; the answer could only be delivered by the very
    thread that is blocked.  ServiceAccessPoint.shutdown() therefore unbinds every socket before closing it."""
    f = prog.func('nfc.llcp.llc.ServiceAccessPoint.shutdown')
    cfg = cfg_of(f)
    closes = [c for c in walk_no_nested(f.node) if isinstance(c, ast.Call) and isinstance(c.func, ast.Attribute) and c.func.attr == 'close']
    n = 0
    for c in closes:
        n += 1
        recv = norm(c.func.value)
        unb = [cfg_node_for(cfg, u) for u in walk_no_nested(f.node) if isinstance(u, ast.Call) and norm(u.func) == recv + '.bind' and
               len(u.args) == 1 and norm(u.args[0]) == 'None']
        tgt = cfg_node_for(cfg, c)
        okk = bool(unb) and tgt not in cfg.reachable(cfg.entry, avoid_nodes=unb)
        report.check(okk, 'C09-R7', key(f.qname, 'socket is unbound before it is closed', c), f.loc(c),
                     '%s.close() can run while the socket is still bound: an established data link connection then sends DISC and waits for the '
                     'DM answer on the run-loop thread, which is the thread that would have to deliver it (terminate() never returns)' % recv)
    report.floor('C09-R7', n, 1)
    d = prog.func('nfc.llcp.tco.DataLinkConnection.close')
    g = [i for i in walk_no_nested(d.node) if isinstance(i, ast.If) and 'self.is_bound' in norm(i.test) and 'ESTABLISHED' in norm(i.test)]
    report.check(len(g) == 1, 'C09-R7', key(d.qname, 'graceful disconnect only while the socket is bound'), d.loc(),
                 'DataLinkConnection.close no longer skips the DISC handshake for an unbound socket')
    # application-thread removal: the SAP socket list is the only index terminate() walks to wake blocked callers, so a socket
    # leaves it (and the SAP leaves the table) only after its -- possibly blocking -- close() has returned
    r = prog.func('nfc.llcp.llc.ServiceAccessPoint.remove_socket')
    cfg = cfg_of(r)
    sock = r.params[1] if len(r.params) > 1 else 'socket'
    closes = [cfg_node_for(cfg, c) for c in walk_no_nested(r.node) if isinstance(c, ast.Call) and norm(c.func) == sock + '.close']
    unlist = [x for x in walk_no_nested(r.node)
              if (isinstance(x, ast.Call) and norm(x.func) in ('self.sock_list.remove', 'self.sock_list.pop', 'self.sock_list.clear'))
              or (isinstance(x, ast.Assign) and norm(x.targets[0]).startswith('self.llc.sap[') and norm(x.value) == 'None')
              or (isinstance(x, ast.Delete) and any(norm(t).startswith(('self.llc.sap[', 'self.sock_list')) for t in x.targets))]
    if not closes or len(unlist) < 2:
        raise AnalysisError('C09-R7: remove_socket: close / unlist statements not found')
    for x in unlist:
        tgt = cfg_node_for(cfg, x)
        okk = tgt is not None and tgt not in cfg.reachable(cfg.entry, avoid_nodes=closes)
        report.check(okk, 'C09-R7', key(r.qname, 'socket closed before it is taken off the table terminate() walks', head(x) if isinstance(x, ast.stmt) else x), r.loc(x),
                     'remove_socket can unlist the socket (%s) before %s.close() has returned: a close() that waits for the peer is then '
                     'invisible to terminate() and is never woken when the link ends' % (norm(x)[:50], sock))


def rule_service_threads(report, prog, res):
    for q, loop_fn, serve_fn in (('nfc.snep.server.SnepServer', '_listen', '_serve'),
                                 ('nfc.handover.server.HandoverServer', 'listen', 'serve')):
        cls = prog.cls(q)
        f = prog.lookup(cls, loop_fn)
        if not isinstance(f, FuncInfo):
            raise AnalysisError('C09-R6: %s.%s not found' % (q, loop_fn))
        tries = [t for t in ast.walk(f.node) if isinstance(t, ast.Try)]
        okk = False
        fin = False
        for t in tries:
            for h in t.handlers:
                if h.type is not None and 'nfc.llcp.Error' in norm(h.type):
                    okk = True
            if t.finalbody and any('.close()' in norm(s) for s in t.finalbody):
                fin = True
        report.check(okk, 'C09-R6', key(f.qname, 'accept loop catches nfc.llcp.Error'), f.loc(),
                     'service thread %s does not catch nfc.llcp.Error: it dies with a traceback / never exits cleanly' % f.qname)
        report.check(fin, 'C09-R6', key(f.qname, 'socket closed in finally'), f.loc(),
                     'service thread %s does not close its listen socket in a finally clause' % f.qname)
        # an error of accept() ends the loop: after link termination accept() keeps raising (ESHUTDOWN, EPIPE, EBADF ...), a handler
        # inside the loop that carries on for some error codes makes the thread spin for ever
        for lp in [l for l in walk_no_nested(f.node) if isinstance(l, ast.While)]:
            for t in [t for t in ast.walk(lp) if isinstance(t, ast.Try)]:
                for h in t.handlers:
                    if h.type is None or any(w in norm(h.type) for w in ('nfc.llcp.Error', 'IOError', 'OSError', 'Exception')):
                        # every path through the handler leaves the loop: it ends in break / return / raise and has no continue
                        leaves = isinstance(last_live(h.body), (ast.Break, ast.Return, ast.Raise)) and \
                            not any(isinstance(x, ast.Continue) for x in ast.walk(h))
                        report.check(leaves, 'C09-R6', key(f.qname, 'a socket error inside the accept loop leaves the loop', h.type), f.loc(h),
                                     'service thread %s handles %s inside its accept loop and carries on: once the link is terminated accept() raises on '
                                     'every call and the thread never exits' % (f.qname, norm(h.type) if h.type is not None else 'any exception'))
        # the per-connection thread body
        for sname in (serve_fn,):
            g = prog.lookup(cls, sname)
            if isinstance(g, FuncInfo):
                tr = [t for t in ast.walk(g.node) if isinstance(t, ast.Try)]
                okk = any(h.type is not None and 'nfc.llcp.Error' in norm(h.type) for t in tr for h in t.handlers)
                fin = any(t.finalbody and any('.close()' in norm(s) for s in t.finalbody) for t in tr)
                report.check(okk and fin, 'C09-R6', key(g.qname, 'serve thread catches nfc.llcp.Error and closes'), g.loc(),
                             'connection thread %s does not catch nfc.llcp.Error / close its socket' % g.qname)


def run(report, prog, tier):
    res = Resolver(prog)
    rule_terminate(report, prog, res)
    rule_runloops(report, prog, res)
    rule_notify(report, prog, res)
    rule_waits(report, prog, res)
    rule_saptable(report, prog, res)
    rule_service_threads(report, prog, res)
    rule_shutdown_order(report, prog, res)
    # terminate() calls mac.deactivate() before it shuts the access points down: the NFC-DEP release handshake has to end whatever the
    # peer does (loops bounded by counters / a deadline that is not re-armed, C04-R5) -- reported here as C09-R8
    from . import c04
    report.run_as({'C04-R5': 'C09-R8'}, c04.rule_loops, prog)
    report.run_as({'C04-R5': 'C09-R8'}, c04.rule_deadlines, prog)
    report.trusted += ['interface summary: ContactlessFrontend.exchange raises only CommunicationError subclasses or IOError (property C13)',
                       'threading.RLock is re-entrant: a caller holding it keeps it across super() calls']
    report.assumptions += ['terminate(), dispatch() and collect() run in the link thread only']


# ---------------------------------------------------------------------------- reasoned suppressions
from .. import triage   # noqa: E402

def _header_in_range(f):
    """decode_header folded for every pair of header octets: both addresses come out in 0..63"""
    from ..q import fold_block
    body = [st for st in f.node.body if not (isinstance(st, ast.Expr) and isinstance(st.value, ast.Constant))]
    try:
        for a in range(0, 256, 3):
            for b in (0, 1, 63, 64, 127, 128, 191, 255, a):
                r = fold_block(body, {'data': bytes([a, b]), 'offset': 0, 'size': None, 'cls.header_size': 2})
                if not (r[0] == 'return' and isinstance(r[1], tuple) and len(r[1]) == 2 and all(isinstance(x, int) and 0 <= x <= 63 for x in r[1])):
                    return False
    except Exception:
        return False
    return True


_R = 'reaches a handler that terminates the link'
for _fn in ('run_as_initiator', 'run_as_target'):
    triage.add('C09', 'C09-R2',
               key(LLC + '.' + _fn, 'AttributeError raised in nfc.llcp.pdu.encode ' + _R,
                   'raise AttributeError("can\'t encode %s" % type(pdu))'),
               'pdu.encode() is only handed ProtocolDataUnit instances: PDUs built by the link controller / sockets, and raw '
               'access point messages are type-checked by llc.sendto (isinstance(message, pdu.ProtocolDataUnit))',
               [(LLC + '.sendto', 'text:isinstance(message, pdu.ProtocolDataUnit)')])
    triage.add('C09', 'C09-R2',
               key(LLC + '.' + _fn, 'ValueError raised in nfc.dep.Target.exchange ' + _R,
                   "raise ValueError('send_data must not be empty')"),
               'send_data is the encoding of a PDU, which always starts with the 2-byte header (C11-R1: every encode() '
               'length form has constant part >= 2)',
               [('nfc.llcp.pdu.ProtocolDataUnit.encode_header', "struct.pack('!H', $W)"),
                (LLC + '.exchange', 'send_data = pdu.encode(send_pdu)')])
    for _msg in ('< 0', '> 63', 'None'):
        triage.add('C09', 'C09-R2',
                   key(LLC + '.' + _fn, 'nfc.llcp.pdu.EncodeError raised in nfc.llcp.pdu.ProtocolDataUnit.encode_header ' + _R,
                       "raise EncodeError('pdu dsap and ssap field can not be %s')" % _msg),
                   'encode_header() outside llc.exchange (whose handler catches pdu.Error) is only applied to UI/I PDUs that '
                   'were decoded from the peer (SAPs masked to 0..63 by decode_header) or created by bound sockets (bind '
                   'range-checks the address); a raw access point, the test facility that bypasses the checks by design, is '
                   'out of scope',
                   [('nfc.llcp.pdu.ProtocolDataUnit.decode_header', _header_in_range),
                    (LLC + '._bind_by_addr', 'text:addr < 0 or addr > 63'),
                    (LLC + '.exchange', 'text:pdu.Error')])


L = 'nfc.llcp.llc'
T = 'nfc.llcp.tco'
MUTANTS = [
    ('tco-close-early-return', 'nfc.llcp.tco', """    def close(self):
        with self.lock:
            self.send_queue.clear()""", """    def close(self):
        with self.lock:
            if self.state.SHUTDOWN:
                return
            self.send_queue.clear()""", 'C09-R3'),
    ('target-deactivate-deadline-per-request', 'nfc.dep', "                        res = ATN(self.did, self.nad)\n                    else:\n                        res = INF(req.pfb.pni, data, self.did, self.nad)", "                        res = ATN(self.did, self.nad)\n                        deadline = time.time() + 1.0\n                    else:\n                        res = INF(req.pfb.pni, data, self.did, self.nad)", 'C09-R8'),
    ('terminate-reads-table-entry-twice', 'nfc.llcp.llc', """                sap = self.sap[i]  # may be removed by a closing socket
                if sap is not None:
                    log.debug("closing service access point %d" % i)
                    sap.shutdown()""", """                if self.sap[i] is not None:
                    log.debug("closing service access point %d" % i)
                    self.sap[i].shutdown()""", 'C09-R5'),
    ('remove-socket-unlists-first', 'nfc.llcp.llc', """        socket.close()
        with self.llc.lock:
            try:
                self.sock_list.remove(socket)
            except ValueError:
                pass
""", """        with self.llc.lock:
            try:
                self.sock_list.remove(socket)
            except ValueError:
                pass
        socket.close()
        with self.llc.lock:
""", 'C09-R7'),
    ('terminate-without-finally', L, [("""        try:
            if type(self.mac) == nfc.dep.Initiator:""", """        if True:
            if type(self.mac) == nfc.dep.Initiator:"""), ("""        finally:
            # shutdown local services""", """        if True:
            # shutdown local services""")], None, 'C09-R1'),
    ('shutdown-loop-skips-sap-0', L, 'for i in range(63, -1, -1):', 'for i in range(63, 0, -1):', 'C09-R1'),
    ('ioerror-handler-no-terminate', L, """        except IOError:
            self.terminate(reason="input/output error")
            raise SystemExit
        except sec.KeyAgreementError:
            self.terminate(reason="key agreement error")
            raise SystemExit
        except sec.DecryptionError:
            self.terminate(reason="decryption error")
            raise SystemExit
        except sec.EncryptionError:
            self.terminate(reason="encryption error")
            raise SystemExit
        finally:
            log.debug("llc run loop terminated on target")""", """        except IOError:
            raise SystemExit
        except sec.KeyAgreementError:
            self.terminate(reason="key agreement error")
            raise SystemExit
        except sec.DecryptionError:
            self.terminate(reason="decryption error")
            raise SystemExit
        except sec.EncryptionError:
            self.terminate(reason="encryption error")
            raise SystemExit
        finally:
            log.debug("llc run loop terminated on target")""", 'C09-R2'),
    ('link-disruption-returns-without-terminate', L, """                if rcvd_pdu is None:
                    return self.terminate(reason="link disruption")
                if rcvd_pdu == pdu.Disconnect(0, 0):
                    self.link.CLOSED = True
                    return self.terminate(reason="remote choice")
                symm += 1 if isinstance(rcvd_pdu, pdu.Symmetry) else 0""", """                if rcvd_pdu is None:
                    return None
                if rcvd_pdu == pdu.Disconnect(0, 0):
                    self.link.CLOSED = True
                    return self.terminate(reason="remote choice")
                symm += 1 if isinstance(rcvd_pdu, pdu.Symmetry) else 0""", 'C09-R2'),
    ('tco-close-no-recv-notify', T, """            self.send_ready.notify_all()
            self.recv_ready.notify_all()
""", """            self.send_ready.notify_all()
""", 'C09-R3'),
    ('tco-close-notify-one', T, """            self.send_ready.notify_all()
            self.recv_ready.notify_all()
""", """            self.send_ready.notify_all()
            self.recv_ready.notify()
""", 'C09-R3'),
    ('dlc-close-no-token-notify', T, """            super(DataLinkConnection, self).close()
            self.acks_ready.notify_all()
            self.send_token.notify_all()
""", """            super(DataLinkConnection, self).close()
            self.acks_ready.notify_all()
""", 'C09-R3'),
    ('close-keeps-state', T, """            self.recv_ready.notify_all()
            self.state.SHUTDOWN = True
""", """            self.recv_ready.notify_all()
""", 'C09-R3'),
    ('sd-shutdown-no-notify', L, """            self.snl = None
            self.resp.notify_all()
""", """            self.snl = None
""", 'C09-R3'),
    ('raw-recv-state-test-outside-lock', T, """    def recv(self):
        with self.lock:
            if self.state.SHUTDOWN:
                raise err.Error(errno.ESHUTDOWN)
            try:
                return super(RawAccessPoint, self).recv()
            except IndexError:
                raise err.Error(errno.EPIPE)
""", """    def recv(self):
        if self.state.SHUTDOWN:
            raise err.Error(errno.ESHUTDOWN)
        try:
            return super(RawAccessPoint, self).recv()
        except IndexError:
            raise err.Error(errno.EPIPE)
""", 'C09-R4'),
    ('dlc-recv-state-test-dropped', T, """        with self.lock:
            if not (self.state.ESTABLISHED or self.state.CLOSE_WAIT):
                self.err("recv() in socket state {0}".format(self.state))
                raise err.Error(errno.ENOTCONN)

            try:""", """        with self.lock:
            try:""", 'C09-R4'),
    ('ldl-recvfrom-indexerror-unmapped', T, """            try:
                rcvd_pdu = super(LogicalDataLink, self).recv()
            except IndexError:
                raise err.Error(errno.EPIPE)
""", """            rcvd_pdu = super(LogicalDataLink, self).recv()
""", 'C09-R4'),
    ('resolve-wait-untested', L, """            while self.snl is not None and name not in self.snl:
                self.resp.wait()""", """            while name not in self.snl:
                self.resp.wait()""", 'C09-R4'),
    ('resolve-deref-unchecked', L, """        with self.lock:
            if self.sap[1] is None:
                return None  # link terminated
            return self.sap[1].resolve(bytes(name))""", """        with self.lock:
            return self.sap[1].resolve(bytes(name))""", 'C09-R5'),
    ('snep-listen-no-handler', 'nfc.snep.server', """        except nfc.llcp.Error as error:
            (log.debug if error.errno == errno.EPIPE else log.error)(error)
        finally:
            listen_socket.close()""", """        finally:
            listen_socket.close()""", 'C09-R6'),
    ('sap-shutdown-closes-before-unbind', 'nfc.llcp.llc', """            socket.bind(None)
            socket.close()""", """            socket.close()
            socket.bind(None)""", 'C09-R7'),
    ('sap-shutdown-without-unbind', 'nfc.llcp.llc', """            socket.bind(None)
            socket.close()""", """            socket.close()""", 'C09-R7'),
]

EXPLANATION += ' Round 5: notify_all is passed on every path through close() (CFG must-pass); the NFC-DEP release loops that terminate() runs through are bounded (C04-R5 obligations as C09-R8).'
