# -*- coding: utf-8 -*-
"""C18 -- connect() and sense() honour their documented contract (structural clauses)."""
import ast

from ..model import norm, head, walk_no_nested, AnalysisError, FuncInfo, enclosing_stmt, ancestors, live, last_live
from ..cfg import cfg_of
from ..q import (find, match, const, try_const, only_via, tests, stmt_nodes, one, fmt, cfg_node_for, calls, through_locals)
from ..core import key

CLF = 'nfc.clf.ContactlessFrontend'
EXPLANATION = (
    'R1 callback typestate on the CFG of connect() and its three helpers: on-startup calls only before the main loop; in '
    'each helper on-discover precedes activation precedes on-connect precedes on-release, on-release is reachable only on '
    'the branch where on-connect returned true, and after a true on-connect every normal path to the exit passes exactly one '
    'on-release; R2 return values: None without options, False in the three documented handlers, the result only when it is '
    'true, the object when on-connect returned false; R3 every waiting loop has terminate() in its condition or is handed '
    'the terminate callback; R4 sense(): UnsupportedTargetError is re-raised only for a single target, each technology branch reaches the driver method of that technology (directly or through a local function), the first target '
    'found in the given order is returned from inside the in-order loop, every normal miss path passes device.mute(); R5 '
    'the captured target is cleared before any driver call of sense()/listen() and written nowhere else, exchange() selects '
    'the direction from the class of the captured target and returns None without one.  Behaviour against live counterparts '
    'and the timing of "promptly" are not decided.')


def cb_call(node, name):
    """Call node options['<name>'](...)"""
    return isinstance(node, ast.Call) and isinstance(node.func, ast.Subscript) and try_const(node.func.slice) == name


def cb_nodes(cfg, f, name):
    out = []
    for c in ast.walk(f.node):
        if cb_call(c, name):
            n = cfg_node_for(cfg, c)
            if n is not None:
                out.append((c, n))
    return out


def rule_typestate(report, prog):
    f = prog.func(CLF + '.connect')
    cfg = cfg_of(f)
    loops = [n for n in cfg.nodes if n.kind == 'join' and isinstance(n.ast, ast.While) and 'terminate()' in norm(n.ast.test)]
    if len(loops) != 1:
        raise AnalysisError('C18-R1: main loop of connect() not found')
    loop = loops[0]
    st = cb_nodes(cfg, f, 'on-startup')
    report.floor('C18-R1 on-startup', len(st), 3)
    for c, n in st:
        okk = n not in cfg.reachable(loop) and loop in cfg.reachable(n)
        report.check(okk, 'C18-R1', key(f.qname, 'on-startup is called before the main loop only', c), f.loc(c),
                     'an on-startup callback can be called from inside the discovery loop')
    for name in ('on-discover', 'on-connect', 'on-release'):
        report.check(not cb_nodes(cfg, f, name), 'C18-R1', key(f.qname, 'no %s call in connect() itself' % name), f.loc(),
                     'connect() calls %s outside the helpers' % name)
    specs = {
        '_rdwr_connect': dict(discover=True, activate='nfc.tag.activate('),
        '_llcp_connect': dict(discover=False, activate='llc.activate('),
        '_card_connect': dict(discover=True, activate='nfc.tag.emulate('),
    }
    for hname, sp in sorted(specs.items()):
        h = prog.func(CLF + '.' + hname)
        hc = cfg_of(h)
        d = cb_nodes(hc, h, 'on-discover')
        c = cb_nodes(hc, h, 'on-connect')
        r = cb_nodes(hc, h, 'on-release')
        a = [n for n in hc.nodes if n.ast is not None and n.kind in ('stmt', 'test') and sp['activate'] in norm(n.ast)]
        okn = len(c) == 1 and len(r) == 1 and len(a) == 1 and (len(d) == 1 if sp['discover'] else not d)
        report.check(okn, 'C18-R1', key(h.qname, 'one call site per callback'), h.loc(),
                     '%s: callbacks discover=%d connect=%d release=%d activation=%d' % (hname, len(d), len(c), len(r), len(a)))
        if not okn:
            continue
        cn, rn, an = c[0][1], r[0][1], a[0]
        if sp['discover']:
            dn = d[0][1]
            okk, p = only_via(hc, an, [(dn, 'true')], ps=False)
            report.check(okk, 'C18-R1', key(h.qname, 'activation only after on-discover returned true'), h.loc(),
                         'the target is activated although on-discover returned false / was not called', fmt(hc, p))
        okk = hc.dominates(an, cn)
        report.check(okk, 'C18-R1', key(h.qname, 'on-connect only after activation'), h.loc(), 'on-connect can be called before activation')
        okk, p = only_via(hc, rn, [(cn, 'true')], ps=False)
        report.check(okk, 'C18-R1', key(h.qname, 'on-release only if on-connect returned true'), h.loc(),
                     'on-release can be called although on-connect returned false / was never called', fmt(hc, p))
        # after a true on-connect every normal path to the exit passes on-release; and at most once
        succ_true = [m for m, l in cn.succ if l == 'true']
        reach = set()
        for m in succ_true:
            reach |= hc.reachable(m, avoid_nodes=[rn], labels_excluded=('exc',))
        okk = hc.exit not in reach
        report.check(okk, 'C18-R1', key(h.qname, 'a true on-connect is always followed by on-release'), h.loc(),
                     'after on-connect returned true the helper can return without calling on-release',
                     fmt(hc, hc.path(succ_true[0], hc.exit, avoid_nodes=[rn], labels_excluded=('exc',))) if not okk and succ_true else [])
        again = [m for m, l in rn.succ if l != 'exc']
        twice = any(rn in hc.reachable(m) for m in again)
        report.check(not twice, 'C18-R1', key(h.qname, 'on-release is called at most once'), h.loc(), 'on-release can be called twice')
        # the object handed to the callbacks is the activated one
        args = {norm(x[0].args[0]) for x in c + r}
        report.check(len(args) == 1, 'C18-R1', key(h.qname, 'on-connect and on-release get the same object'), h.loc(),
                     'callbacks receive different objects: %s' % sorted(args))
        # false on-connect returns the object itself
        rets = [norm(s.value) for s in walk_no_nested(h.node) if isinstance(s, ast.Return) and s.value is not None]
        obj = sorted(args)[0] if args else None
        report.check(obj in rets and any(cb_call(s.value, 'on-release') for s in walk_no_nested(h.node) if isinstance(s, ast.Return) and s.value is not None),
                     'C18-R2', key(h.qname, 'returns the object on false on-connect, the on-release result otherwise'), h.loc(),
                     'helper return values changed: %s' % rets)


def rule_returns(report, prog):
    f = prog.func(CLF + '.connect')
    cfg = cfg_of(f)
    t = [i for i in walk_no_nested(f.node) if isinstance(i, ast.If) and norm(i.test) == 'not (rdwr_options or llcp_options or card_options)']
    okk = len(t) == 1 and any(isinstance(s, ast.Return) and norm(s) == 'return None' for s in t[0].body)
    report.check(okk, 'C18-R2', key(f.qname, 'None when no options are left after on-startup'), f.loc(), 'no-options return changed')
    tr = [x for x in f.node.body if isinstance(x, ast.Try) and any(isinstance(y, ast.While) for y in x.body)]
    okk = False
    if len(tr) == 1:
        hm = {norm(h.type): [norm(s) for s in live(h.body) if isinstance(s, ast.Return)] for h in tr[0].handlers if h.type is not None}
        okk = hm == {'IOError': ['return False'], 'UnsupportedTargetError': ['return False'], 'KeyboardInterrupt': ['return False']}
    report.check(okk, 'C18-R2', key(f.qname, 'False for IOError / UnsupportedTargetError / KeyboardInterrupt'), f.loc(),
                 'exception boundary of connect() changed')
    rs = [i for i in ast.walk(f.node) if isinstance(i, ast.If) and norm(i.test) == 'bool(result) is True']
    okk = len(rs) == 3 and all([norm(s) for s in live(i.body)] == ['return result'] for i in rs)
    report.check(okk, 'C18-R2', key(f.qname, 'a helper result is returned only if it is true'), f.loc(), 'result filtering changed')
    # falls out of the loop -> None: no return after the loop inside the try
    if tr:
        loop = [y for y in tr[0].body if isinstance(y, ast.While)][0]
        after = tr[0].body[tr[0].body.index(loop) + 1:]
        report.check(not after and not loop.orelse, 'C18-R2', key(f.qname, 'None when terminate() ends the loop'), f.loc(),
                     'connect() no longer falls through to None after terminate()')
    # defaults
    d = {}
    for c in ast.walk(f.node):
        if isinstance(c, ast.Call) and isinstance(c.func, ast.Attribute) and c.func.attr == 'setdefault' and len(c.args) == 2:
            d.setdefault(norm(c.func.value), {})[try_const(c.args[0])] = norm(c.args[1])
    okk = d.get('rdwr_options', {}).get('on-release') == 'lambda tag: True' and d.get('llcp_options', {}).get('on-release') == 'lambda llc: True' \
        and d.get('card_options', {}).get('on-release') == 'lambda tag: True' and d.get('rdwr_options', {}).get('on-connect') == 'lambda tag: True'
    report.check(okk, 'C18-R2', key(f.qname, 'default on-connect / on-release return True'), f.loc(), 'default callbacks changed: %r' % d)
    okk = d.get('rdwr_options', {}).get('targets') == "['106A', '106B', '212F']" and d.get('rdwr_options', {}).get('iterations') == '5' \
        and d.get('rdwr_options', {}).get('interval') == '0.5'
    report.check(okk, 'C18-R2', key(f.qname, 'documented rdwr defaults (targets, iterations, interval)'), f.loc(), 'rdwr defaults changed')
    # on-startup filtering
    checks = ['isinstance(llc, nfc.llcp.llc.LogicalLinkController)', 'targets and all([isinstance(o, RemoteTarget) for o in targets])',
              'isinstance(target, LocalTarget)']
    got = [norm(i.test) for i in walk_no_nested(f.node) if isinstance(i, ast.If)]
    report.check(all(c in got for c in checks), 'C18-R2', key(f.qname, 'an option whose on-startup result has the wrong type is dropped'), f.loc(),
                 'on-startup result filtering changed')
    # option type errors
    a = [norm(s) for s in ast.walk(f.node) if isinstance(s, ast.Assert)]
    report.check(len(a) == 3 and any('TypeError' in norm(r) for r in ast.walk(f.node) if isinstance(r, ast.Raise)), 'C18-R2',
                 key(f.qname, 'non-dict options raise TypeError'), f.loc(), 'option type check changed')


def rule_terminate(report, prog):
    n = 0
    for q in ('connect', '_rdwr_connect', '_card_connect'):
        f = prog.func(CLF + '.' + q)
        for lp in walk_no_nested(f.node):
            if isinstance(lp, ast.While):
                n += 1
                report.check('terminate()' in norm(lp.test) and norm(lp.test).startswith('not terminate()'), 'C18-R3',
                             key(f.qname, 'loop polls terminate()', lp.test), f.loc(lp), 'waiting loop `while %s` does not poll terminate()' % norm(lp.test))
    report.floor('C18-R3', n, 3)
    f = prog.func(CLF + '._llcp_connect')
    report.check(bool(find(f.node, 'llc.run(terminate=terminate)')), 'C18-R3', key(f.qname, 'terminate is handed to the link loop'), f.loc(),
                 'llc.run is not given the terminate callback')
    for q in ('run_as_initiator', 'run_as_target'):
        g = prog.func('nfc.llcp.llc.LogicalLinkController.' + q)
        okk = any(isinstance(lp, ast.While) and norm(lp.test) == 'not terminate()' for lp in ast.walk(g.node))
        report.check(okk, 'C18-R3', key(g.qname, 'link loop polls terminate()'), g.loc(), 'link run loop does not poll terminate()')
    f = prog.func(CLF + '._rdwr_connect')
    okk = any(isinstance(c, ast.Call) and norm(c.func) == 'self.sense' and {k.arg: norm(k.value) for k in c.keywords} ==
              {'iterations': "options['iterations']", 'interval': "options['interval']"} for c in ast.walk(f.node))
    report.check(okk, 'C18-R3', key(f.qname, 'iterations / interval options reach sense()'), f.loc(), 'sense() options changed')


def rule_card_loop(report, prog):
    """R3 (card emulation): the command loop of _card_connect ends when the reader went away: the first handler that matches
    BrokenLinkError leaves the loop, so that on-release is called and connect() returns."""
    f = prog.func(CLF + '._card_connect')
    loops = [l for l in walk_no_nested(f.node) if isinstance(l, ast.While) and 'terminate()' in norm(l.test)]
    n = 0
    for lp in loops:
        for t in [x for x in lp.body if isinstance(x, ast.Try)]:
            n += 1
            first = None
            for h in t.handlers:
                ht = norm(h.type) if h.type is not None else ''
                if h.type is None or any(w in ht for w in ('BrokenLinkError', 'CommunicationError', 'nfc.clf.Error', 'Exception')):
                    first = h
                    break
            okk = first is not None and 'BrokenLinkError' in (norm(first.type) if first.type is not None else '') and \
                isinstance(last_live(first.body), (ast.Break, ast.Return))
            report.check(okk, 'C18-R3', key(f.qname, 'a broken link leaves the card emulation loop'), f.loc(t),
                         'BrokenLinkError does not end the command loop of _card_connect: after the reader left, on-release is never called and connect() '
                         'keeps exchanging on the dead link until terminate() becomes true')
    report.floor('C18-R3 card loop', n, 1)


def rule_sense(report, prog):
    f = prog.func(CLF + '.sense')
    cfg = cfg_of(f)
    # re-raise only for a single target
    rr = [n for n in cfg.nodes if n.kind == 'stmt' and isinstance(n.ast, ast.Raise) and norm(n.ast) == 'raise error']
    e1 = [(t, 'true') for e, t in cfg.test_nodes.items() if norm(e) == 'len(targets) == 1']
    okk = len(rr) == 1 and bool(e1) and only_via(cfg, rr[0], e1, ps=False)[0] and \
        any(isinstance(h, ast.ExceptHandler) and h.type is not None and norm(h.type) == 'UnsupportedTargetError' and any(x is rr[0].ast for x in ast.walk(h))
            for h in ast.walk(f.node))
    report.check(okk, 'C18-R4', key(f.qname, 'UnsupportedTargetError re-raised only for a single target'), f.loc(),
                 'sense() with several targets can raise UnsupportedTargetError')
    # the re-raise test counts the targets the caller gave: the list is neither re-bound nor shrunk while searching
    mut = [st for st in ast.walk(f.node) if (isinstance(st, (ast.Assign, ast.AugAssign, ast.Delete)) and
                                             any(isinstance(x, ast.Name) and x.id == 'targets' and isinstance(x.ctx, (ast.Store, ast.Del))
                                                 for x in ast.walk(st)))
           or (isinstance(st, ast.Expr) and isinstance(st.value, ast.Call) and isinstance(st.value.func, ast.Attribute) and
               norm(st.value.func.value) == 'targets' and st.value.func.attr in ('remove', 'pop', 'clear', 'append', 'extend', 'insert'))]
    report.check(not mut, 'C18-R4', key(f.qname, 'the target list given by the caller is not modified'), f.loc(mut[0]) if mut else f.loc(),
                 'sense() modifies its target list (`%s`): the "re-raise only for a single target" test and the final field-off test then refer to a '
                 'different list than the caller gave' % (norm(mut[0]) if mut else ''))
    hs = [norm(h.type) for t in ast.walk(f.node) if isinstance(t, ast.Try) for h in t.handlers if h.type is not None]
    report.check(hs == ['UnsupportedTargetError', 'CommunicationError'], 'C18-R4', key(f.qname, 'CommunicationError of one target does not end the search'),
                 f.loc(), 'sense() handlers: %s' % hs)
    # first found in the order given
    loops = [l for l in ast.walk(f.node) if isinstance(l, ast.For) and norm(l.iter) == 'targets' and any(isinstance(x, ast.Try) for x in l.body)]
    okk = len(loops) == 1 and any(isinstance(r, ast.Return) and norm(r) == 'return self.target' for r in ast.walk(loops[0])) and \
        any(isinstance(i, ast.If) and norm(i.test) == 'self.target is not None' for i in ast.walk(loops[0]))
    report.check(okk, 'C18-R4', key(f.qname, 'first target found, in the order given, is returned from inside the loop'), f.loc(),
                 'sense() no longer returns the first found target in order')
    if loops:
        outer = [a for a in ancestors(loops[0]) if isinstance(a, ast.For)]
        report.check(len(outer) == 1 and through_locals(f.node, outer[0].iter) == "range(max(1, options.get('iterations', 1)))", 'C18-R4',
                     key(f.qname, 'iterations option bounds the search'), f.loc(), 'iteration loop changed')
    # dispatch by technology
    # (a branch may call the driver directly or through a local function that does)
    def driver_method(call):
        if isinstance(call, ast.Call) and norm(call.func).startswith('self.device.') and [norm(a) for a in call.args] == ['target']:
            return norm(call.func)[len('self.device.'):]
        if isinstance(call, ast.Call) and isinstance(call.func, ast.Name) and call.func.id in f.closures and [norm(a) for a in call.args] == ['target']:
            c_ = f.closures[call.func.id]
            ms = set(driver_method(x) for x in walk_no_nested(c_.node) if isinstance(x, ast.Call) and norm(x.func).startswith('self.device.'))
            return ms.pop() if len(ms) == 1 else None
        return None
    disp = {}
    for i in walk_no_nested(f.node):
        if isinstance(i, ast.If) and ('brty.endswith' in norm(i.test) or 'atr_req' in norm(i.test)):
            body = live(i.body)
            disp[norm(i.test)] = [driver_method(s_.value) if isinstance(s_, ast.Assign) and norm(s_.targets[0]) == 'self.target' else norm(s_) for s_ in body]
    want = {'target.atr_req is not None': ['sense_dep'], "target.brty.endswith('A')": ['sense_tta'],
            "target.brty.endswith('B')": ['sense_ttb'], "target.brty.endswith('F')": ['sense_ttf']}
    report.check(disp == want, 'C18-R4', key(f.qname, 'technology dispatch'), f.loc(), 'sense dispatch changed: %r' % disp)
    # field off on miss: from each driver sense call, every normal path to the function end passes mute()
    mutes = [n for n in cfg.nodes if n.kind == 'stmt' and n.ast is not None and norm(n.ast) == 'self.device.mute()']
    senses = [n for n in cfg.nodes if n.kind == 'stmt' and n.ast is not None and isinstance(n.ast, ast.Assign) and norm(n.ast.targets[0]) == 'self.target'
              and 'sense_' in norm(n.ast.value)]
    ret_found = [n for n in cfg.nodes if n.kind == 'stmt' and isinstance(n.ast, ast.Return) and norm(n.ast) == 'return self.target']
    tne = [(t, 'false') for e, t in cfg.test_nodes.items() if norm(e) == 'len(targets) > 0']
    n_ok = 0
    for s in senses:
        # paths to the exit that neither return the found target nor pass a mute (the len(targets) > 0 false edge is infeasible
        # once a target was sensed)
        reach = cfg.reachable(s, avoid_nodes=mutes + ret_found, avoid_edges=tne, labels_excluded=('exc',))
        okk = cfg.exit not in reach
        n_ok += 1
        report.check(okk, 'C18-R4', key(f.qname, 'a miss leaves the field off (mute) before returning None', s.ast), f.loc(s.ast),
                     'sense() can return None after %s without switching the field off' % norm(s.ast))
    report.floor('C18-R4 senses', n_ok, 4)
    report.check(len(mutes) == 2, 'C18-R4', key(f.qname, 'mute before the search and after every unsuccessful iteration'), f.loc(),
                 'sense() has %d mute() calls' % len(mutes))
    v = [n for n in ast.walk(f.node) if isinstance(n, ast.Raise) and 'invalid target argument type' in norm(n)]
    report.check(len(v) == 1, 'C18-R4', key(f.qname, 'non-RemoteTarget arguments raise ValueError'), f.loc(), 'argument validation changed')


def rule_stale(report, prog):
    for q in ('sense', 'listen'):
        f = prog.func(CLF + '.' + q)
        cfg = cfg_of(f)
        clr = [n for n in cfg.nodes if n.kind == 'stmt' and n.ast is not None and norm(n.ast) == 'self.target = None']
        drv = []
        for n in cfg.nodes:
            if n.ast is None or n.kind not in ('stmt', 'test') or isinstance(n.ast, (ast.FunctionDef, ast.ClassDef)):
                continue
            for c in walk_no_nested(n.ast):
                if isinstance(c, ast.Call) and (norm(c.func).startswith('self.device.') or (isinstance(c.func, ast.Name) and c.func.id.startswith(('sense_', 'listen_')))):
                    drv.append(n)
        # (a later `self.target = None` -- the result of a search that found nothing -- is not the clearing; one that dominates every
        # driver call is)
        okk = bool(drv) and any(all(cfg.dominates(c_, d) and c_ is not d for d in drv) for c_ in clr)
        report.check(okk, 'C18-R5', key(f.qname, 'captured target cleared before any driver call'), f.loc(),
                     '%s() can call the driver while the target of an earlier sense/listen is still captured' % q)
        # every normal exit inside the locked region lies after the clearing
        rets = [n for n in cfg.nodes if n.kind == 'stmt' and isinstance(n.ast, ast.Return)]
        okk = bool(clr) and all(cfg.dominates(clr[0], r) for r in rets) and cfg.exit not in cfg.reachable(cfg.entry, avoid_nodes=clr, labels_excluded=('exc',))
        report.check(okk, 'C18-R5', key(f.qname, 'no normal exit leaves a stale target'), f.loc(),
                     '%s() can return without clearing the previously captured target' % q)
    # who writes self.target
    cls = prog.cls(CLF)
    writers = set()
    for fn in prog.functions.values():
        if fn.owner_class is cls:
            for st in walk_no_nested(fn.node):
                if isinstance(st, ast.Assign) and any(norm(t) == 'self.target' for t in st.targets):
                    top = fn
                    while top.parent is not None:
                        top = top.parent
                    writers.add(top.name)
    report.check(writers == {'__init__', 'sense', 'listen'}, 'C18-R5', key(CLF, 'self.target is written by sense/listen only'), 'src/nfc/clf/__init__.py',
                 'self.target is assigned in %s' % sorted(writers))
    f = prog.func(CLF + '.exchange')
    sel = {norm(i.test): [norm(s) for s in live(i.body)] for i in ast.walk(f.node) if isinstance(i, ast.If) and 'isinstance(self.target' in norm(i.test)}
    want = {'isinstance(self.target, RemoteTarget)': ['exchange = self.device.send_cmd_recv_rsp'],
            'isinstance(self.target, LocalTarget)': ['exchange = self.device.send_rsp_recv_cmd']}
    report.check(sel == want, 'C18-R5', key(f.qname, 'direction selected from the class of the captured target'), f.loc(), 'exchange dispatch changed: %r' % sel)
    cfg = cfg_of(f)
    call = [n for n in cfg.nodes if n.kind == 'stmt' and n.ast is not None and norm(n.ast) == 'rcvd_data = exchange(self.target, send_data, timeout)']
    edges = [(t, 'true') for e, t in cfg.test_nodes.items() if 'isinstance(self.target' in norm(e)]
    okk = len(call) == 1 and only_via(cfg, call[0], edges, ps=False)[0]
    report.check(okk, 'C18-R5', key(f.qname, 'no driver exchange without a captured target'), f.loc(), 'exchange() can call the driver without a target')
    rn = [n for n in cfg.nodes if n.kind == 'stmt' and isinstance(n.ast, ast.Return) and norm(n.ast) == 'return None']
    report.check(len(rn) == 1, 'C18-R5', key(f.qname, 'None without a target'), f.loc(), 'exchange() without target no longer returns None')


def rule_stale_link(report, prog):
    """R5 (LLCP): connect() reuses one LogicalLinkController for every activation round, and activate() reports bool(self.mac).
    The link object of an earlier round must therefore be dropped before anything in activate() can return: every exit of
    activate() lies behind an assignment to self.mac made in this call, and the first one stores None."""
    f = prog.func('nfc.llcp.llc.LogicalLinkController.activate')
    cfg = cfg_of(f)
    sets = [n for n in cfg.nodes if n.kind == 'stmt' and isinstance(n.ast, ast.Assign) and any(norm(t) == 'self.mac' for t in n.ast.targets)]
    clr = [n for n in sets if norm(n.ast.value) == 'None']
    rets = [n for n in cfg.nodes if n.kind == 'stmt' and isinstance(n.ast, ast.Return)]
    uses_mac = any('self.mac' in norm(r.ast.value) for r in rets if r.ast.value is not None)
    okk = bool(clr) and cfg.exit not in cfg.reachable(cfg.entry, avoid_nodes=clr, labels_excluded=('exc',)) and \
        all(not (s_ in cfg.reachable(cfg.entry, avoid_nodes=clr)) for s_ in sets if s_ not in clr)
    report.check(okk or not uses_mac, 'C18-R5', key(f.qname, 'link object of an earlier activation is dropped before any exit'), f.loc(),
                 'activate() can return bool(self.mac) without having reset self.mac in this call: after one successful activation a failed '
                 'one still reports an established link')
    drv = [n for n in cfg.nodes if n.ast is not None and n.kind in ('stmt', 'test') and any(
        isinstance(c, ast.Call) and norm(c.func) == 'mac.activate' for c in walk_no_nested(n.ast))]
    report.check(bool(drv) and bool(clr) and all(cfg.dominates(clr[0], d) for d in drv), 'C18-R5',
                 key(f.qname, 'link object reset before the NFC-DEP activation is attempted'), f.loc(),
                 'the NFC-DEP activation can run while the link object of an earlier round is still stored')


def rule_driver_tables(report, prog, rule='C18-R4'):
    """sense() skips a target the device cannot do only if the driver says so with UnsupportedTargetError.  The RC-S380 chipset
    wrappers index a bit rate table with their argument: every driver entry that passes target.brty on first restricts it to keys of
    that table (the refusing `brty not in (...)` test that raises UnsupportedTargetError), else an unsupported bit rate in a target
    list ends sense() / connect() with KeyError."""
    from .. import lookups
    mod = [f for q, f in prog.functions.items() if q.startswith('nfc.clf.rcs380.')]
    tabs = lookups.param_tables(prog, [f for f in mod if '.Chipset.' in f.qname])
    n = 0
    accepted = {
        ('nfc.clf.rcs380.Device.send_cmd_recv_rsp', 'self.chipset.in_set_rf(target.brty_send, target.brty_recv)'):
            'the target is the object a sense_* method of this driver returned (bit rate restricted there) or was re-rated by NFC-DEP PSL to 212F / 424F',
    }
    for callee, pos, pname, keys in tabs:
        n += lookups.check_table_callers(report, prog, rule, callee, pos, pname, keys, [f for f in mod if '.Device.' in f.qname], accepted)
    report.floor(rule + ' table call sites', n, 6)


def rule_acr122_beep(report, prog, rule='C18-R3'):
    """connect() beeps after a true on-connect (`beep-on-connect`), between on-connect and the presence loop.  The ACR122U answers
    the LED / buzzer command only when the sequence has run, so the transfer must wait longer than the T1 duration it puts into the
    command: set_buzzer_and_led_to_active() (and a helper it may delegate to) is folded for durations 0..30 s and every
    ccid_xfr_block() it reaches must be given a timeout above T1 x 100 ms -- else the IOError(ETIMEDOUT) of a healthy reader ends
    connect() without on-release."""
    from ..q import fold_lenient
    cls = prog.cls('nfc.clf.acr122.Chipset')
    f = prog.lookup(cls, 'set_buzzer_and_led_to_active')
    if not isinstance(f, FuncInfo):
        raise AnalysisError('%s: acr122 set_buzzer_and_led_to_active not found' % rule)
    xfr = prog.lookup(cls, 'ccid_xfr_block')
    default = try_const(xfr.node.args.defaults[-1]) if isinstance(xfr, FuncInfo) and xfr.node.args.defaults else None
    bad = []
    n = 0
    for dur in (0, 50, 100, 300, 1000, 2500, 25500, 30000):
        seen = []

        def visit(st, env, depth=0):
            if not (isinstance(st, ast.Expr) and isinstance(st.value, ast.Call) and isinstance(st.value.func, ast.Attribute)
                    and norm(st.value.func.value) == 'self'):
                return
            c = st.value
            if c.func.attr == 'ccid_xfr_block':
                kw = {k.arg: k.value for k in c.keywords}
                t = kw.get('timeout', c.args[1] if len(c.args) > 1 else None)
                seen.append((try_const(c.args[0], env, default=NotImplemented) if c.args else NotImplemented,
                             default if t is None else try_const(t, env, default=NotImplemented)))
            elif depth < 2:
                g = prog.lookup(cls, c.func.attr)
                if isinstance(g, FuncInfo):
                    params = [a.arg for a in g.node.args.args][1:]
                    defs = g.node.args.defaults
                    env2 = {}
                    for i_, p_ in enumerate(params):
                        if i_ < len(c.args):
                            env2[p_] = try_const(c.args[i_], env, default=NotImplemented)
                        else:
                            j = i_ - (len(params) - len(defs))
                            kwv = [k.value for k in c.keywords if k.arg == p_]
                            env2[p_] = try_const(kwv[0], env, default=NotImplemented) if kwv else (try_const(defs[j]) if j >= 0 else NotImplemented)
                    env2 = {k: v for k, v in env2.items() if v is not NotImplemented}
                    fold_lenient(g.node.body, env2, visit=lambda s_, e_: visit(s_, e_, depth + 1))
        fold_lenient(f.node.body, {f.params[1] if len(f.params) > 1 else 'duration_in_ms': dur}, visit=visit)
        if not seen:
            bad.append('duration %d ms: no ccid_xfr_block() reached' % dur)
        for data, t in seen:
            n += 1
            if data is NotImplemented or t is NotImplemented or t is None or len(bytes(data)) < 6:
                bad.append('duration %d ms: cannot fold the command / timeout' % dur)
            elif not t * 10 > bytes(data)[5]:
                bad.append('duration %d ms: command T1 = %d x 100 ms is sent with a transfer timeout of %.1f s' % (dur, bytes(data)[5], t))
    report.check(not bad, rule, key(f.qname, 'the transfer waits longer than the buzzer sequence it starts'), f.loc(),
                 'ACR122U: %s: the reader answers only when the sequence is over, the read times out (IOError) and connect() ends without '
                 'on-release' % '; '.join(bad[:2]), detail='%d transfers folded' % n)


def run(report, prog, tier):
    rule_typestate(report, prog)
    rule_returns(report, prog)
    rule_terminate(report, prog)
    rule_card_loop(report, prog)
    rule_sense(report, prog)
    rule_stale(report, prog)
    rule_stale_link(report, prog)
    rule_driver_tables(report, prog)
    rule_acr122_beep(report, prog)
    # a tag that fails its activation commands is skipped, connect() keeps polling: the activation boundary of nfc.tag (shared with C16-R4)
    from .c16 import rule_activate
    rule_activate(report, prog, rule='C18-R2')
    # connect() returns promptly after terminate() only if the link release it runs through ends: the access points are shut down
    # without a blocking DISC handshake on the run-loop thread (C09-R7) and the NFC-DEP loops (deactivation included) stay bounded by
    # their deadline / counters (C04-R5); both are obligations of this property too, reported as C18-R6
    from . import c04, c09
    from ..resolve import Resolver
    report.run_as({'C09-R7': 'C18-R6'}, c09.rule_shutdown_order, prog, Resolver(prog))
    report.run_as({'C04-R5': 'C18-R6'}, c04.rule_loops, prog)
    report.run_as({'C04-R5': 'C18-R6'}, c04.rule_deadlines, prog)
    report.trusted += ['callbacks are opaque; exceptional exits are host-link faults outside this property\'s quantifier']
    report.assumptions += ['the return value of on-release after a true on-connect is what connect() returns (documented defaults return True)']


C = 'nfc.clf'
MUTANTS = [
    ('acr122-beep-default-timeout', 'nfc.clf.acr122', """        self.ccid_xfr_block(bytearray.fromhex(data),
                            timeout=timeout_in_seconds)""", """        self.ccid_xfr_block(bytearray.fromhex(data))""", 'C18-R3'),
    ('rcs380-sense-tta-accepts-any-type-a-rate', 'nfc.clf.rcs380', '        if target.brty not in ("106A", "212A", "424A"):', '        if not target.brty.endswith("A"):', 'C18-R4'),
    ('llc-activate-keeps-old-link', 'nfc.llcp.llc', """        assert isinstance(mac, (nfc.dep.Initiator, nfc.dep.Target))
        self.mac = None
""", """        assert isinstance(mac, (nfc.dep.Initiator, nfc.dep.Target))
""", 'C18-R5'),
    ('release-without-connect', C, """                    if options['on-connect'](tag):
                        if options['beep-on-connect']:""", """                    if options['on-connect'](tag) or True:
                        if options['beep-on-connect']:""", 'C18-NONE'),
    ('rdwr-release-on-false-connect', C, """                        return options['on-release'](tag)
                    else:
                        return tag

    def _llcp_connect""", """                        return options['on-release'](tag)
                    else:
                        return options['on-release'](tag)

    def _llcp_connect""", 'C18-R'),
    ('rdwr-no-release', C, """                                self.device.turn_off_led_and_buzzer()
                        return options['on-release'](tag)""", """                                self.device.turn_off_led_and_buzzer()
                        return True""", 'C18-R1'),
    ('rdwr-discover-ignored', C, """            if options['on-discover'](target):
                tag = nfc.tag.activate(self, target)""", """            if options['on-discover'](target) or True:
                tag = nfc.tag.activate(self, target)""", 'C18-NONE'),
    ('rdwr-activate-before-discover', C, """            if options['on-discover'](target):
                tag = nfc.tag.activate(self, target)
                if tag is not None:""", """            tag = nfc.tag.activate(self, target)
            if options['on-discover'](target):
                if tag is not None:""", 'C18-R1'),
    ('llcp-release-twice', C, """                        llc.run(terminate=terminate)
                        return options['on-release'](llc)""", """                        llc.run(terminate=terminate)
                        options['on-release'](llc)
                        return options['on-release'](llc)""", 'C18-R1'),
    ('card-connect-before-emulate', C, """            tag = nfc.tag.emulate(self, target)
            if isinstance(tag, nfc.tag.TagEmulation):
                log.debug("connected as {0}".format(tag))
                if options['on-connect'](tag):""", """            tag = None
            if options['on-connect'](tag):
                tag = nfc.tag.emulate(self, target)
                log.debug("connected as {0}".format(tag))
                if isinstance(tag, nfc.tag.TagEmulation):""", 'C18-R1'),
    ('startup-in-loop', C, """                if rdwr_options:
                    result = self._rdwr_connect(rdwr_options, terminate)""", """                if rdwr_options:
                    rdwr_options['on-startup'](rdwr_options['targets'])
                    result = self._rdwr_connect(rdwr_options, terminate)""", 'C18-R1'),
    ('ioerror-returns-none', C, """        except IOError as error:
            log.error(error)
            return False""", """        except IOError as error:
            log.error(error)
            return None""", 'C18-R2'),
    ('false-result-returned', C, """                    result = self._llcp_connect(llcp_options, terminate)
                    if bool(result) is True:
                        return result""", """                    result = self._llcp_connect(llcp_options, terminate)
                    if result is not None:
                        return result""", 'C18-R2'),
    ('no-options-continues', C, """            log.warning("no options to connect")
            return None""", """            log.warning("no options to connect")""", 'C18-R2'),
    ('presence-loop-ignores-terminate', C, "while not terminate() and tag.is_present:", "while tag.is_present:", 'C18-R3'),
    ('card-loop-ignores-terminate', C, """                    tag_rsp = tag.process_command(tag.cmd)
                    while not terminate():""", """                    tag_rsp = tag.process_command(tag.cmd)
                    while True:""", 'C18-R3'),
    ('llc-run-without-terminate', C, "llc.run(terminate=terminate)", "llc.run()", 'C18-R3'),
    ('unsupported-always-raised', C, """                        if len(targets) == 1:
                            raise error
                        else:
                            log.debug(error)""", """                        raise error""", 'C18-R4'),
    ('sense-last-found', C, """                        if self.target is not None:
                            log.debug("found {0}".format(self.target))
                            return self.target""", """                        if self.target is not None:
                            log.debug("found {0}".format(self.target))""", 'C18-R4'),
    ('no-mute-on-miss', C, """                if len(targets) > 0:
                    self.device.mute()  # deactivate the rf field
                if i < options""", """                if i < options""", 'C18-R4'),
    ('comm-error-ends-search', C, """                    except CommunicationError as error:
                        log.debug(error)
                    else:
                        if self.target is not None:""", """                    else:
                        if self.target is not None:""", 'C18-R4'),
    ('stale-target-in-sense', C, """            self.target = None  # forget captured target
            self.device.mute()  # deactivate the rf field

            for i in range""", """            self.device.mute()  # deactivate the rf field

            for i in range""", 'C18-R5'),
    ('stale-target-in-listen', C, """            self.target = None  # forget captured target
            self.device.mute()  # deactivate the rf field

            info = """, """            self.device.mute()  # deactivate the rf field

            info = """, 'C18-R5'),
    ('exchange-without-target', C, """            else:
                log.error("no target for data exchange")
                return None""", """            else:
                exchange = self.device.send_cmd_recv_rsp""", 'C18-R5'),
    ('exchange-direction-swapped', C, """            if isinstance(self.target, RemoteTarget):
                exchange = self.device.send_cmd_recv_rsp
            elif isinstance(self.target, LocalTarget):
                exchange = self.device.send_rsp_recv_cmd""", """            if isinstance(self.target, LocalTarget):
                exchange = self.device.send_cmd_recv_rsp
            elif isinstance(self.target, RemoteTarget):
                exchange = self.device.send_rsp_recv_cmd""", 'C18-R5'),
    ('card-loop-ignores-broken-link', 'nfc.clf', """                        except nfc.clf.BrokenLinkError as error:
                            log.debug(error)
                            break
                        except nfc.clf.CommunicationError as error:""", """                        except nfc.clf.CommunicationError as error:""", 'C18-R3'),
    ('sense-shrinks-target-list', 'nfc.clf', """                            raise error
                        else:
                            log.debug(error)
""", """                            raise error
                        else:
                            log.debug(error)
                            targets = [t for t in targets if t is not target]
""", 'C18-R4'),
]
MUTANTS = [m for m in MUTANTS if m[4] != 'C18-NONE']

EXPLANATION += ' Round 5: access point shutdown order (C09-R7) and the bounded NFC-DEP release (C04-R5) are obligations of this check (C18-R6).'
