# -*- coding: utf-8 -*-
"""C03 -- NDEF writes touch nothing outside the NDEF message area (structural clauses)."""
import ast

from ..model import norm, head, walk_no_nested, AnalysisError, FuncInfo, ClassInfo, enclosing_stmt, ancestors, live
from ..cfg import cfg_of
from ..q import (find, match, const, try_const, only_via, tests, stmt_nodes, one, fmt, cfg_node_for, linear, calls)
from ..core import key
from . import c02

EXPLANATION = (
    'R1 every store into the tag memory image made by the Type 1/2 NDEF writers and the Type 2 format routine has an index '
    'that is either the NDEF TLV\'s own length field (offset+1..3 from the TLV offset found by the reader) or a position for '
    'which `not in skip_bytes` holds at the store (established by the preceding `while X in skip_bytes` loop or an enclosing '
    'test), and the terminator is additionally bounded by the end of the data area (CFG reachability); R2 the vendor format '
    'routines store only to constant ranges inside the product\'s NDEF area with matching value lengths (Topaz, Topaz-512, '
    'NTAG pages 4/5), never to UID / lock / OTP / reserved bytes; R3 the write-back writes only units whose cached content '
    'differs (shared with C02-R3), so untouched bytes keep their values; R4 the Type 4 wipe is bounded by the capacity and '
    'starts after NLEN, Type 3 writes address blocks 1..ceil(len/16) only, no UPDATE BINARY of the folded Type 4 writer addresses a byte outside 0..NLEN size + length.  That value bytes stay below the data-area end '
    'for every layout follows from the capacity computation (value level) and is not decided here.')


def _skip_guarded(cfg, f, node, idx_text):
    """Is `idx not in skip_bytes` established when node executes?"""
    # (a) node lies after the exit (false edge) of `while IDX in skip_bytes` with no re-assignment of the operands in between
    edges = [(t, 'false') for e, t in cfg.test_nodes.items() if norm(e) == '%s in skip_bytes' % idx_text] + \
            [(t, 'true') for e, t in cfg.test_nodes.items() if norm(e) == '%s not in skip_bytes' % idx_text]
    if not edges:
        return False, None
    # `while IDX < END and IDX in skip_bytes: IDX += 1` followed by `if IDX < END: store`: the loop exit on `IDX < END` false cannot
    # reach the store, whose own test has the same text and nothing re-binds the operands in between -- that exit is infeasible here
    same = {}
    for e, t in cfg.test_nodes.items():
        if isinstance(e, ast.Compare) and norm(e.left) == idx_text and isinstance(e.ops[0], ast.Lt):
            same.setdefault(norm(e), []).append(t)
    for txt, ts in same.items():
        loops = [t for t in ts if isinstance(t.owner, ast.While)]
        ifs = [t for t in ts if isinstance(t.owner, ast.If)]
        ops_ = set(x.id for x in ast.walk(ast.parse(txt)) if isinstance(x, ast.Name))
        for tl in loops:
            for ti in ifs:
                if node in cfg.reachable(cfg.entry, avoid_edges=[(ti, 'true')]):
                    continue
                exits = [nx for nx, lab in tl.succ if lab == 'false']
                between = set()
                for nx in exits:
                    between |= cfg.reachable(nx, avoid_nodes=[ti])
                rebound = any(isinstance(b.ast, (ast.Assign, ast.AugAssign)) and any(
                    isinstance(x, ast.Name) and x.id in ops_ for tt in (b.ast.targets if isinstance(b.ast, ast.Assign) else [b.ast.target]) for x in ast.walk(tt))
                    for b in between if b.kind == 'stmt' and b.ast is not None and tl not in cfg.reachable(b, avoid_nodes=[ti]))
                if not rebound:
                    edges = edges + [(tl, 'false')]
    okk, p = only_via(cfg, node, edges, ps=False)
    if not okk:
        return False, p
    # operands of the index are not modified between the test and the store
    names = set(x.id for x in ast.walk(ast.parse(idx_text)) if isinstance(x, ast.Name))
    for n in cfg.nodes:
        if n.kind == 'stmt' and isinstance(n.ast, (ast.Assign, ast.AugAssign)):
            tg = n.ast.targets if isinstance(n.ast, ast.Assign) else [n.ast.target]
            if any(isinstance(x, ast.Name) and x.id in names for t in tg for x in ast.walk(t)):
                # a modification is fine if the guard is passed again before the store
                if node in cfg.reachable(n, avoid_edges=edges) and n is not node:
                    return False, cfg.path(n, node, avoid_edges=edges)
    return True, None


def _bound_to_area_end(f, expr):
    """expr is a local bound exactly once, to <memory>[14] * 8 + 16 (the end of the Type 2 data area from the CC)."""
    if not isinstance(expr, ast.Name):
        return False
    binds = [a for a in walk_no_nested(f.node) if isinstance(a, ast.Assign) and any(norm(t) == expr.id for t in a.targets)]
    return len(binds) == 1 and norm(binds[0].value).endswith('[14] * 8 + 16')


def rule_guarded_stores(report, prog):
    n = 0
    for q, mem in (('nfc.tag.tt1.Type1Tag.NDEF._write_ndef_data', 'tag_memory'),
                   ('nfc.tag.tt2.Type2Tag.NDEF._write_ndef_data', 'tag_memory'),
                   ('nfc.tag.tt2.Type2Tag._format', 'memory')):
        f = prog.func(q)
        cfg = cfg_of(f)
        # `offset` holds the TLV offset when the length field is addressed
        for node in cfg.nodes:
            if node.kind != 'stmt' or not isinstance(node.ast, ast.Assign):
                continue
            t = node.ast.targets[0]
            if not (isinstance(t, ast.Subscript) and norm(t.value) == mem):
                continue
            n += 1
            idx = t.slice
            it = norm(idx)
            k = key(q, 'store stays inside the NDEF area', node.ast)
            # the TLV's own length field: L at offset + 1, the 16 bit extension at offset + 2..3 -- nothing else (offset + 2 alone is the
            # first value position, where a reserved byte may sit)
            if it in ('offset + 1',) or (isinstance(idx, ast.Slice) and norm(idx.lower) == 'offset + 2' and norm(idx.upper) == 'offset + 4'):
                # the TLV's own length field: offset must be the TLV offset (not advanced) at this point
                adv = [x for x in cfg.nodes if x.kind == 'stmt' and isinstance(x.ast, (ast.AugAssign, ast.Assign))
                       and any(norm(tt) == 'offset' for tt in (x.ast.targets if isinstance(x.ast, ast.Assign) else [x.ast.target]))]
                resets = [x for x in adv if isinstance(x.ast, ast.Assign) and norm(x.ast.value) in ('self._ndef_tlv_offset', 'self.ndef._ndef_tlv_offset')]
                moves = [x for x in adv if x not in resets]
                okk = node not in cfg.reachable(cfg.entry, avoid_nodes=resets)
                for m in moves:
                    if node in cfg.reachable(m, avoid_nodes=resets):
                        okk = False
                report.check(okk, 'C03-R1', k, f.loc(node.ast),
                             'the length-field store %s can execute with an offset that is not the NDEF TLV offset' % norm(node.ast))
                continue
            if isinstance(idx, ast.Slice):
                report.fail('C03-R1', k, f.loc(node.ast), 'slice store %s is not the TLV length field' % norm(node.ast))
                continue
            okk, p = _skip_guarded(cfg, f, node, it)
            report.check(okk, 'C03-R1', k, f.loc(node.ast),
                         'store %s is not protected by a `%s not in skip_bytes` guard: a lock / reserved byte declared by a control '
                         'TLV can be overwritten' % (norm(node.ast), it), fmt(cfg, p))
            if try_const(node.ast.value) == 0xFE:
                # terminator: additionally below the end of the data area
                ends = [(tn, 'true') for e, tn in cfg.test_nodes.items() if isinstance(e, ast.Compare) and norm(e.left) == it
                        and isinstance(e.ops[0], ast.Lt) and ('tag_memory_size' in norm(e.comparators[0]) or '* 8 + 16' in norm(e.comparators[0])
                                                              or _bound_to_area_end(f, e.comparators[0]))]
                okk, p = only_via(cfg, node, ends, ps=False) if ends else (False, None)
                report.check(okk, 'C03-R1', key(q, 'terminator only inside the data area', node.ast), f.loc(node.ast),
                             'the terminator TLV can be stored beyond the declared data area', fmt(cfg, p))
    report.floor('C03-R1', n, 9)
    # the wipe loop of Type2Tag._format is bounded by the data area
    f = prog.func('nfc.tag.tt2.Type2Tag._format')
    okk = bool(find(f.node, 'memory_size = memory[14] * 8 + 16')) and \
        any(isinstance(l, ast.For) and norm(l.iter) == 'range(offset + 1, memory_size)' and isinstance(l.target, ast.Name) and
            len(live(l.body)) == 1 and isinstance(live(l.body)[0], ast.If) and norm(live(l.body)[0].test) == l.target.id + ' not in skip_bytes' and
            all(isinstance(x, ast.Assign) and norm(x.targets[0]) == 'memory[%s]' % l.target.id for x in live(live(l.body)[0].body))
            for l in walk_no_nested(f.node))
    report.check(okk, 'C03-R1', key(f.qname, 'wipe loop runs from behind the empty TLV to the end of the data area'), f.loc(),
                 'Type 2 wipe range changed')
    # skip set comes from the reader (same object) and the data area end from the CC
    for q in ('nfc.tag.tt1.Type1Tag.NDEF._write_ndef_data', 'nfc.tag.tt2.Type2Tag.NDEF._write_ndef_data'):
        f = prog.func(q)
        okk = bool(find(f.node, 'skip_bytes = self._skip_bytes')) and bool(find(f.node, 'offset = self._ndef_tlv_offset'))
        report.check(okk, 'C03-R1', key(q, 'skip set and TLV offset are the ones computed by the reader'), f.loc(),
                     'writer no longer uses the reader\'s skip set / TLV offset')
    for q in ('nfc.tag.tt1.Type1Tag.NDEF._read_ndef_data', 'nfc.tag.tt2.Type2Tag.NDEF._read_ndef_data'):
        f = prog.func(q)
        okk = bool(find(f.node, 'self._skip_bytes = skip_bytes')) and bool(find(f.node, 'self._ndef_tlv_offset = offset')) and \
            len(find(f.node, 'skip_bytes.update($X)')) == 2
        report.check(okk, 'C03-R1', key(q, 'lock and memory control TLVs feed the skip set'), f.loc(),
                     'reader no longer records lock/reserved ranges')
    # static reserved range of Type 1 (bytes 104..119/127)
    f = prog.func('nfc.tag.tt1.Type1Tag.NDEF._read_ndef_data')
    okk = bool(find(f.node, 'skip_end = 120 if tag_memory_size == 120 else 128')) and bool(find(f.node, 'skip_bytes = set(range(104, skip_end))'))
    report.check(okk, 'C03-R1', key(f.qname, 'static lock/OTP bytes 104.. are always skipped'), f.loc(),
                 'Type 1 static reserved range changed')
    for mod in ('nfc.tag.tt1', 'nfc.tag.tt2'):
        for fn, size_expr in (('get_lock_byte_range', '((data[1] if data[1] > 0 else 256) + 7) // 8'), ('get_rsvd_byte_range', 'data[1] if data[1] > 0 else 256')):
            g = prog.func('%s.%s' % (mod, fn))
            okk = bool(find(g.node, 'page_addr = data[0] >> 4')) and bool(find(g.node, 'byte_offs = data[0] & 15')) and \
                bool(find(g.node, 'page_size = 2 ** (data[2] & 15)')) and bool(find(g.node, 'rsvd_from = page_addr * page_size + byte_offs')) and \
                bool(find(g.node, 'return slice(rsvd_from, rsvd_from + rsvd_size)')) and \
                any(norm(s.value) == size_expr for s in walk_no_nested(g.node) if isinstance(s, ast.Assign) and norm(s.targets[0]) == 'rsvd_size')
            report.check(okk, 'C03-R1', key(g.qname, 'control TLV -> byte range (NFC Forum T1T/T2T)'), g.loc(),
                         '%s no longer computes the range of the control TLV' % g.qname)


def rule_control_tlv_dispatch(report, prog, rule='C03-R1'):
    """Lock Control TLVs (type 1) reserve *bits* (size field / 8 rounded up), Memory Control TLVs (type 2) reserve *bytes*: each
    reader hands the value to the helper of its own kind and adds the result to the skip set."""
    want = {1: 'get_lock_byte_range', 2: 'get_rsvd_byte_range'}
    for q in ('nfc.tag.tt1.Type1Tag.NDEF._read_ndef_data', 'nfc.tag.tt2.Type2Tag.NDEF._read_ndef_data'):
        f = prog.func(q)
        got = {}
        for i in ast.walk(f.node):
            if isinstance(i, ast.If) and isinstance(i.test, ast.Compare) and norm(i.test.left) == 'tlv_t' and isinstance(i.test.ops[0], ast.Eq):
                t = try_const(i.test.comparators[0])
                if t in want:
                    got[t] = sorted(set(norm(c.func) for st in i.body for c in ast.walk(st)
                                        if isinstance(c, ast.Call) and norm(c.func) in want.values()))
        for t, fn in sorted(want.items()):
            report.check(got.get(t) == [fn], rule, key(q, 'control TLV type %d is evaluated by %s' % (t, fn)), f.loc(),
                         '%s evaluates control TLV type %d with %s: lock control sizes are bits, memory control sizes are bytes -- the reserved range '
                         'is wrong and NDEF data / capacity no longer avoid it' % (q, t, got.get(t)))
    # ... and each helper computes the range the TLV declares: position = PageAddr * 2^BytesPerPage + ByteOffset; a Lock Control
    # TLV reserves ceil(bits / 8) bytes, a Memory Control TLV `size` bytes, a size field of 0 means 256.  The helpers (and what they
    # call) are folded by the checker for a grid of TLV values and compared with that definition.
    from ..q import fold_func, NotConst
    grid = [(b0, b1, b2) for b0 in (0x00, 0x17, 0xA0, 0xFF) for b1 in (0, 1, 7, 8, 9, 16, 128, 255) for b2 in (0x00, 0x03, 0x44, 0x2F)]
    for mod in ('nfc.tag.tt1', 'nfc.tag.tt2'):
        for name, size_of in (('get_lock_byte_range', lambda s_: ((s_ or 256) + 7) // 8), ('get_rsvd_byte_range', lambda s_: (s_ or 256))):
            f = prog.func(mod + '.' + name)
            bad = []
            for b0, b1, b2 in grid:
                start = (b0 >> 4) * 2 ** (b2 & 15) + (b0 & 15)
                want_ = slice(start, start + size_of(b1))
                try:
                    got_ = fold_func(prog, f, [bytearray([b0, b1, b2])])
                except NotConst as e:
                    bad.append('cannot fold (%s)' % e)
                    break
                except Exception as e:      # noqa: B902 -- arithmetic on the folded values (index, type): report as a wrong range
                    got_ = '%s: %s' % (type(e).__name__, e)
                if got_ != want_:
                    bad.append('TLV value %02X %02X %02X: %s, the TLV declares bytes %d..%d' % (b0, b1, b2,
                               'bytes %d..%d' % (got_.start, got_.stop - 1) if isinstance(got_, slice) else got_, want_.start, want_.stop - 1))
            report.check(not bad, rule, key(mod + '.' + name, 'computes the byte range the control TLV declares'), f.loc(),
                         '%s.%s: %s' % (mod, name, '; '.join(bad[:2])), detail='%d TLV values folded' % len(grid))


# product -> allowed constant stores (start, stop) and expected value length
VENDOR = {
    'nfc.tag.tt1_broadcom.Topaz._format': {'mem': [(8, 14, 6), (9, 10, 1), (14, 104, 90)], 'area': (8, 104)},
    'nfc.tag.tt1_broadcom.Topaz512._format': {'mem': [(8, 16, 8), (16, 24, 8), (9, 10, 1), (24, 104, 80), (128, 512, 384)],
                                              'area': (8, 512), 'holes': [(104, 128)]},
}
NTAG_FORMAT = ['nfc.tag.tt2_nxp.NTAG203', 'nfc.tag.tt2_nxp.NTAG210', 'nfc.tag.tt2_nxp.NTAG212', 'nfc.tag.tt2_nxp.NTAG213',
               'nfc.tag.tt2_nxp.NTAG215', 'nfc.tag.tt2_nxp.NTAG216']


def rule_vendor(report, prog):
    for q, spec in sorted(VENDOR.items()):
        f = prog.func(q)
        stores = []
        for st in walk_no_nested(f.node):
            if isinstance(st, ast.Assign) and isinstance(st.targets[0], ast.Subscript) and norm(st.targets[0].value) == 'tag_memory':
                sl = st.targets[0].slice
                if isinstance(sl, ast.Slice):
                    lo, hi = try_const(sl.lower), try_const(sl.upper)
                else:
                    lo = try_const(sl)
                    hi = lo + 1 if isinstance(lo, int) else None
                vlen = None
                v = st.value
                c = try_const(v)
                if isinstance(c, (bytes, bytearray)):
                    vlen = len(c)
                elif isinstance(v, ast.BinOp) and isinstance(v.op, ast.Mult) and isinstance(try_const(v.right), int):
                    vlen = try_const(v.right)
                elif not isinstance(sl, ast.Slice):
                    vlen = 1
                stores.append((lo, hi, vlen, st))
        n_ok = 0
        for lo, hi, vlen, st in stores:
            okk = (lo, hi, vlen) in spec['mem'] and isinstance(lo, int) and spec['area'][0] <= lo and hi <= spec['area'][1] \
                and hi - lo == vlen and not any(lo < b and hi > a for a, b in spec.get('holes', []))
            report.check(okk, 'C03-R2', key(q, 'constant store inside the product NDEF area with matching length', st), f.loc(st),
                         '%s stores %s bytes to [%s:%s] -- outside the NDEF area %s of the product or with a value of different length '
                         '(lock / OTP / reserved bytes would be hit or the image shifted)' % (q, vlen, lo, hi, spec['area']))
        report.floor('C03-R2 ' + q, len(stores), len(spec['mem']))
        report.check(bool(find(f.node, 'tag_memory.synchronize()')), 'C03-R2', key(q, 'format goes through the changed-units write-back'), f.loc(),
                     'format no longer uses the memory image write-back')
    for cq in NTAG_FORMAT:
        c = prog.cls(cq)
        f = c.methods.get('_format')
        if f is None:
            raise AnalysisError('C03-R2: %s._format not found' % cq)
        ws = [cc for cc in ast.walk(f.node) if isinstance(cc, ast.Call) and norm(cc.func) == 'self.write']
        pages = [(try_const(w.args[0]), try_const(w.args[1])) for w in ws]
        okk = [p for p, v in pages] == [4, 5] and all(isinstance(v, bytes) and len(v) == 4 for p, v in pages)
        report.check(okk, 'C03-R2', key(f.qname, 'factory defaults go to pages 4 and 5 only, 4 byte each'), f.loc(),
                     '%s writes factory defaults to %r' % (cq, pages))
        if okk:
            # the 8 bytes are a well formed TLV sequence ending in an empty NDEF TLV + terminator
            blob = pages[0][1] + pages[1][1]
            i = 0
            seq = []
            while i < len(blob):
                t = blob[i]
                if t in (0x00, 0xFE):
                    seq.append((t, 0))
                    if t == 0xFE:
                        break
                    i += 1
                    continue
                l = blob[i + 1]
                seq.append((t, l))
                i += 2 + l
            report.check((0x03, 0) in seq and seq and seq[-1][0] == 0xFE, 'C03-R2', key(f.qname, 'defaults parse as control TLVs + empty NDEF TLV + terminator'),
                         f.loc(), 'factory default bytes %s do not form an empty NDEF area' % blob.hex())
        guard = any(isinstance(i_, ast.If) and norm(i_.test) == 'self.ndef is None' for i_ in walk_no_nested(f.node))
        report.check(guard, 'C03-R2', key(f.qname, 'defaults only written when no management data exists'), f.loc(),
                     'factory defaults overwrite an existing NDEF area')


def rule_t34(report, prog):
    w = prog.func('nfc.tag.tt4.Type4Tag.NDEF._wipe_ndef_data')
    okk = bool(find(w.node, 'offset = self._nlen_size')) and bool(find(w.node, 'data = bytearray(self._capacity * [wipe % 256])')) and \
        any(isinstance(l, ast.While) and norm(l.test) == 'offset < self.capacity' for l in walk_no_nested(w.node))
    report.check(okk, 'C03-R4', key(w.qname, 'wipe starts behind NLEN and is bounded by the capacity'), w.loc(),
                 'Type 4 wipe range changed')
    d = prog.func('nfc.tag.tt4.Type4Tag.NDEF._discover_ndef')
    from .c01 import rule_tt4_layout
    rule_tt4_layout(report, prog, rule='C03-R4')
    f = prog.func('nfc.tag.tt3.Type3Tag.NDEF._write_ndef_data')
    okk = any(isinstance(l, ast.For) and norm(l.iter).startswith('range(1, last_block_number') for l in walk_no_nested(f.node)) and \
        bool(find(f.node, 'last_block_number = 1 + (len(data) + 15) // 16')) and \
        bool(find(f.node, 'self._tag.write_to_ndef_service(block_data, *range(i, last_block))'))
    report.check(okk, 'C03-R4', key(f.qname, 'data blocks 1..ceil(len/16) only; block 0 only through the attribute writer'), f.loc(),
                 'Type 3 write addresses blocks outside 1..ceil(len/16)')
    t4w = prog.func('nfc.tag.tt4.Type4Tag.NDEF._write_ndef_data')
    from . import t4model
    v = t4model.verdicts(prog)
    report.check(not v['fold'] and not v['range'], 'C03-R4', key(t4w.qname, 'UPDATE BINARY offsets run from 0 to NLEN size + len(data)'), t4w.loc(),
                 'Type 4 write range changed: %s' % '; '.join((v['fold'] + v['range'])[:2]))


def rule_tlv_writer(report, prog, rule='C03-R1'):
    """The NDEF TLV writers of Type 1 / Type 2 folded over layouts x message lengths against a plain memory image (rules/tlvmodel.py):
    only the length field and free bytes of the data area behind it change -- no lock / reserved byte, nothing at or beyond the end
    of the data area (the terminator included, also when reserved bytes run up to or across the end) -- and the octets sit in order
    on the free addresses."""
    from . import tlvmodel
    v = tlvmodel.verdicts(prog)
    for kind in ('tt1', 'tt2'):
        f = prog.func('nfc.tag.%s.Type%sTag.NDEF._write_ndef_data' % (kind, kind[2]))
        problems, n = v[kind]
        report.check(not problems, rule, key(f.qname, 'folded writer changes only the length field and free bytes of the data area'), f.loc(),
                     '; '.join(problems[:2]), detail='%d (layout, message length) points folded' % n)


def rule_skip_set_complete(report, prog, rule='C03-R1'):
    """What a lock / memory control TLV declares reserved is reserved wherever it lies: the byte ranges the readers add to the skip
    set are cut only by a constant that covers the whole address space of the tag type (Type 1: 16 segments of 128 bytes, Type 2:
    CC size field), never by a run-time quantity such as the part of the image read so far (the image is loaded lazily: a range
    beyond it would silently drop out of the skip set and of the capacity)."""
    n = 0
    for kind, space in (('tt1', 2048), ('tt2', 2056)):
        f = prog.func('nfc.tag.%s.Type%sTag.NDEF._read_ndef_data' % (kind, kind[2]))
        for c in ast.walk(f.node):
            if isinstance(c, ast.Call) and isinstance(c.func, ast.Attribute) and c.func.attr == 'indices' and len(c.args) == 1:
                n += 1
                k = try_const(c.args[0])
                report.check(isinstance(k, int) and k >= space, rule, key(f.qname, 'control TLV byte range cut by a constant that covers the address space', norm(c.func.value)), f.loc(c),
                             '%s cuts the %s range with `%s`: addresses the control TLV reserves beyond that are not skipped (and counted as capacity)'
                             % (f.qname.replace('nfc.tag.', ''), norm(c.func.value), norm(c.args[0])))
    report.floor(rule + ' control TLV range cuts', n, 4)


def run(report, prog, tier):
    rule_control_tlv_dispatch(report, prog)
    rule_tlv_writer(report, prog)
    rule_skip_set_complete(report, prog)
    rule_guarded_stores(report, prog)
    rule_vendor(report, prog)
    c02.rule_writeback(report, prog)
    if 'C02-R3' in report.obligations:
        report.obligations['C03-R3'] = report.obligations.pop('C02-R3')
        for f in report.failures:
            if f.rule == 'C02-R3':
                f.rule = 'C03-R3'
        for s in report.samples:
            if s.get('rule') == 'C02-R3':
                s['rule'] = 'C03-R3'
    rule_t34(report, prog)
    from .c01 import rule_raw_capacity
    rule_raw_capacity(report, prog, rule='C03-R4')
    from .c01 import rule_tt2_memory_units, rule_image_flush
    rule_tt2_memory_units(report, prog, rule='C03-R4')
    rule_image_flush(report, prog, rule='C03-R4')
    report.trusted += ['product memory maps: Topaz 120 byte (data 8..103), Topaz-512 (data 8..103 and 128..511), NTAG user memory from page 4',
                       'control TLV semantics of NFC Forum T1T/T2T']
    report.assumptions += ['the capacity gate of C01-R1 keeps value bytes below the data-area end (value-level argument, not decided here)']


MUTANTS = [
    ('tt2-terminator-bound-before-skip', 'nfc.tag.tt2', """            while offset in skip_bytes:
                offset += 1
            if offset < tag_memory[14] * 8 + 16:
                tag_memory[offset] = 0xFE""", """            if offset < tag_memory[14] * 8 + 16:
                while offset in skip_bytes:
                    offset += 1
                tag_memory[offset] = 0xFE""", 'C03-R1'),
    ('tt1-skip-ranges-cut-by-image-length', 'nfc.tag.tt1', "skip_bytes.update(range(*lock_bytes.indices(0x800)))", "skip_bytes.update(range(*lock_bytes.indices(len(tag_memory))))", 'C03-R1'),
    ('tt2-sector-recorded-before-select', 'nfc.tag.tt2', "            sector_select_1 = b'\\xC2\\xFF'\n", "            self._current_sector = sector\n            sector_select_1 = b'\\xC2\\xFF'\n", 'C03-R4'),
    ('tt2-capacity-ignores-reserved-tail', 'nfc.tag.tt2', "capacity = len(set(range(offset, capacity + 16)) - skip_bytes)", "capacity = capacity + 16 - offset - sum(1 for a in skip_bytes if offset <= a < capacity)", 'C03-R4'),
    ('tt1-capacity-counts-reserved', 'nfc.tag.tt1', "capacity = len(set(range(offset, tag_memory_size)) - skip_bytes)", "capacity = tag_memory_size - offset", 'C03-R4'),
    ('tt2-data-ignores-skip', 'nfc.tag.tt2', """                while offset + index in skip_bytes:
                    offset += 1
                tag_memory[offset+index] = octet""", """                tag_memory[offset+index] = octet""", 'C03-R1'),
    ('tt1-data-ignores-skip', 'nfc.tag.tt1', """                while offset + i in skip_bytes:
                    offset += 1
                tag_memory[offset+i] = data[i]""", """                tag_memory[offset+i] = data[i]""", 'C03-R1'),
    ('tt2-terminator-ignores-skip', 'nfc.tag.tt2', """            while offset in skip_bytes:
                offset += 1
            if offset < tag_memory[14] * 8 + 16:""", """            if offset < tag_memory[14] * 8 + 16:""", 'C03-R1'),
    ('tt2-terminator-unbounded', 'nfc.tag.tt2', """            if offset < tag_memory[14] * 8 + 16:
                tag_memory[offset] = 0xFE""", """            if True:
                tag_memory[offset] = 0xFE""", 'C03-R1'),
    ('tt1-terminator-on-skip', 'nfc.tag.tt1', """                if offset not in skip_bytes:
                    tag_memory[offset] = 0xFE
                    break""", """                if True:
                    tag_memory[offset] = 0xFE
                    break""", 'C03-R1'),
    ('tt2-wipe-ignores-skip', 'nfc.tag.tt2', """                    if offset not in skip_bytes:
                        memory[offset] = wipe & 0xFF""", """                    if True:
                        memory[offset] = wipe & 0xFF""", 'C03-R1'),
    ('tt2-wipe-beyond-area', 'nfc.tag.tt2', "memory_size = memory[14] * 8 + 16", "memory_size = memory[14] * 8 + 32", 'C03-R1'),
    ('tt2-length-at-advanced-offset', 'nfc.tag.tt2', """            # Write the ndef message tlv length.
            offset = self._ndef_tlv_offset
            if len(data) < 255:""", """            # Write the ndef message tlv length.
            if len(data) < 255:""", 'C03-R1'),
    ('tt1-static-reserved', 'nfc.tag.tt1', "skip_bytes = set(range(104, skip_end))", "skip_bytes = set(range(112, skip_end))", 'C03-R1'),
    ('tt2-lock-range-size', 'nfc.tag.tt2', """    rsvd_size = ((data[1] if data[1] > 0 else 256) + 7) // 8
    page_size = 2 ** (data[2] & 0x0F)
    rsvd_from = page_addr * page_size + byte_offs
    return slice(rsvd_from, rsvd_from + rsvd_size)


def get_rsvd""", """    rsvd_size = ((data[1] if data[1] > 0 else 256)) // 8
    page_size = 2 ** (data[2] & 0x0F)
    rsvd_from = page_addr * page_size + byte_offs
    return slice(rsvd_from, rsvd_from + rsvd_size)


def get_rsvd""", 'C03-R1'),
    ('tt2-reader-ignores-memory-tlv', 'nfc.tag.tt2', """                        rsvd_bytes = get_rsvd_byte_range(tlv_v)
                        skip_bytes.update(range(*rsvd_bytes.indices(0x100000)))""", """                        rsvd_bytes = get_rsvd_byte_range(tlv_v)""", 'C03-R1'),
    ('topaz-wipe-into-lock', 'nfc.tag.tt1_broadcom', "tag_memory[14:104] = bytearray([wipe & 0xFF]) * 90", "tag_memory[14:112] = bytearray([wipe & 0xFF]) * 98", 'C03-R2'),
    ('topaz-cc-at-uid', 'nfc.tag.tt1_broadcom', 'tag_memory[8:14] = b"\\xE1\\x10\\x0E\\x00\\x03\\x00"', 'tag_memory[2:8] = b"\\xE1\\x10\\x0E\\x00\\x03\\x00"', 'C03-R2'),
    ('topaz512-wipe-through-reserved', 'nfc.tag.tt1_broadcom', """            tag_memory[24:104] = bytearray([wipe & 0xFF]) * 80
            tag_memory[128:512] = bytearray([wipe & 0xFF]) * 384""", """            tag_memory[24:512] = bytearray([wipe & 0xFF]) * 488""", 'C03-R2'),
    ('ntag213-defaults-to-page-3', 'nfc.tag.tt2_nxp', "            self.write(4, b'\\x01\\x03\\xA0\\x0C')", "            self.write(3, b'\\x01\\x03\\xA0\\x0C')", 'C03-R2'),
    ('ntag215-defaults-always', 'nfc.tag.tt2_nxp', """class NTAG215(NTAG21x):""", """class NTAG215(NTAG21x):
    _always = True""", 'C03-NONE'),
    ('tt2-writeback-all-pages', 'nfc.tag.tt2', "            if data != self._data_from_tag[index:index+4]:\n", "            if True:\n", 'C03-R3'),
    ('tt4-wipe-from-zero', 'nfc.tag.tt4', """            self._update_binary(0, nlen)
            offset = self._nlen_size
            data = bytearray""", """            self._update_binary(0, nlen)
            offset = 0
            data = bytearray""", 'C03-R4'),
    ('tt4-wipe-beyond-file', 'nfc.tag.tt4', "            while offset < self.capacity:", "            while offset < self.capacity + 16:", 'C03-R4'),
    ('tt3-writes-block-0', 'nfc.tag.tt3', "            for i in range(1, last_block_number, nbw):", "            for i in range(0, last_block_number, nbw):", 'C03-R4'),
]
MUTANTS = [m for m in MUTANTS if m[4] != 'C03-NONE']

EXPLANATION += ' Round 5: TLV writers folded over layouts (only the length field and free bytes of the data area change, terminator included); control TLV ranges cut only by an address-space constant; image flush folded.'
