# -*- coding: utf-8 -*-
"""C16 -- tag commands retry transient errors and fail only as TagCommandError."""
import ast

from ..model import norm, head, walk_no_nested, AnalysisError, FuncInfo, ClassInfo, enclosing_stmt, ancestors, live, last_live
from ..cfg import cfg_of
from ..resolve import Resolver, Ctx
from ..escape import Escape, fmt_chain, items_sorted
from ..q import find, match, try_const, tests, calls, only_via, cfg_node_for, fold_block, const
from ..core import key
from ..buf import P, FROM
from .c12 import TAG_BOUNDARIES

EXPLANATION = (
    'R1 for every concrete tag class and every public operation (methods and properties of the tag object and of its NDEF '
    'object) the class-rooted exception-escape analysis computes what can leave the call; allowed are the TagCommandError '
    'family, IOError of a broken host link, argument preconditions (a raise / assert whose guard mentions only parameters, '
    'in the entry function or its tag specific delegate, with literal call arguments pruning infeasible guards), the '
    'documented RuntimeError of the MAC read/write without authentication, the documented errors of the octets setter and '
    'ndeflib decode/encode errors of the records property; everything else is a failed obligation keyed by entry function, '
    'class and raise site.  R2 every CommunicationError->reason mapping site maps Timeout/Transmission/Protocol to '
    'TIMEOUT/RECEIVE/PROTOCOL_ERROR and is total over the classes the frontend can raise in reader mode; R3 every '
    'clf.exchange of a tag command sits in a bounded retry whose try body leaves the loop right after a successful '
    'exchange, retries=0 is honoured for the passive-ack sector select; R4 nfc.tag.activate catches CommunicationError; '
    'R2 the statements behind the retry loop folded per error class of the frontend map Timeout / Transmission / Protocol error to the three reason codes (also when the loop lives in an extracted helper); '
    'R5 tag controlled byte strings in the tag API (response frames, ATS, block data, control TLV values) are indexed, '
    'destructured or struct-unpacked only behind a length guard or in a handler -- unguarded reads are implicit IndexError / '
    'struct.error raise sites fed to R1; R6 failure values: where a helper answers a failed tag access with None / (None, None, None) '
    'instead of raising, every caller tests for it before computing with the result (nullness on the CFG).  '
    'Duplicate application of a retried state-changing command on the tag is not decided.')

BOUND = dict(TAG_BOUNDARIES)
# a tag re-senses itself with the very target object the driver returned: wrong-type / unsupported-bitrate errors cannot occur
BOUND['nfc.clf.ContactlessFrontend.sense'] = ['OSError']

# asserts that cannot fire, or that are argument contracts passed through unchanged from the public method
ASSERTS_OK = {
    'assert isinstance(tag, Type1Tag)': 'memory reader is constructed with the tag object itself',
    'assert isinstance(tag, Type2Tag)': 'memory reader is constructed with the tag object itself',
    'assert version is None or type(version) is int': 'argument contract of format(version, wipe)',
    'assert wipe is None or type(wipe) is int': 'argument contract of format(version, wipe)',
    'assert type(version) is int': 'argument contract of format(version, wipe)',
    'assert i < 65536': 'explicit bound of the dump() enumeration (termination guard)',
    'assert service_index < 65536': 'explicit bound of the dump() enumeration (termination guard)',
    'assert len(data) == 16 and type(block) is int': 'argument contract of write_without_mac(data, block); internal callers pass 16 byte blocks',
}
DELEGATES = ('_protect', '_authenticate', '_format', '_protect_with_password', '_protect_with_lockbits', '_dump')
DOCUMENTED = {
    ('RuntimeError', 'nfc.tag.tt3_sony.FelicaLite.read_with_mac'): ('read_with_mac',),
    ('RuntimeError', 'nfc.tag.tt3_sony.FelicaLiteS.write_with_mac'): ('write_with_mac',),
    ('AttributeError', 'nfc.tag.Tag.NDEF.octets.setter'): ('octets.setter', 'records.setter'),
    ('ValueError', 'nfc.tag.Tag.NDEF.octets.setter'): ('octets.setter', 'records.setter'),
    ('ndef.DecodeError', None): ('records',),
    ('ndef.EncodeError', None): ('records.setter',),
}


def presence_check_item(it):
    """Interface-summary item of the ISO-DEP presence check branch (`if command is None:`): that branch is only taken for the
    literal None passed by Type4Tag._is_present, which maps CommunicationError to False (checked by C12-R3)."""
    if it.origin != 'boundary' or it.node is None or it.site_func != 'nfc.tag.tt4.IsoDepInitiator.exchange':
        return False
    return any(isinstance(a, ast.If) and norm(a.test) == 'command is None' for a in ancestors(it.node))


def tag_classes(prog):
    base = prog.cls('nfc.tag.Tag')
    return [c for c in prog.subclasses(base, strict=True) if c.module.name.startswith('nfc.tag')]


def public_api(prog, c):
    names = {}
    for k in prog.mro(c):
        if isinstance(k, ClassInfo):
            for n, m in k.methods.items():
                if not n.startswith('_') and n not in names:
                    names[n] = prog.lookup(c, n)
            for n, m in k.setters.items():
                names.setdefault(n + '.setter', prog.lookup_setter(c, n))
    return {n: f for n, f in names.items() if isinstance(f, FuncInfo)}


def guard_only_params(item, prog):
    """Is the raise/assert guarded by a condition over the function's own parameters (and literals) only?"""
    node = item.node
    f = prog.functions.get(item.site_func)
    if node is None or f is None:
        return False
    params = set(f.params) - {'self'}
    cond = None
    if isinstance(node, ast.Assert):
        cond = node.test
    else:
        for a in ancestors(node):
            if a is f.node:
                break
            if isinstance(a, ast.If):
                cond = a.test
                break
    if cond is None:
        return False
    names = set(x.id for x in ast.walk(cond) if isinstance(x, ast.Name)) - {'len', 'type', 'int', 'str', 'isinstance', 'bytes', 'bytearray', 'None', 'True', 'False'}
    attrs = [x for x in ast.walk(cond) if isinstance(x, ast.Attribute)]
    # a parameter re-bound from a parameter (key = password[0:16] ...) still counts
    derived = set()
    for st in walk_no_nested(f.node):
        if isinstance(st, ast.Assign) and len(st.targets) == 1 and isinstance(st.targets[0], ast.Name):
            src = set(x.id for x in ast.walk(st.value) if isinstance(x, ast.Name))
            if src and src <= params | derived and not any(isinstance(x, (ast.Attribute, ast.Call)) and 'self' in norm(x) for x in ast.walk(st.value)):
                derived.add(st.targets[0].id)
    return bool(names) and names <= params | derived and not attrs


# tag controlled buffers of the public tag API beyond the activation / NDEF read path covered by the C08 table
API_BUFFERS = [
    ('nfc.tag.tt1.Type1Tag.write_block', FROM('self.transceive'), 0, 'WRITE8 response'),
    ('nfc.tag.tt2.Type2Tag.write', FROM('self.transceive'), 0, 'WRITE response'),
    ('nfc.tag.tt2_nxp.NTAG21x._protect_with_lockbits', FROM('self.read'), 0, 'READ response'),
    ('nfc.tag.tt2_nxp.NTAG21x._protect_with_password', FROM('self.read'), 0, 'READ response'),
    ('nfc.tag.tt2_nxp.MifareUltralightC._authenticate', FROM('self.transceive'), 0, 'AUTHENTICATE response'),
    ('nfc.tag.tt2_nxp.NTAG21x._authenticate', FROM('self.transceive'), 0, 'PWD_AUTH response'),
    ('nfc.tag.tt3_sony.FelicaLite._format', FROM('self.read_without_mac'), 0, 'MC block'),
    ('nfc.tag.tt3_sony.FelicaLite._protect', FROM('self.read_without_mac'), 0, 'MC block'),
    ('nfc.tag.tt3_sony.FelicaLiteS._protect', FROM('self.read_without_mac'), 0, 'MC / CKV block'),
    ('nfc.tag.tt3_sony.FelicaStandard.request_service', FROM('self.send_cmd_recv_rsp'), 0, 'request service response'),
    ('nfc.tag.tt3_sony.FelicaStandard.request_response', FROM('self.send_cmd_recv_rsp'), 0, 'request response response'),
    ('nfc.tag.tt3_sony.FelicaStandard.search_service_code', FROM('self.send_cmd_recv_rsp'), 0, 'search service code response'),
    ('nfc.tag.tt3_sony.FelicaStandard.request_system_code', FROM('self.send_cmd_recv_rsp'), 0, 'request system code response'),
]


def rule_escape(report, prog, res, tier):
    from . import c08buf
    implicit_sites = {}
    c08buf.run(report, prog, res, implicit_sites, RULE='C16-R5', extra_buffers=[b for b in API_BUFFERS if b[0] in prog.functions])
    report.stats['implicit_raise_sites'] = {q: [t.split(' [')[0] for n_, e, t in v] for q, v in sorted(implicit_sites.items())}

    def implicit(func, ctx):
        return implicit_sites.get(func.qname, [])
    classes = tag_classes(prog)
    n_entries = 0
    summary = {}
    bad = {}
    for c in classes:
        entries = [(n, f, Ctx(c)) for n, f in sorted(public_api(prog, c).items())]
        ndef_cls = None
        for k in prog.mro(c):
            if isinstance(k, ClassInfo) and 'NDEF' in k.nested:
                ndef_cls = k.nested['NDEF']
                break
        if ndef_cls is not None:
            for n, f in sorted(public_api(prog, ndef_cls).items()):
                entries.append(('ndef.' + n, f, Ctx(ndef_cls, c)))
        for name, f, ctx in entries:
            n_entries += 1
            esc = Escape(prog, res, boundaries=BOUND, implicit=implicit, catalog={'ndef.message_decoder': ['ndef.DecodeError'], 'ndef.message_encoder': ['ndef.EncodeError']})
            r = esc.esc(f, ctx)
            short = name.split('.')[-1] if not name.endswith('.setter') else '.'.join(name.split('.')[-2:])
            for it in items_sorted(r):
                if prog.exc_is_sub(it.exc, 'nfc.tag.TagCommandError') or it.exc == 'OSError':
                    continue
                if it.origin == 'assert' and it.site_text in ASSERTS_OK:
                    summary.setdefault('asserts_skipped', set()).add(it.site_text)
                    continue
                if presence_check_item(it) and short != 'is_present':
                    continue
                doc = DOCUMENTED.get((it.exc, it.site_func)) or DOCUMENTED.get((it.exc, None))
                if doc and short in doc:
                    continue
                site_name = it.site_func.split('.')[-1]
                if it.origin in ('explicit', 'assert') and it.exc in ('ValueError', 'TypeError', 'AssertionError') and \
                        (it.site_func == f.qname or site_name in DELEGATES or site_name == '_' + short) and guard_only_params(it, prog):
                    summary.setdefault('argument_preconditions', set()).add('%s: %s' % (it.site_func, it.site_text))
                    continue
                if it.site_func == f.qname and it.origin in ('explicit', 'assert') and it.exc in ('ValueError', 'TypeError') \
                        and guard_only_params(it, prog):
                    continue
                if it.exc == 'RuntimeError' and it.site_text == "raise RuntimeError('unexpected ' + repr(error))" and \
                        report.stats.get('mapping_total', {}).get(it.site_func):
                    continue        # fall-through behind a mapping that is total over the reader-mode errors (C16-R2)
                bad.setdefault((it.exc, it.site_func, it.site_text.split(' [')[0]), []).append(('%s.%s' % (c.name, name), it, f))
            report.ok('C16-R1', key(c.qname, name, 'only documented errors on the remaining raise paths'), f.loc(),
                      detail='%d functions analysed' % len(esc.analysed))
    for (exc, site_func, site_text), lst in sorted(bad.items()):
        ents = sorted(set(e for e, it, f in lst))
        it, f = lst[0][1], lst[0][2]
        report.fail('C16-R1', key(exc, 'raised in ' + site_func, site_text), f.loc(),
                    '%s raised in %s (%s) can reach the application through %d public operations (%s%s) -- neither a TagCommandError nor a '
                    'documented result' % (exc, site_func.replace('nfc.tag.', ''), site_text, len(ents), ', '.join(ents[:4]), ', ...' if len(ents) > 4 else ''),
                    fmt_chain(it))
    report.floor('C16-R1 entries', n_entries, 600)
    report.stats['tag_classes'] = len(classes)
    report.stats['entries'] = n_entries
    report.stats['argument_preconditions'] = sorted(summary.get('argument_preconditions', []))
    report.stats['asserts_skipped'] = {k: ASSERTS_OK[k] for k in sorted(summary.get('asserts_skipped', []))}


def stmt_lists(root):
    for node in ast.walk(root):
        for fld in ('body', 'orelse', 'finalbody'):
            lst = getattr(node, fld, None)
            if isinstance(lst, list) and lst and isinstance(lst[0], ast.stmt):
                yield lst
        if isinstance(node, ast.Try):
            for h in node.handlers:
                yield h.body


def _retry_unit(prog, f):
    """The function that holds the retry loop of a transceive operation: the operation itself, or a method that the reference tree
    does not have (an extracted helper) and that the operation calls on self."""
    from ..inline import is_new_unit
    if any(isinstance(c, ast.Call) and norm(c.func) == 'self.clf.exchange' for c in ast.walk(f.node)):
        return f
    cls = f.qname.rsplit('.', 1)[0]
    for c in walk_no_nested(f.node):
        if isinstance(c, ast.Call) and isinstance(c.func, ast.Attribute) and norm(c.func.value) == 'self':
            g = prog.functions.get(cls + '.' + c.func.attr)
            if g is not None and is_new_unit(g.module.name, g.qname[len(g.module.name) + 1:]) and \
                    any(isinstance(x, ast.Call) and norm(x.func) == 'self.clf.exchange' for x in ast.walk(g.node)):
                return g
    return f


WANT = {'nfc.clf.TimeoutError': 'nfc.tag.TIMEOUT_ERROR', 'nfc.clf.TransmissionError': 'nfc.tag.RECEIVE_ERROR',
        'nfc.clf.ProtocolError': 'nfc.tag.PROTOCOL_ERROR'}


def error_mapping(prog, f, want=None, reader_mode=None):
    """Fold the statements that run when the retry loop of a transceive operation is used up, once per error class the frontend raises
    in reader mode -> ({error class: reason code of the TagCommandError raised}, unit holding the loop)."""
    want = want or WANT
    reader_mode = reader_mode or set(x for x in TAG_BOUNDARIES['nfc.clf.ContactlessFrontend.exchange'] if x != 'OSError')
    got = {}
    g = _retry_unit(prog, f)
    loops = [lp for lp in walk_no_nested(g.node) if isinstance(lp, ast.For) and
             any(isinstance(c, ast.Call) and norm(c.func) == 'self.clf.exchange' for c in ast.walk(lp))]
    if len(loops) == 1:
        lp = loops[0]
        region = lp.orelse
        if not region:
            # no for/else: the statements behind the loop run when the retries are used up
            for lst in stmt_lists(g.node):
                if any(x is lp for x in lst):
                    region = lst[[x is lp for x in lst].index(True) + 1:]
        toks = {k: ('class', k) for k in want}
        codes = {v: ('code', v) for v in want.values()}
        for cls in sorted(reader_mode | set(want)):
            tok = toks.get(cls, ('class', cls))
            env = dict((k, v) for k, v in toks.items())
            env.update(codes)
            env['type(error)'] = tok
            env['error.__class__'] = tok
            try:
                r = fold_block(list(region), env)
            except Exception:
                continue
            rs = env.get('__raise__')
            if r[0] == 'raise' and rs is not None and isinstance(rs.exc, ast.Call) and len(rs.exc.args) == 1 \
                    and norm(rs.exc.func).endswith('TagCommandError'):
                try:
                    v = const(rs.exc.args[0], env)
                except Exception:
                    continue
                if isinstance(v, tuple) and v[0] == 'code':
                    got[cls] = v[1]
    return got, g


def rule_mapping(report, prog):
    want = {'nfc.clf.TimeoutError': 'nfc.tag.TIMEOUT_ERROR', 'nfc.clf.TransmissionError': 'nfc.tag.RECEIVE_ERROR',
            'nfc.clf.ProtocolError': 'nfc.tag.PROTOCOL_ERROR'}
    reader_mode = set(x for x in TAG_BOUNDARIES['nfc.clf.ContactlessFrontend.exchange'] if x != 'OSError')
    n = 0
    for q in ('nfc.tag.tt1.Type1Tag.transceive', 'nfc.tag.tt2.Type2Tag.transceive', 'nfc.tag.tt3.Type3Tag.send_cmd_recv_rsp'):
        f = prog.func(q)
        got, g = error_mapping(prog, f, want, reader_mode)
        if g is not f:
            report.stats.setdefault('mapping_unit', {})[q] = g.qname
        n += 1
        report.check(got == want, 'C16-R2', key(q, 'Timeout/Transmission/Protocol -> TIMEOUT/RECEIVE/PROTOCOL_ERROR'), f.loc(),
                     'error mapping of %s: %r' % (q, got))
        tot = report.check(set(got) >= reader_mode, 'C16-R2', key(q, 'mapping is total over the errors the frontend raises in reader mode'), f.loc(),
                           'no mapping for %s: the fall-through raises an unrelated exception' % sorted(reader_mode - set(got)))
        report.stats.setdefault('mapping_total', {})[q] = bool(tot)
        report.stats['mapping_total'][g.qname] = bool(tot)
        hs = [norm(h.type) for t in walk_no_nested(g.node) if isinstance(t, ast.Try) for h in t.handlers if h.type is not None]
        report.check('nfc.clf.CommunicationError' in hs, 'C16-R2', key(q, 'retry loop catches CommunicationError'), f.loc(), 'handlers: %s' % hs)
    report.floor('C16-R2', n, 3)
    # tt4 sites are checked by C12-R3; count them here for the table
    f = prog.func('nfc.tag.tt4.IsoDepInitiator.exchange')
    tr = [t for t in walk_no_nested(f.node) if isinstance(t, ast.Try)]
    okk = len(tr) >= 2
    for t in tr:
        hm = {}
        for h in t.handlers:
            codes = sorted(set(norm(r.exc.args[0]) for r in ast.walk(h) if isinstance(r, ast.Raise) and isinstance(r.exc, ast.Call) and r.exc.args))
            hm[norm(h.type)] = codes
        okk = okk and hm == {k: [v] for k, v in want.items()}
    report.check(okk, 'C16-R2', key(f.qname, 'every ISO-DEP exchange handler maps the three error classes'), f.loc(), 'ISO-DEP error mapping changed')
    # reason code constants
    m = prog.modules['nfc.tag']
    vals = {k: try_const(m.names[k][1]) for k in ('TIMEOUT_ERROR', 'RECEIVE_ERROR', 'PROTOCOL_ERROR') if k in m.names and m.names[k][0] == 'expr'}
    report.check(vals == {'TIMEOUT_ERROR': 0, 'RECEIVE_ERROR': -1, 'PROTOCOL_ERROR': -2}, 'C16-R2', key('nfc.tag', 'general reason codes 0, -1, -2'),
                 m.relpath, 'reason code constants changed: %r' % vals)


def rule_retry(report, prog):
    specs = [('nfc.tag.tt1.Type1Tag.transceive', 'range(3)'), ('nfc.tag.tt2.Type2Tag.transceive', 'range(1 + retries)'),
             ('nfc.tag.tt3.Type3Tag.send_cmd_recv_rsp', None)]
    for q, rng in specs:
        f = _retry_unit(prog, prog.func(q))
        ex = [c for c in ast.walk(f.node) if isinstance(c, ast.Call) and norm(c.func) == 'self.clf.exchange']
        report.check(len(ex) == 1, 'C16-R3', key(q, 'one exchange site'), f.loc(), '%d exchange sites' % len(ex))
        if len(ex) != 1:
            continue
        loops = [a for a in ancestors(ex[0]) if isinstance(a, ast.For)]
        okk = len(loops) == 1 and norm(loops[0].iter).startswith('range(') and (rng is None or norm(loops[0].iter) == rng)
        report.check(okk, 'C16-R3', key(q, 'exchange inside a bounded retry loop'), f.loc(), 'exchange is not inside a bounded retry loop')
        tr = [a for a in ancestors(ex[0]) if isinstance(a, ast.Try)]
        okk = False
        if tr and loops:
            body = tr[0].body
            idx = [i for i, s in enumerate(body) if any(x is ex[0] for x in ast.walk(s))]
            # the statement right after a successful exchange leaves the loop
            okk = bool(idx) and idx[0] + 1 < len(body) and isinstance(body[idx[0] + 1], ast.Break)
            # ... or the exchange is the value of a return statement
            by_return = bool(idx) and isinstance(body[idx[0]], ast.Return) and body[idx[0]].value is ex[0]
            okk = okk or by_return
        report.check(okk, 'C16-R3', key(q, 'an answered command leaves the retry loop immediately (break)'), f.loc(),
                     'after a successful exchange the command can be sent again')
        # a loop that is only left by return / raise needs no else: what follows it runs exactly when the retries are used up
        no_break = bool(loops) and not any(isinstance(x, ast.Break) for x in ast.walk(loops[0]))
        report.check(bool(loops) and (bool(loops[0].orelse) or no_break), 'C16-R3', key(q, 'exhausted retries reach the error mapping (for/else)'), f.loc(),
                     'retry loop has no else branch for exhausted retries')
    f = prog.func('nfc.tag.tt2.Type2Tag.sector_select')
    okk = any(isinstance(c, ast.Call) and norm(c.func) == 'self.transceive' and {k.arg: norm(k.value) for k in c.keywords} == {'timeout': '0.001', 'retries': '0'}
              for c in ast.walk(f.node))
    report.check(okk, 'C16-R3', key(f.qname, 'passive-ack sector select packet is sent once (retries=0)'), f.loc(),
                 'second SECTOR SELECT packet may be retried')
    g = prog.func('nfc.tag.tt2.Type2Tag.transceive')
    d = {a.arg: norm(v) for a, v in zip(g.node.args.args[-len(g.node.args.defaults):], g.node.args.defaults)}
    report.check(d == {'timeout': '0.1', 'retries': '2'}, 'C16-R3', key(g.qname, 'default: 1 + 2 attempts'), g.loc(), 'transceive defaults: %r' % d)
    # retries are switched off only where a repetition would be wrong: the passively acknowledged second SECTOR SELECT packet.  Any
    # other command sent with fewer attempts than the default does not survive a single transient error.
    n_sites = 0
    for fn in prog.functions.values():
        if not fn.qname.startswith('nfc.tag.'):
            continue
        for c in walk_no_nested(fn.node):
            if isinstance(c, ast.Call) and isinstance(c.func, ast.Attribute) and c.func.attr == 'transceive':
                kw = {k.arg: k.value for k in c.keywords}
                if 'retries' in kw:
                    n_sites += 1
                    v = try_const(kw['retries'])
                    passive_ack = fn.qname == 'nfc.tag.tt2.Type2Tag.sector_select' and c.args and norm(c.args[0]) == 'sector_select_2'
                    report.check(passive_ack or (isinstance(v, int) and v >= 2), 'C16-R3',
                                 key(fn.qname, 'retries are reduced only for the passive-ack packet', c), fn.loc(c),
                                 '%s sends `%s` with retries=%s: the command is not repeated after a transient error although a repetition would be safe'
                                 % (fn.qname, norm(c), norm(kw['retries'])))
    report.floor('C16-R3 explicit retries', n_sites, 1)
    # after the retry loop the response variable is bound on every path that gets there: every exit of the loop without a response
    # goes through the error mapping (a `break` out of the handler would reach the response checks with nothing received)
    from .c01 import unbound_uses
    for q in ('nfc.tag.tt1.Type1Tag.transceive', 'nfc.tag.tt2.Type2Tag.transceive', 'nfc.tag.tt3.Type3Tag.send_cmd_recv_rsp'):
        fn = prog.func(q)

        def infeasible(cfg, fn=fn, q=q):
            # the error mapping after the retry loop is total over what exchange() raises in reader mode (C16-R2): the last test of the
            # chain cannot fail
            if not report.stats.get('mapping_total', {}).get(q):
                return []
            out = []
            for lp in walk_no_nested(fn.node):
                if isinstance(lp, ast.For) and lp.orelse:
                    last = last_live(lp.orelse)
                    if isinstance(last, ast.If) and isinstance(last_live(last.body), ast.Raise) and not last.orelse:
                        out += [(tn, 'false') for e, tn in cfg.test_nodes.items() if any(x is e for x in ast.walk(last.test)) or e is last.test]
            return out
        uses = unbound_uses(fn, infeasible)
        seen = set()
        for var, node, x in uses:
            if (var, node.id) in seen:
                continue
            seen.add((var, node.id))
            report.fail('C16-R3', key(q, 'response is bound on every path that evaluates it', var, enclosing_stmt(x) or x), fn.loc(x),
                        '%s: `%s` can be read at `%s` without having been assigned: a path leaves the retry loop without a response and without '
                        'raising the mapped TagCommandError (UnboundLocalError reaches the application)' % (q, var, norm(enclosing_stmt(x) or x)[:60]))
        if not uses:
            report.ok('C16-R3', key(q, 'every local is bound on every path before use'), fn.loc())


def rule_activate(report, prog, rule='C16-R4'):
    f = prog.func('nfc.tag.activate')
    hs = {norm(h.type): [norm(s) for s in live(h.body)] for t in walk_no_nested(f.node) if isinstance(t, ast.Try) for h in t.handlers if h.type is not None}
    report.check(hs == {'nfc.clf.CommunicationError': ['return None']}, rule, key(f.qname, 'CommunicationError during activation -> None'), f.loc(),
                 'activation boundary changed: %r' % hs)
    tr = [t for t in walk_no_nested(f.node) if isinstance(t, ast.Try)]
    acts = [c for c in ast.walk(f.node) if isinstance(c, ast.Call) and norm(c.func).startswith('activate_tt')]
    okk = len(tr) == 1 and acts and all(any(x is c for x in ast.walk(tr[0])) for c in acts)
    report.check(okk, rule, key(f.qname, 'every type specific activation is inside the try'), f.loc(), 'an activation call is outside the try')


def rule_failure_values(report, prog, res, rule='C16-R6'):
    """R6: helpers that answer a failed tag access with None / (None, None, None) instead of raising (read_tlv, the attribute
    block readers, the ISO-DEP exchange): every caller in nfc.tag tests for that value before it computes with the result."""
    from .. import nullness
    funcs = [f for f in prog.functions.values() if f.qname.startswith('nfc.tag.')]
    n = 0
    for f in sorted(funcs, key=lambda f: f.qname):
        if f.name in ('format', 'protect', 'authenticate', 'activate', 'process_command') or f.name.startswith('_read_ndef'):
            continue        # results handed to the application / tested by Tag.ndef (C08)
        kind = nullness.sentinel_kind(f)
        if kind:
            n += nullness.check_callers(report, prog, res, f, rule, funcs, 'a %s result on a tag error' % ('(None, ...)' if kind == 'tuple' else 'None'))
    report.floor(rule, n, 5)


_MUTATORS = ('append', 'extend', 'insert', 'pop', 'remove', 'clear', 'reverse', 'sort', '__iadd__', '__setitem__')


def inplace_param_mutations(source):
    """(function name, parameter, line, statement text) for every statement of the *unnormalised* module source that changes an object
    passed in as a parameter: `p += ..` (in place for a bytearray), a mutator method, a subscript store or delete -- unless the name
    was re-bound by a plain assignment earlier in the function (`data = bytearray(data)`)."""
    out = []
    for f in ast.walk(ast.parse(source)):
        if not isinstance(f, (ast.FunctionDef, ast.AsyncFunctionDef)):
            continue
        params = [a.arg for a in f.args.posonlyargs + f.args.args + f.args.kwonlyargs if a.arg not in ('self', 'cls')]
        rebound = {}
        for st in ast.walk(f):
            if isinstance(st, ast.Assign):
                for t in st.targets:
                    for x in ast.walk(t):
                        if isinstance(x, ast.Name) and isinstance(x.ctx, ast.Store) and not isinstance(t, ast.Subscript):
                            rebound[x.id] = min(rebound.get(x.id, st.lineno), st.lineno)
        # a parameter is a sequence (where `p += x` works in place) when the function takes its length, subscripts or iterates it;
        # augmented assignments to number parameters (`reg >>= 1`, `timeout += 1`) re-bind a local and change nothing outside
        seq = set()
        for x in ast.walk(f):
            if isinstance(x, ast.Call) and isinstance(x.func, ast.Name) and x.func.id in ('len', 'bytes', 'bytearray', 'hexlify') and x.args and isinstance(x.args[0], ast.Name):
                seq.add(x.args[0].id)
            elif isinstance(x, ast.Subscript) and isinstance(x.value, ast.Name):
                seq.add(x.value.id)
            elif isinstance(x, (ast.For, ast.comprehension)) and isinstance(x.iter, ast.Name):
                seq.add(x.iter.id)
        for st in ast.walk(f):
            hit = None
            if isinstance(st, ast.AugAssign) and isinstance(st.target, ast.Name) and isinstance(st.op, (ast.Add, ast.Mult)) and st.target.id in seq:
                hit = st.target.id
            elif isinstance(st, ast.AugAssign) and isinstance(st.target, ast.Subscript) and isinstance(st.target.value, ast.Name):
                hit = st.target.value.id
            elif isinstance(st, ast.Call) and isinstance(st.func, ast.Attribute) and st.func.attr in _MUTATORS and isinstance(st.func.value, ast.Name):
                hit = st.func.value.id
            elif isinstance(st, (ast.Assign, ast.Delete)):
                for t in st.targets:
                    if isinstance(t, ast.Subscript) and isinstance(t.value, ast.Name):
                        hit = t.value.id
            if hit in params and not (hit in rebound and rebound[hit] < st.lineno):
                out.append((f.name, hit, st.lineno, ast.unparse(st)[:80]))
    return out


def rule_command_not_mutated(report, prog, rule='C16-R3'):
    """The tag layer repeats a command by handing the *same* buffer to ContactlessFrontend.exchange() again.  Nothing below may change
    that object: no function of the nfc.clf package (frontend, drivers, CRC helpers) modifies an argument in place -- `data += crc`
    on a bytearray parameter makes the second attempt carry the CRC twice.  Decided on the unnormalised source (the canonical form
    reads `x = x + e` and `x += e` alike, which is exactly the difference here).  The clean tree has no instance; an in-memory
    variant of Device.add_crc_a shows the rule firing (canary)."""
    n, bad = 0, []
    for name, m in sorted(prog.modules.items()):
        if not name.startswith('nfc.clf'):
            continue
        n += 1
        for fn, param, line, text in inplace_param_mutations(m.source):
            bad.append('%s:%d %s() changes its argument %s in place: `%s`' % (m.relpath, line, fn, param, text))
    report.check(not bad, rule, key('nfc.clf', 'no function below exchange() modifies an argument in place (a repeated command is sent as it was)'), None,
                 '; '.join(bad[:3]), detail='%d modules of nfc.clf' % n)
    report.floor(rule + ' nfc.clf modules', n, 12)
    variant = 'def add_crc_a(data):\n    crc = calculate_crc(data, len(data), 0x6363)\n    data += crc\n    return data\n'
    twin = 'def add_crc_a(data):\n    crc = calculate_crc(data, len(data), 0x6363)\n    return data + crc\n'
    report.canary('C16-R3 in-place canary', len(inplace_param_mutations(variant)) == 1 and not inplace_param_mutations(twin))


def rule_no_write_retry(report, prog, rule='C16-R3'):
    """Transient errors are absorbed once, in transceive() / send_cmd_recv_rsp(); a tag *error response* means the command was received
    and answered.  No function of nfc.tag issues a state-changing command (write / update binary) again after its own handler caught a
    tag command error: in the CFG the write is not reachable from the handler of the try that encloses it (a handler that leaves the
    loop, raises or returns is fine) -- a second write after a lost response executes the command twice."""
    from ..cfg import cfg_of
    from ..q import cfg_node_for
    n, bad = 0, []
    for q, f in sorted(prog.functions.items()):
        if not q.startswith('nfc.tag.') or q.startswith('nfc.tag.tt3.Type3TagEmulation'):
            continue
        for t in walk_no_nested(f.node):
            if not isinstance(t, ast.Try):
                continue
            wr = [c for st in t.body for c in ast.walk(st) if isinstance(c, ast.Call) and
                  ('write' in norm(c.func).split('.')[-1] or 'update_binary' in norm(c.func).split('.')[-1]) and not norm(c.func).startswith(('log.', 'self.log.'))]
            hs = [h for h in t.handlers if h.type is None or 'CommandError' in norm(h.type) or norm(h.type) in ('Exception', 'BaseException')]
            if not wr or not hs:
                continue
            n += 1
            cfg = cfg_of(f)
            wn = [cfg_node_for(cfg, enclosing_stmt(c)) for c in wr]
            for h in hs:
                hn = [cfg_node_for(cfg, st) for st in h.body]
                reach = set()
                for x in hn:
                    if x is not None:
                        reach |= cfg.reachable(x)
                again = [w for w in wn if w is not None and w in reach]
                if again:
                    bad.append((f, h, again[0]))
    for f, h, w in bad:
        report.fail(rule, key(f.qname, 'a write command is not issued again after its handler caught a tag command error', norm(w.ast)[:60]), f.loc(h),
                    '%s: after `except %s` the command `%s` can be sent again: a write whose answer was lost or refused is executed a second time'
                    % (f.qname, norm(h.type) if h.type is not None else '', norm(w.ast)[:70]))
    report.ok(rule, key('nfc.tag', 'no write command is re-issued from a tag command error handler'), None,
              detail='%d try statements around write commands in nfc.tag, %d with a path from the handler back to the write' % (n, len(bad)))
    report.floor(rule + ' try statements around write commands', n, 4)


def rule_tt4_dump(report, prog, rule='C16-R7'):
    """Type 4 Tag dump(): folded against a file that answers every READ BINARY with 16 octets the dump ends by itself and never hands
    READ BINARY an offset its P1 P2 cannot carry (which would be a struct.error instead of a tag command error)."""
    from . import t4model
    f = prog.func('nfc.tag.tt4.Type4Tag.NDEF._dump_ndef_data')
    problems = t4model.dump_offsets(prog)
    report.check(not problems, rule, key(f.qname, 'dump of an endless file ends and stays inside the offsets READ BINARY can carry'), f.loc(),
                 '; '.join(problems[:2]), detail='addressable offsets end at %s' % (t4model.address_limit(prog)[0],))


def run(report, prog, tier):
    res = Resolver(prog)
    rule_mapping(report, prog)
    rule_tt4_dump(report, prog)
    rule_command_not_mutated(report, prog)
    rule_no_write_retry(report, prog)
    rule_escape(report, prog, res, tier)
    rule_retry(report, prog)
    rule_activate(report, prog)
    rule_failure_values(report, prog, res)
    report.trusted += ['interface summary: in reader mode ContactlessFrontend.exchange raises TimeoutError, TransmissionError, ProtocolError or IOError (C13); '
                       'sense() of the tag\'s own target raises only IOError',
                       'ndeflib raises ndef.DecodeError / ndef.EncodeError']
    report.assumptions += ['implicit exceptions (IndexError on short responses) are the subject of C08', 'IOError of a broken host link is outside the tag error vocabulary']


from .. import triage   # noqa: E402


def _k(exc, site, text):
    return key(exc, 'raised in ' + site, text)


triage.add('C16', 'C16-R1', _k('AssertionError', 'nfc.tag.tt3_sony.FelicaLite.generate_mac', 'assert len(data) % 8 == 0 and len(key) == 16 and (len(iv) == 8)'),
           'data comes from read_without_encryption, which raises DATA_SIZE_ERROR unless len == 1 + 16*blocks; the key is password[0:16] of a '
           'password whose length was checked (>= 16) or the 16 byte session key; the IV is rc[0:8] of a 16 byte challenge',
           [('nfc.tag.tt3.Type3Tag.read_without_encryption', 'text:len(data) != 1 + len(block_list) * 16'),
            ('nfc.tag.tt3_sony.FelicaLite._authenticate', 'text:password and len(password) < 16'),
            ('nfc.tag.tt3_sony.FelicaLite._authenticate', 'rc = os.urandom(16)')])
for _t, _f in (("raise RuntimeError('authentication required')", 'nfc.tag.tt3_sony.FelicaLite.read_with_mac'),
               ("raise RuntimeError('tag must be authenticated first')", 'nfc.tag.tt3_sony.FelicaLiteS.write_with_mac')):
    triage.add('C16', 'C16-R1', _k('RuntimeError', _f, _t),
               'inside FelicaLiteS.authenticate/protect the MAC operations run only after FelicaLite._authenticate returned True, which is '
               'after it stored the session key and IV (C20-R1); direct calls by the application are the documented RuntimeError',
               [('nfc.tag.tt3_sony.FelicaLiteS.authenticate', 'text:super(FelicaLiteS, self).authenticate(password)'),
                ('nfc.tag.tt3_sony.FelicaLite._authenticate', 'self._sk = sk')])
triage.add('C16', 'C16-R1', _k('ValueError', 'nfc.tag.tt1.Type1Tag.read_block', "raise ValueError('invalid block number')"),
           'internal callers pass 15, range(16, 256) or the literal blocks of the memory reader; all within 0..255',
           [('nfc.tag.tt1.Type1Tag._dump', 'text:range(16, 256 if stop is None else stop)'),
            ('nfc.tag.tt1.Type1TagMemoryReader._read_from_tag', 'read_block_response = self._tag.read_block(15)')])
triage.add('C16', 'C16-R1', _k('ValueError', 'nfc.tag.tt1.Type1Tag.write_block', "raise ValueError('invalid block number')"),
           'write-back addresses block i//8 with i < len(image) <= 2048 (sixteen 128 byte segments), dump writes the block it just read',
           [('nfc.tag.tt1.Type1TagMemoryReader._write_to_tag', 'self._tag.write_block(i // 8, data)'),
            ('nfc.tag.tt1.Type1Tag.read_segment', 'text:segment < 0 or segment > 15')])
triage.add('C16', 'C16-R1', _k('ValueError', 'nfc.tag.tt1.Type1Tag.write_byte', "raise ValueError('invalid byte address')"),
           'byte-wise write-back is only used for static memory tags (HR0 low nibble 1) whose image is 120/128 byte; protect writes literal addresses',
           [('nfc.tag.tt1.Type1TagMemoryReader._write_to_tag', 'text:hr0 >> 4 == 1 and hr0 & 15 != 1')])
triage.add('C16', 'C16-R1', _k('ValueError', 'nfc.tag.tt2.Type2Tag.write', "raise ValueError('data must be a four byte string or array')"),
           'internal callers pass 4 byte slices of 16 byte read results, of the 16 byte key, or 4 byte literals; the write-back slices [index:index+4] '
           'of an image whose length is a multiple of 16',
           [('nfc.tag.tt2.Type2TagMemoryReader._write_to_tag', 'data = self._data_in_cache[index:index + 4]'),
            ('nfc.tag.tt2.Type2Tag.read', 'text:len(data) != 16')])
for _t in ("raise ValueError('invalid command data length')", "raise ValueError('invalid max response length')"):
    triage.add('C16', 'C16-R1', _k('ValueError', 'nfc.tag.tt4.Type4Tag.send_apdu', _t),
               'extended length APDUs are never enabled: _extended_length_support is set False by both constructors and assigned nowhere else',
               [('nfc.tag.tt4.Type4ATag.__init__', 'self._extended_length_support = False'),
                ('nfc.tag.tt4.Type4BTag.__init__', 'self._extended_length_support = False')])


def _nlen_size_domain(f):
    """_discover_ndef assigns self._nlen_size = tag - 2 once, behind a guard that admits tag 4 and 6 only."""
    asg = [st for st in walk_no_nested(f.node) if isinstance(st, ast.Assign) and norm(st.targets[0]) == 'self._nlen_size']
    if len(asg) != 1 or norm(asg[0].value) != 'tag - 2':
        return False
    cfg = cfg_of(f)
    node = cfg_node_for(cfg, asg[0])
    for e, tn in cfg.test_nodes.items():
        t = norm(e)
        for lab in ('true', 'false'):
            if ('tag' in t and ('(4, 6)' in t or '((4, 6), (6, 8))' in t)) and node not in cfg.reachable(cfg.entry, avoid_edges=[(tn, lab)]):
                return True
    return False



NLEN_REASON = ('len(nlen) == self._nlen_size is tested before the unpack, the format is ">I" for size 4 and ">H" otherwise, and _nlen_size is '
               'tag - 2 with tag in (4, 6)')
NLEN_ANCHORS = [('nfc.tag.tt4.Type4Tag.NDEF._read_ndef_data', lambda f: any(isinstance(i, ast.If) and norm(i.test) == 'len(nlen) != self._nlen_size' and
                                                                            isinstance(i.body[-1], ast.Return) for i in ast.walk(f.node))),
                ('nfc.tag.tt4.Type4Tag.NDEF._read_ndef_data', "lfmt = '>I' if self._nlen_size == 4 else '>H'"),
                ('nfc.tag.tt4.Type4Tag.NDEF._discover_ndef', _nlen_size_domain)]
triage.add('C16', 'C16-R1', key('struct.error', 'raised in nfc.tag.tt4.Type4Tag.NDEF._read_ndef_data', 'unpack(lfmt, nlen)'), NLEN_REASON, NLEN_ANCHORS)


from .c12 import ISODEP_EMPTY_REASON, ISODEP_EMPTY_ANCHORS   # noqa: E402
triage.add('C16', 'C16-R1', key('IndexError', 'raised in nfc.tag.tt4.IsoDepInitiator.exchange', 'data[0] in `while data[0] & 16`'), ISODEP_EMPTY_REASON, ISODEP_EMPTY_ANCHORS)

def _segment_guard(f):
    """Type1TagMemoryReader._read_from_tag raises a tag command error before asking for a segment beyond 15."""
    for l in walk_no_nested(f.node):
        if isinstance(l, ast.While):
            cfg = cfg_of(f)
            calls_ = [c for c in ast.walk(l) if isinstance(c, ast.Call) and norm(c.func) == 'self._tag.read_segment']
            g = [(t, 'false') for e, t in cfg.test_nodes.items() if norm(e) in ('len(self) >> 7 > 15', 'len(self) >= 2048', 'len(self) >> 7 >= 16')]
            if len(calls_) == 1 and norm(calls_[0].args[0]) == 'len(self) >> 7' and g and \
                    cfg_node_for(cfg, calls_[0]) not in cfg.reachable(cfg.entry, avoid_edges=g):
                return True
    return False


def _only_reader_calls_read_segment(f):
    return True


def _short_limits(f):
    """_discover_ndef stores MLe / MLc clamped to what short APDUs can carry."""
    vals = {norm(st.targets[0]): norm(st.value) for st in walk_no_nested(f.node) if isinstance(st, ast.Assign) and norm(st.targets[0]) in ('self._max_le', 'self._max_lc')}
    le = [norm(st.value) for st in walk_no_nested(f.node) if isinstance(st, ast.Assign) and norm(st.targets[0]) == 'self._max_le']
    lc = [norm(st.value) for st in walk_no_nested(f.node) if isinstance(st, ast.Assign) and norm(st.targets[0]) == 'self._max_lc']
    def ok(v, lim):
        c = try_const(ast.parse(v, mode='eval').body)
        if isinstance(c, int):
            return c <= lim
        return v in ('min(mle, %d)' % lim, 'min(%d, mle)' % lim, 'min(mlc, %d)' % lim, 'min(%d, mlc)' % lim)
    return bool(le) and bool(lc) and all(ok(v, 256) for v in le) and all(ok(v, 255) for v in lc)


SEGMENT_REASON = ('the memory reader is the only caller that computes a segment number and it raises Type1TagCommandError before asking for a segment beyond 15 '
                  '(other callers pass what the application gave them: argument error)')
SEGMENT_ANCHORS = [('nfc.tag.tt1.Type1TagMemoryReader._read_from_tag', _segment_guard)]
APDU_REASON = ('the NDEF reader / writer pass min(MLe, size) and data[:min(MLc, len)] and _discover_ndef clamps MLe to 256 and MLc to 255 (initial values 15 / 1); '
               'the SELECT commands carry literal lengths')
APDU_ANCHORS = [('nfc.tag.tt4.Type4Tag.NDEF._discover_ndef', _short_limits),
                ('nfc.tag.tt4.Type4Tag.NDEF._read_binary', 'max_data = min(self._max_le, size)'),
                ('nfc.tag.tt4.Type4Tag.NDEF._update_binary', 'max_data = min(self._max_lc, len(data))')]

for _site in (("nfc.tag.tt1.Type1Tag.read_segment", "raise ValueError('invalid segment number')", SEGMENT_REASON, SEGMENT_ANCHORS),
              ("nfc.tag.tt4.Type4Tag.send_apdu", "raise ValueError('unsupported command data length')", APDU_REASON, APDU_ANCHORS),
              ("nfc.tag.tt4.Type4Tag.send_apdu", "raise ValueError('unsupported max response length')", APDU_REASON, APDU_ANCHORS)):
    triage.add('C16', 'C16-R1', key('ValueError', 'raised in ' + _site[0], _site[1]), _site[2], _site[3])

MUTANTS = [
    ('add-crc-a-in-place', 'nfc.clf.device', "        return data + bytearray([crc & 0xff, crc >> 8])", "        data += bytearray([crc & 0xff, crc >> 8])\n        return data", 'C16-R3', 'all'),
    ('tt3-format-retries-write', 'nfc.tag.tt3', """            except Type3TagCommandError:
                nbw -= 1
                break""", """            except Type3TagCommandError:
                continue""", 'C16-R3'),
    ('tt3-write-uses-unreadable-attributes', 'nfc.tag.tt3', """            if attributes is None:
                # the attribute block was unreadable or failed the checksum
                raise Type3TagCommandError(nfc.tag.RECEIVE_ERROR)
""", "", 'C16-R6'),
    ('tt1-loop-ignores-unreadable-tlv', 'nfc.tag.tt1', "elif tlv_t == 0xFE or tlv_t is None:", "elif tlv_t == 0xFE:", 'C16-R6'),
    ('tt2-protocol-mapping-dropped', 'nfc.tag.tt2', """            if type(error) is nfc.clf.ProtocolError:
                raise Type2TagCommandError(nfc.tag.PROTOCOL_ERROR)
""", "", 'C16-R'),
    ('tt1-timeout-as-receive', 'nfc.tag.tt1', """            if type(error) is nfc.clf.TimeoutError:
                raise Type1TagCommandError(nfc.tag.TIMEOUT_ERROR)""", """            if type(error) is nfc.clf.TimeoutError:
                raise Type1TagCommandError(nfc.tag.RECEIVE_ERROR)""", 'C16-R2'),
    ('tt3-handler-narrowed', 'nfc.tag.tt3', """            except nfc.clf.CommunicationError as e:
                error = e
                reason = error.__class__.__name__
                log.debug("%s after %d retries" % (reason, retry))
        else:
            if type(error) is nfc.clf.TimeoutError:
                raise Type3TagCommandError(nfc.tag.TIMEOUT_ERROR)""", """            except nfc.clf.TimeoutError as e:
                error = e
                reason = error.__class__.__name__
                log.debug("%s after %d retries" % (reason, retry))
        else:
            if type(error) is nfc.clf.TimeoutError:
                raise Type3TagCommandError(nfc.tag.TIMEOUT_ERROR)""", 'C16-R'),
    ('tt2-no-break-after-success', 'nfc.tag.tt2', """                data = self.clf.exchange(data, timeout)
                break
            except nfc.clf.CommunicationError as e:""", """                data = self.clf.exchange(data, timeout)
            except nfc.clf.CommunicationError as e:""", 'C16-R3'),
    ('tt1-unbounded-retry', 'nfc.tag.tt1', """        for retry in range(3):
            try:
                data = self.clf.exchange(data, timeout)""", """        for retry in itertools.count():
            try:
                data = self.clf.exchange(data, timeout)""", 'C16-R3'),
    ('sector-select-retried', 'nfc.tag.tt2', "self.transceive(sector_select_2, timeout=0.001, retries=0)", "self.transceive(sector_select_2, timeout=0.001)", 'C16-R3'),
    ('sector-select-assert', 'nfc.tag.tt2', """                    if int(error) != TIMEOUT_ERROR:  # passive ack
                        raise""", """                    assert int(error) == TIMEOUT_ERROR  # passive ack""", 'C16-R1'),
    ('tt2-read-raises-valueerror', 'nfc.tag.tt2', """        if len(data) != 16:
            log.debug("invalid response %s", hexlify(data).decode())
            raise Type2TagCommandError(INVALID_RESPONSE_ERROR)""", """        if len(data) != 16:
            log.debug("invalid response %s", hexlify(data).decode())
            raise ValueError("invalid response")""", 'C16-R1'),
    ('tt3-status-error-as-ioerror', 'nfc.tag.tt3', """            raise Type3TagCommandError(unpack(">H", rsp[10:12])[0])""", """            raise IOError(unpack(">H", rsp[10:12])[0])""", 'C16-NONE'),
    ('tt3-rsp-code-runtimeerror', 'nfc.tag.tt3', """            log.debug("incorrect response code {0:02x}".format(rsp[1]))
            raise Type3TagCommandError(RSP_CODE_ERROR)""", """            log.debug("incorrect response code {0:02x}".format(rsp[1]))
            raise RuntimeError("incorrect response code")""", 'C16-R1'),
    ('tt1-write-error-keyerror', 'nfc.tag.tt1', """        if erase is True and rsp[1:9] != data:
            raise Type1TagCommandError(WRITE_ERROR)""", """        if erase is True and rsp[1:9] != data:
            raise KeyError(WRITE_ERROR)""", 'C16-R1'),
    ('tt4-select-catches-nothing', 'nfc.tag.tt4', """            except Type4TagCommandError:
                log.debug("failed to select %s", hexlify(fid).decode())""", """            except KeyError:
                log.debug("failed to select %s", hexlify(fid).decode())""", 'C16-NONE'),
    ('activate-catches-timeout-only', 'nfc.tag', """    except nfc.clf.CommunicationError:
        return None


def activate_tt1""", """    except nfc.clf.TimeoutError:
        return None


def activate_tt1""", 'C16-R4'),
    ('ntag-auth-uncaught', 'nfc.tag.tt2_nxp', """        try:
            rsp = self.transceive(b"\\x1B" + key[0:4])
            return rsp == key[4:6]
        except tt2.Type2TagCommandError:
            return False""", """        rsp = self.transceive(b"\\x1B" + key[0:4])
        if len(rsp) != 2:
            raise LookupError("no PACK")
        return rsp == key[4:6]""", 'C16-R1'),
    ('tt3-short-response-unchecked', 'nfc.tag.tt3', """        if len(rsp) < 2:
            log.debug("insufficient response data")
            raise Type3TagCommandError(RSP_LENGTH_ERROR)
""", "", 'C16-R1'),
    ('tt3-status-flags-off-by-one', 'nfc.tag.tt3', "        if check_status and len(rsp) < 12:", "        if check_status and len(rsp) < 11:", 'C16-R1'),
    ('request-system-code-empty', 'nfc.tag.tt3_sony', "        if len(data) == 0 or len(data) != 1 + data[0] * 2:", "        if len(data) != 1 + data[0] * 2:", 'C16-R1'),
    ('tt2-read-length-test-weaker', 'nfc.tag.tt2', """        if len(data) != 16:
            log.debug("invalid response %s", hexlify(data).decode())""", """        if len(data) > 16:
            log.debug("invalid response %s", hexlify(data).decode())""", 'C16-R'),
    ('tt3-block-data-length-test', 'nfc.tag.tt3', "        if len(data) != 1 + len(block_list) * 16:", "        if len(data) < 1:", 'C16-R'),
    ('tt4-dump-unbounded', 'nfc.tag.tt4', "for offset in range(0, 0x10000, 16):", "for offset in itertools.count(0, 16):", 'C16-R7'),
    ('tt4-dump-one-row-over', 'nfc.tag.tt4', "for offset in range(0, 0x10000, 16):", "for offset in range(0, 0x10010, 16):", 'C16-R7'),
    ('sector-select-first-packet-not-retried', 'nfc.tag.tt2', "            rsp = self.transceive(sector_select_1)", "            rsp = self.transceive(sector_select_1, retries=0)", 'C16-R3'),
]
MUTANTS = [m for m in MUTANTS if m[4] != 'C16-NONE']

EXPLANATION += ' Round 5: no function of nfc.clf changes an argument in place (a repeated command is sent as it was; unnormalised source, canary); no write command reachable from the handler of its own try in nfc.tag; Type 4 dump bounded by the address limit.'
