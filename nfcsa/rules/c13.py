# -*- coding: utf-8 -*-
"""C13 -- drivers report RF and host-link failures only as documented errors."""
import ast

from ..model import norm, head, walk_no_nested, AnalysisError, FuncInfo, enclosing_stmt, ancestors, live, last_live
from ..cfg import cfg_of
from ..resolve import Resolver, Ctx
from ..escape import Escape, fmt_chain, items_sorted
from ..q import find, match, try_const, tests, calls
from ..core import key
from ..buf import FROM, names_for
from .. import triage

DRIVERS = ['nfc.clf.pn531.Device', 'nfc.clf.pn532.Device', 'nfc.clf.pn533.Device', 'nfc.clf.rcs956.Device',
           'nfc.clf.rcs380.Device', 'nfc.clf.acr122.Device', 'nfc.clf.arygon.DeviceA', 'nfc.clf.arygon.DeviceB',
           'nfc.clf.udp.Device']
ENTRIES = ('send_cmd_recv_rsp', 'send_rsp_recv_cmd')
EXPLANATION = (
    'R1 for each of the nine concrete driver classes the exception-escape analysis is rooted at that class (self.m() '
    'resolves through its MRO, self.chipset to the chipset class its init() constructs) and computes which exception '
    'classes may leave send_cmd_recv_rsp / send_rsp_recv_cmd, keyed by the statement of the entry function through which '
    'they leave; anything that is not an nfc.clf.CommunicationError subclass or IOError is a failed obligation. Catalogue '
    'of library raises: binascii.unhexlify, bytes.decode("ascii"). R2 the strings compared with an RC-S380 CommunicationError '
    'are keys of its table, and every driver maps timeouts to TimeoutError, field loss to BrokenLinkError and defaults to '
    'TransmissionError; R3 ContactlessFrontend.exchange adds nothing (no handler, no raise except ENODEV IOError).  Which '
    'error a given chipset status should map to beyond these classes is not decided.')

# libusb1 documents USBError subclasses for bulk transfers; transport.USB converts them to IOError
USB_CATALOG = {'bulkRead': ['usb1.USBErrorTimeout', 'usb1.USBErrorNoDevice', 'usb1.USBErrorPipe'],
               'bulkWrite': ['usb1.USBErrorTimeout', 'usb1.USBErrorNoDevice', 'usb1.USBErrorPipe']}

# asserts on the size / type of caller supplied data: the property quantifies over chipset statuses and
# host-link faults, not over payload sizes (ContactlessFrontend.max_send_data_size is the caller's contract)
ARG_ASSERTS = {
    'assert len(cmd_data) <= self.host_command_frame_max_size - 2': 'payload size contract (max_send_data_size)',
    'assert type(args) in (tuple, list)': '*args is always a tuple',
    'assert len(data) <= 128': 'register batch size is fixed by the driver code',
    'assert len(data) <= 192': 'register batch size is fixed by the driver code',
    'assert timeout is None or timeout >= 0': 'argument precondition of send_rsp_recv_cmd',
}


def _dict_lookups(prog):
    """Implicit KeyError sites: `<Class>.<attr>[key]` / `self.<attr>[key]` where the class attribute is a dict literal and the key is
    computed (not a plain name or constant: those are arguments checked at their call sites, e.g. C13-R2 for the status strings)."""
    sites = {}
    n = 0
    for f in prog.functions.values():
        if not f.qname.startswith('nfc.clf.'):
            continue
        for x in walk_no_nested(f.node):
            if not (isinstance(x, ast.Subscript) and isinstance(x.ctx, ast.Load) and isinstance(x.value, ast.Attribute)):
                continue
            owner = norm(x.value.value)
            cls = f.cls if owner == 'self' else None
            if cls is None:
                for c in prog.classes.values():
                    if c.module is f.module and (c.name == owner or c.qname.endswith('.' + owner)):
                        cls = c
            if cls is None:
                continue
            attr = prog.lookup(cls, x.value.attr)
            val = attr[2] if isinstance(attr, tuple) and len(attr) > 2 else None
            if not (isinstance(val, ast.Dict) or (isinstance(val, ast.Call) and norm(val.func) == 'dict')):
                continue
            n += 1
            if isinstance(x.slice, (ast.Name, ast.Constant)):
                continue
            sites.setdefault(f.qname, []).append((x, 'KeyError', '%s [the table %s has no entry for every value of %s]' % (norm(x), norm(x.value), norm(x.slice))))
    return sites, n


# host link buffers: what the reader chip / transport returns is indexed only behind a length test (IOError otherwise)
HOST_BUFFERS = [
    ('nfc.clf.acr122.Chipset.command', FROM('self.ccid_xfr_block'), 'CCID payload'),
    ('nfc.clf.acr122.Chipset.ccid_xfr_block', FROM('self.transport.read'), 'CCID response'),
    ('nfc.clf.pn53x.Chipset.command', FROM('self.transport.read'), 'PN53x response frame'),
    ('nfc.clf.rcs380.Chipset.send_command', FROM('self.transport.read'), 'RC-S380 response frame'),
]


def rule_escape(report, prog, res, tier):
    n_roots = 0
    lookups, n_lookups = _dict_lookups(prog)
    from .. import buf
    nb = 0
    for q, spec, src in HOST_BUFFERS:
        f = prog.functions.get(q)
        if f is None:
            report.deficits.append('C13-R1: host buffer table names a function that no longer exists: ' + q)
            continue
        for v in names_for(f, spec):
            nb += buf.check(report, prog, f, v, 'C13-R1', src, collect=lookups)
    report.floor('C13-R1 host buffer reads', nb, 5)
    report.stats['dict_table_lookups'] = n_lookups
    report.floor('C13-R1 table lookups', n_lookups, 3)

    def implicit(func, ctx):
        return lookups.get(func.qname, [])
    for q in DRIVERS:
        c = prog.cls(q)
        for m in ENTRIES:
            f = prog.lookup(c, m)
            if not isinstance(f, FuncInfo):
                raise AnalysisError('C13-R1: %s.%s not found' % (q, m))
            n_roots += 1
            esc = Escape(prog, res, split_entry=True, implicit=implicit, raise_helpers=('nfc.clf.pn53x.Chipset.chipset_error',),
                         catalog={'binascii.unhexlify': ['binascii.Error']},
                         method_catalog=dict(USB_CATALOG, decode=['UnicodeDecodeError']) if 'udp' in q else USB_CATALOG)
            r = esc.esc(f, Ctx(c))
            n_ok = 0
            for it in items_sorted(r):
                if prog.exc_is_sub(it.exc, 'nfc.clf.CommunicationError') or prog.exc_is_sub(it.exc, 'OSError'):
                    n_ok += 1
                    continue
                if it.origin == 'assert' and it.site_text in ARG_ASSERTS:
                    report.stats.setdefault('argument_asserts_skipped', {})[it.site_text] = ARG_ASSERTS[it.site_text]
                    continue
                if it.origin == 'catalog' and it.exc == 'UnicodeDecodeError' and "'ascii'" not in it.site_text:
                    continue
                k = key(f.qname, 'via ' + (it.entry or '?'), it.exc, 'raised in ' + it.site_func, it.site_text.split(' [')[0])
                report.fail('C13-R1', k, f.loc(),
                            '%s (rooted at %s): %s raised in %s (%s) can leave the driver through `%s` -- it is neither a '
                            'CommunicationError nor IOError' % (f.qname.replace('nfc.clf.', ''), c.qname.replace('nfc.clf.', ''),
                                                                it.exc, it.site_func.replace('nfc.clf.', ''), it.site_text, it.entry),
                            fmt_chain(it))
            report.ok('C13-R1', key(c.qname, m, 'documented classes only for the remaining %d raise paths' % n_ok), f.loc(),
                      detail='analysed %d functions, %d call sites' % (len(esc.analysed), esc.call_sites))
            report.stats['%s.%s' % (q, m)] = {'functions': len(esc.analysed), 'call_sites': esc.call_sites,
                                              'documented_paths': n_ok}
    report.floor('C13-R1', n_roots, 18)


def rule_status_value(report, prog):
    """R2 (classification input): a PN53x status byte carries flag bits (NAD / MI) above the six bit error code.  Where a command
    wrapper tests the masked code it also raises with the masked code -- the translation to TimeoutError / BrokenLinkError compares
    the raised value with plain error codes, a value with a flag bit set would be classified as something else."""
    n = 0
    for q, f in sorted(prog.functions.items()):
        if not (q.startswith('nfc.clf.') and '.Chipset.' in q):
            continue
        for i in walk_no_nested(f.node):
            if not isinstance(i, ast.If):
                continue
            masks = [norm(b) for b in ast.walk(i.test) if isinstance(b, ast.BinOp) and isinstance(b.op, ast.BitAnd) and
                     norm(b.left) == 'data[0]' and isinstance(try_const(b.right), int)]
            errs = [c for st in i.body for c in ast.walk(st) if isinstance(c, ast.Call) and norm(c.func) == 'self.chipset_error' and c.args]
            if not masks or not errs:
                continue
            for c in errs:
                n += 1
                report.check(any(m in norm(c.args[0]) for m in masks), 'C13-R2', key(q, 'the error is raised with the masked status code that was tested'), f.loc(c),
                             '%s tests `%s` but raises with `%s`: a status byte with a flag bit set (e.g. 41h = timeout with MI) is raised as error code '
                             '41h and classified as a transmission error instead of a timeout' % (q, masks[0], norm(c.args[0])))
    report.floor('C13-R2 masked status', n, 2)


def rule_udp_field_off(report, prog):
    """R2 (udp driver): the peer announces that its field is gone with an RFOFF datagram: whenever _recv_data sees one it raises
    BrokenLinkError -- no branch between the RFOFF test and the raise can go back to waiting."""
    from ..cfg import cfg_of
    f = prog.func('nfc.clf.udp.Device._recv_data')
    cfg = cfg_of(f)
    tn = [t for e, t in cfg.test_nodes.items() if 'RFOFF' in norm(e) and 'startswith' in norm(e)]
    raises = [n_ for n_ in cfg.nodes if isinstance(n_.ast, ast.Raise) and 'BrokenLinkError' in norm(n_.ast)]
    okk = len(tn) == 1 and bool(raises)
    if okk:
        for nxt, lab in tn[0].succ:
            if lab != 'true':
                continue
            reach = cfg.reachable(nxt, avoid_nodes=raises) if nxt not in raises else set()
            heads = [t for e, t in cfg.test_nodes.items() if isinstance(t.owner, ast.While)]
            if cfg.exit in reach or any(h in reach for h in heads):
                okk = False
    report.check(okk, 'C13-R2', key(f.qname, 'an RFOFF datagram always ends in BrokenLinkError'), f.loc(),
                 'udp _recv_data can see an RFOFF datagram and carry on: the loss of the peer\'s field is reported as TimeoutError (or not at all)')


def _decision_table(f):
    """{(handler class text, sorted path condition): raised class text} over the handlers of f: every raise a handler can reach, with
    the outcomes of the tests on the way (negative relations are stated positively with the outcome flipped), whatever the nesting /
    else / guard-clause spelling of the decision is."""
    from ..canon import _negate
    table = {}

    def pos(test, outcome):
        if isinstance(test, ast.Compare) and len(test.ops) == 1 and isinstance(test.ops[0], (ast.NotEq, ast.NotIn, ast.IsNot)):
            return norm(_negate(test)), not outcome
        if isinstance(test, ast.UnaryOp) and isinstance(test.op, ast.Not):
            return pos(test.operand, not outcome)
        return norm(test), outcome

    def exc_of(r):
        if r.exc is None:
            return 'error'
        return norm(r.exc.func) if isinstance(r.exc, ast.Call) else norm(r.exc)

    def walk(stmts, conds, hname):
        conds = list(conds)
        for st in live(stmts):
            if isinstance(st, ast.Raise):
                table[(hname, tuple(sorted(set(conds))))] = exc_of(st)
                return True
            if isinstance(st, ast.Return):
                return True
            if isinstance(st, ast.If):
                t_end = walk(st.body, conds + [pos(st.test, True)], hname)
                f_end = walk(st.orelse, conds + [pos(st.test, False)], hname) if st.orelse else False
                if t_end and f_end:
                    return True
                if t_end:
                    conds.append(pos(st.test, False))
                elif f_end:
                    conds.append(pos(st.test, True))
        return False
    for t in walk_no_nested(f.node):
        if isinstance(t, ast.Try):
            for h in t.handlers:
                walk(h.body, [], norm(h.type) if h.type is not None else '*')
    return table


def _show_table(tab):
    return {'%s: %s' % (k[0], ' and '.join(('' if o else 'not ') + '(%s)' % c for c, o in k[1]) or 'always'): v for k, v in sorted(tab.items())}


def rule_mapping(report, prog):
    # rcs380: compared strings are table keys
    cls = prog.cls('nfc.clf.rcs380.CommunicationError')
    tab = prog.lookup(cls, 'err2str')
    d = try_const(tab[2]) if isinstance(tab, tuple) else None
    if not isinstance(d, dict):
        raise AnalysisError('C13-R2: rcs380 err2str table not found')
    names = set(d.values())
    m = prog.modules['nfc.clf.rcs380']
    n = 0
    for e in ast.walk(m.tree):
        if isinstance(e, ast.Compare) and len(e.ops) == 1 and isinstance(e.ops[0], (ast.Eq, ast.NotEq)) \
                and norm(e.left) == 'error' and isinstance(e.comparators[0], ast.Constant) and isinstance(e.comparators[0].value, str):
            n += 1
            s = e.comparators[0].value
            report.check(s in names, 'C13-R2', key('nfc.clf.rcs380', 'compared status name is a table key', s),
                         '%s:%d' % (m.relpath, e.lineno),
                         'error == %r raises KeyError inside CommunicationError.__eq__: %r is not in err2str' % (s, s))
    report.floor('C13-R2', n, 3)
    report.check(d.get(0x80) == 'RECEIVE_TIMEOUT_ERROR' and d.get(0x400) == 'RF_OFF_ERROR', 'C13-R2',
                 key('nfc.clf.rcs380', 'timeout / field-off status bits'), m.relpath, 'rcs380 status table changed')
    # three-way mapping in every driver
    T, X, B = 'nfc.clf.TimeoutError', 'nfc.clf.TransmissionError', 'nfc.clf.BrokenLinkError'
    specs = [
        ('nfc.clf.pn53x.Device.send_cmd_recv_rsp', {
            ('Chipset.Error', (('error.errno == 1', True),)): T, ('Chipset.Error', (('error.errno == 1', False),)): X,
            ('IOError', (('error.errno == errno.ETIMEDOUT', True),)): T, ('IOError', (('error.errno == errno.ETIMEDOUT', False),)): 'error'}),
        ('nfc.clf.pn53x.Device.send_rsp_recv_cmd', {
            ('Chipset.Error', (('error.errno in (10, 41, 49)', True),)): B, ('Chipset.Error', (('error.errno in (10, 41, 49)', False),)): X,
            ('IOError', (('error.errno == errno.ETIMEDOUT', True),)): T, ('IOError', (('error.errno == errno.ETIMEDOUT', False),)): 'error'}),
        ('nfc.clf.rcs380.Device.send_cmd_recv_rsp', {
            ('CommunicationError', (("error == 'RECEIVE_TIMEOUT_ERROR'", True),)): T, ('CommunicationError', (("error == 'RECEIVE_TIMEOUT_ERROR'", False),)): X,
            ('StatusError', ()): X}),
        ('nfc.clf.rcs380.Device.send_rsp_recv_cmd', {
            ('CommunicationError', (("error == 'RF_OFF_ERROR'", True),)): B,
            ('CommunicationError', (("error == 'RECEIVE_TIMEOUT_ERROR'", True), ("error == 'RF_OFF_ERROR'", False))): T,
            ('CommunicationError', (("error == 'RECEIVE_TIMEOUT_ERROR'", False), ("error == 'RF_OFF_ERROR'", False))): X}),
    ]
    # status bits combine (CommunicationError.__eq__ is a mask test), so the order of the tests is the priority of the classes:
    # field loss wins over a receive timeout that is reported together with it
    from ..cfg import cfg_of
    f = prog.func('nfc.clf.rcs380.Device.send_rsp_recv_cmd')
    cfg = cfg_of(f)
    off = [t for e, t in cfg.test_nodes.items() if norm(e) == "error == 'RF_OFF_ERROR'"]
    tmo = [t for e, t in cfg.test_nodes.items() if norm(e) == "error == 'RECEIVE_TIMEOUT_ERROR'"]
    report.check(len(off) == 1 and len(tmo) == 1 and cfg.dominates(off[0], tmo[0]), 'C13-R2',
                 key(f.qname, 'RF-off is tested before receive timeout (field loss wins when both bits are set)'), f.loc(),
                 'a status with both RF_OFF and RECEIVE_TIMEOUT set is classified as TimeoutError: the field loss is not reported as BrokenLinkError')
    for q, want in specs:
        f = prog.func(q)
        got = _decision_table(f)
        report.check(got == want, 'C13-R2', key(q, 'status -> error class mapping'), f.loc(),
                     'error mapping of %s changed: %r (expected %r)' % (q, _show_table(got), _show_table(want)))
    # pn53x handlers catch exactly Chipset.Error and IOError
    for q in ('nfc.clf.pn53x.Device.send_cmd_recv_rsp', 'nfc.clf.pn53x.Device.send_rsp_recv_cmd'):
        f = prog.func(q)
        hs = [norm(h.type) for t in walk_no_nested(f.node) if isinstance(t, ast.Try) for h in t.handlers]
        report.check('Chipset.Error' in hs and 'IOError' in hs, 'C13-R2', key(q, 'handlers for Chipset.Error and IOError'), f.loc(),
                     'handlers are %r' % hs)


def rule_frontend(report, prog):
    f = prog.func('nfc.clf.ContactlessFrontend.exchange')
    tries = [t for t in walk_no_nested(f.node) if isinstance(t, ast.Try)]
    raises = [norm(r) for r in walk_no_nested(f.node) if isinstance(r, ast.Raise)]
    okk = not tries and raises == ['raise IOError(errno.ENODEV, os.strerror(errno.ENODEV))']
    report.check(okk, 'C13-R3', key(f.qname, 'adds no exception besides IOError(ENODEV) and swallows none'), f.loc(),
                 'ContactlessFrontend.exchange changed its exception behaviour: raises %r, %d try statements' % (raises, len(tries)))
    sel = [norm(s.value) for s in walk_no_nested(f.node) if isinstance(s, ast.Assign) and norm(s.targets[0]) == 'exchange']
    report.check(sorted(sel) == ['self.device.send_cmd_recv_rsp', 'self.device.send_rsp_recv_cmd'], 'C13-R3',
                 key(f.qname, 'dispatches to the two driver entry points'), f.loc(), 'driver entry points: %r' % sel)
    # the CommunicationError family
    fam = sorted(c.qname for c in prog.subclasses(prog.cls('nfc.clf.CommunicationError')))
    report.check(fam == ['nfc.clf.BrokenLinkError', 'nfc.clf.CommunicationError', 'nfc.clf.ProtocolError', 'nfc.clf.TimeoutError',
                         'nfc.clf.TransmissionError'], 'C13-R3', key('nfc.clf', 'CommunicationError family'), f.loc(),
                 'CommunicationError subclasses: %r' % fam)


def run(report, prog, tier):
    res = Resolver(prog)
    rule_escape(report, prog, res, tier)
    rule_mapping(report, prog)
    rule_status_value(report, prog)
    rule_udp_field_off(report, prog)
    rule_frontend(report, prog)
    report.trusted += ['third-party transports: pyserial / libusb1 failures are converted to IOError inside nfc.clf.transport (explicit raises analysed)',
                       'catalogue of library raises: binascii.unhexlify -> binascii.Error, bytes.decode("ascii") -> UnicodeDecodeError']
    report.assumptions += ['implicit exceptions (IndexError on empty responses) are only covered where the buffer rules of C14 look',
                           'asserts on caller supplied sizes/types are argument contracts, outside the property quantifier']


triage.add('C13', 'C13-R1',
           key('nfc.clf.pn53x.Device.send_cmd_recv_rsp', 'via return self._tt1_send_cmd_recv_rsp(data, timeout + 0.1)', 'NotImplementedError',
               'raised in nfc.clf.pn53x.Device._tt1_send_cmd_recv_rsp', "raise NotImplementedError(cname + '._tt1_send_cmd_recv_rsp()')"),
           'only the PN531 based drivers inherit the unimplemented method, and they never produce a Type 1 Tag target: sense_tta tries '
           'TT1 only if 4 is in in_list_passive_target_brty_range, which is (0, 1, 2) for pn531.Chipset, so target.rid_res is never set',
           [('nfc.clf.pn53x.Device.sense_tta', 'text:4 not in self.chipset.in_list_passive_target_brty_range'),
            ('nfc.clf.pn53x.Device.send_cmd_recv_rsp', 'text:if target.rid_res')])


X = 'nfc.clf.pn53x'
R = 'nfc.clf.rcs380'
MUTANTS = [
    ('pn53x-unmasked-status-raised', 'nfc.clf.pn53x', """        data = self.command(0x86, b'', timeout)
        if data is None or data[0] & 0x3f != 0:
            self.chipset_error(data[0] & 0x3f if data else None)""", """        data = self.command(0x86, b'', timeout)
        if data is None or data[0] & 0x3f != 0:
            self.chipset_error(data)""", 'C13-R2'),
    ('udp-rfoff-filtered', 'nfc.clf.udp', """                if data.startswith(b"RFOFF"):
                    raise nfc.clf.BrokenLinkError("RFOFF")""", """                if data.startswith(b"RFOFF"):
                    if addr != self.addr:
                        continue
                    raise nfc.clf.BrokenLinkError("RFOFF")""", 'C13-R2'),
    ('rcs380-timeout-tested-before-rf-off', 'nfc.clf.rcs380', """            if error == "RF_OFF_ERROR":
                raise nfc.clf.BrokenLinkError(str(error))
            if error == "RECEIVE_TIMEOUT_ERROR":
                raise nfc.clf.TimeoutError(str(error))""", """            if error == "RECEIVE_TIMEOUT_ERROR":
                raise nfc.clf.TimeoutError(str(error))
            if error == "RF_OFF_ERROR":
                raise nfc.clf.BrokenLinkError(str(error))""", 'C13-R2'),
    ('pn53x-handler-dropped', X, """        except Chipset.Error as error:
            self.log.debug(error)
            if error.errno == 1:
                raise nfc.clf.TimeoutError
            else:
                raise nfc.clf.TransmissionError(str(error))
        except IOError as error:
            self.log.debug(error)
            if not error.errno == errno.ETIMEDOUT:""", """        except IOError as error:
            self.log.debug(error)
            if not error.errno == errno.ETIMEDOUT:""", 'C13-R'),
    ('pn53x-timeout-as-transmission', X, """            if error.errno == 1:
                raise nfc.clf.TimeoutError
            else:""", """            if error.errno == 1:
                raise nfc.clf.TransmissionError("timeout")
            else:""", 'C13-R2'),
    ('pn53x-raise-internal', X, """            else:
                raise nfc.clf.TransmissionError(str(error))
        except IOError as error:
            self.log.debug(error)
            if not error.errno == errno.ETIMEDOUT:""", """            else:
                raise error
        except IOError as error:
            self.log.debug(error)
            if not error.errno == errno.ETIMEDOUT:""", 'C13-R'),
    ('tg-response-outside-try', X, """        try:
            if target.tt3_cmd:
                return self._tt3_send_rsp_recv_cmd(target, data, timeout)
            if data:
                self.chipset.tg_response_to_initiator(data)
            return""", """        if data:
            self.chipset.tg_response_to_initiator(data)
        try:
            if target.tt3_cmd:
                return self._tt3_send_rsp_recv_cmd(target, data, timeout)
            return""", 'C13-R1'),
    ('brokenlink-codes', X, "if error.errno in (0x0A, 0x29, 0x31):", "if error.errno in (0x0A, 0x29):", 'C13-R2'),
    ('crc-error-as-valueerror', X, 'raise nfc.clf.TransmissionError("crc_a check error")', 'raise ValueError("crc_a check error")', 'C13-R1'),
    ('tt3-length-error-as-runtime', X, 'raise nfc.clf.TransmissionError("frame length byte error")', 'raise RuntimeError("frame length byte error")', 'C13-R1'),
    ('rcs380-status-handler-dropped', R, """        except StatusError as error:
            log.debug(error)
            raise nfc.clf.TransmissionError(str(error))
""", "", 'C13-R1'),
    ('rcs380-unknown-status-name', R, """            if error == "RECEIVE_TIMEOUT_ERROR":
                raise nfc.clf.TimeoutError
            raise nfc.clf.TransmissionError
        except StatusError""", """            if error == "RECEIVE_TIMEOUT":
                raise nfc.clf.TimeoutError
            raise nfc.clf.TransmissionError
        except StatusError""", 'C13-R2'),
    ('rcs380-rfoff-not-brokenlink', R, """            if error == "RF_OFF_ERROR":
                raise nfc.clf.BrokenLinkError(str(error))""", """            if error == "RF_OFF_ERROR":
                raise nfc.clf.TransmissionError(str(error))""", 'C13-R2'),
    ('rcs380-reraise', R, """            if error == "RECEIVE_TIMEOUT_ERROR":
                raise nfc.clf.TimeoutError(str(error))
            raise nfc.clf.TransmissionError(str(error))""", """            if error == "RECEIVE_TIMEOUT_ERROR":
                raise nfc.clf.TimeoutError(str(error))
            raise""", 'C13-R'),
    ('udp-valueerror-uncaught', 'nfc.clf.udp', """                except ValueError:
                    raise nfc.clf.TransmissionError("no data")""", """                except KeyError:
                    raise nfc.clf.TransmissionError("no data")""", 'C13-R1'),
    ('usb-error-unconverted', 'nfc.clf.transport', """                frame = self.usb_dev.bulkRead(ep_addr, 300, timeout)
            except libusb.USBErrorTimeout:
                raise IOError(errno.ETIMEDOUT, os.strerror(errno.ETIMEDOUT))
            except libusb.USBErrorNoDevice:
                raise IOError(errno.ENODEV, os.strerror(errno.ENODEV))
            except libusb.USBError as error:
                log.error("%r", error)
                raise IOError(errno.EIO, os.strerror(errno.EIO))
""", """                frame = self.usb_dev.bulkRead(ep_addr, 300, timeout)
            except libusb.USBErrorTimeout:
                raise IOError(errno.ETIMEDOUT, os.strerror(errno.ETIMEDOUT))
            except libusb.USBErrorNoDevice:
                raise IOError(errno.ENODEV, os.strerror(errno.ENODEV))
""", 'C13-R1'),
    ('frontend-swallows', 'nfc.clf', """            send_time = time.time()
            rcvd_data = exchange(self.target, send_data, timeout)
            recv_time = time.time() - send_time""", """            send_time = time.time()
            try:
                rcvd_data = exchange(self.target, send_data, timeout)
            except CommunicationError:
                rcvd_data = None
            recv_time = time.time() - send_time""", 'C13-R3'),
    ('rcs380-error-text-from-partial-table', 'nfc.clf.rcs380', """                raise nfc.clf.TimeoutError
            raise nfc.clf.TransmissionError
        except StatusError as error:""", """                raise nfc.clf.TimeoutError
            raise nfc.clf.TransmissionError(CommunicationError.err2str[error.errno])
        except StatusError as error:""", 'C13-R1'),
]
