# -*- coding: utf-8 -*-
"""C07-R4 -- buffer rules for peer controlled bytes (see nfcsa/buf.py)."""
from ..core import key
from .. import buf
from ..buf import P, FROM, names_for, spec_text

# (function, buffer expressions, where the bytes come from)
PEER_BUFFERS = [
    ('nfc.dep.Initiator.decode_frame', [P(0)], 'NFC-DEP response frame'),
    ('nfc.dep.Target.decode_frame', [P(0)], 'NFC-DEP request frame'),
    ('nfc.dep.ATR_REQ.decode', [P(0)], 'ATR_REQ'),
    ('nfc.dep.ATR_RES.decode', [P(0)], 'ATR_RES'),
    ('nfc.dep.PSL_REQ_RES.decode', [P(0)], 'PSL PDU'),
    ('nfc.dep.DEP_REQ_RES.decode', [P(0)], 'DEP PDU'),
    ('nfc.dep.DSL_REQ_RES.decode', [P(0)], 'DSL/RLS PDU'),
    ('nfc.dep.Initiator.exchange', [FROM('self.send_dep_req_recv_dep_res', attr='data')], 'DEP_RES with RTOX'),
    ('nfc.dep.Target.send_timeout_extension', [FROM('self.send_dep_res_recv_dep_req', attr='data')], 'DEP_REQ with RTOX'),
    ('nfc.dep.Initiator.activate', [P(0, 'sel_res'), P(0, 'sensf_res')], 'discovery response'),
    ('nfc.llcp.llc.LogicalLinkController.activate', [FROM('mac.activate')], 'general bytes'),
    ('nfc.tag.tt3.Type3TagEmulation.process_command', [P(0)], 'Type 3 Tag command from the reader'),
    ('nfc.tag.tt3.Type3TagEmulation._process_command', [P(0)], 'Type 3 Tag command from the reader'),
    ('nfc.tag.tt3.Type3TagEmulation.polling', [P(0)], 'polling command'),
    ('nfc.tag.tt3.Type3TagEmulation.read_without_encryption', [P(0)], 'read command'),
    ('nfc.tag.tt3.Type3TagEmulation.write_without_encryption', [P(0)], 'write command'),
    ('nfc.snep.server.SnepServer._serve', [FROM('bytearray(client_socket.recv')], 'SNEP request fragment'),
    ('nfc.snep.server.SnepServer.process_snep_request', [P(0)], 'SNEP request'),
    ('nfc.snep.client.recv_response', [FROM('socket.recv')], 'SNEP response'),
    ('nfc.snep.client.SnepClient.get_octets', [FROM('recv_response')], 'SNEP response'),
    ('nfc.snep.client.SnepClient.put_octets', [FROM('recv_response')], 'SNEP response'),
]
MAYBE_NONE = [
    ('nfc.tag.tt3.Type3TagEmulation.process_command', P(0), 'exchange() returns None when the link broke in target mode;'),
]


def run(report, prog, res, collect=None):
    from ..cfg import cfg_of
    from ..q import lower_bound_at, cfg_node_for
    from ..model import norm
    import ast
    n = 0
    # guarantees that cross a call: (callee, parameter) <- bound proven at the only call site; (caller variable) <- bound of the callee's result
    serve = prog.func('nfc.snep.server.SnepServer._serve')
    sc = cfg_of(serve)
    call = [c for c in ast.walk(serve.node) if isinstance(c, ast.Call) and norm(c.func) == 'self.process_snep_request']
    base_req = 0
    dnames = names_for(serve, FROM('bytearray(client_socket.recv'))
    if len(call) == 1 and len(dnames) == 1 and norm(call[0].args[0]) == dnames[0]:
        dn = dnames[0]
        base_req = lower_bound_at(sc, 'len(%s)' % dn, cfg_node_for(sc, call[0]), extra_guards=buf.extra_guards(sc, dn, prog, serve),
                                  kills=buf.kill_nodes(sc, dn)) or 0
    report.check(base_req >= 6, 'C07-R4', key(serve.qname, 'request handler is only called with a complete 6 byte header'), serve.loc(),
                 'process_snep_request can be called with fewer than 6 byte (bound %d)' % base_req, detail='bound %d' % base_req)
    rb = buf.return_bound(prog, prog.func('nfc.snep.client.recv_response'))
    report.check(rb >= 6, 'C07-R4', key('nfc.snep.client.recv_response', 'returns None or at least the 6 byte header'), prog.func('nfc.snep.client.recv_response').loc(),
                 'recv_response can return fewer than 6 byte (bound %d)' % rb, detail='bound %d' % rb)
    base = {'nfc.snep.server.SnepServer.process_snep_request': base_req}
    sources = {r're:recv_response\(.*\)': rb}
    for q, specs, src in PEER_BUFFERS:
        f = prog.func(q)
        for spec in specs:
            names = names_for(f, spec)
            if not names:
                report.deficits.append('C07-R4: %s has no buffer for %s any more (%s): the table entry is stale' % (q, spec_text(spec), src))
            for v in names:
                n += buf.check(report, prog, f, v, 'C07-R4', src, base=base.get(q, 0), sources=sources, collect=collect)
    # handover server: _process_request_data indexes records[0]; ndeflib yields at least one record for non-empty octets or raises
    # DecodeError (trusted), so the caller must not hand over an empty request
    hs = prog.func('nfc.handover.server.HandoverServer.serve')
    hc = cfg_of(hs)
    pr = prog.func('nfc.handover.server.HandoverServer._process_request_data')
    idx = [x for x in ast.walk(pr.node) if isinstance(x, ast.Subscript) and norm(x) == 'records[0]']
    calls_ = [c for c in ast.walk(hs.node) if isinstance(c, ast.Call) and norm(c.func) == 'self._process_request_data']
    okk = len(calls_) == 1
    if okk and idx:
        arg = norm(calls_[0].args[0])
        guards = [(t, 'false') for e, t in hc.test_nodes.items() if norm(e) in ('len(%s) == 0' % arg, 'not %s' % arg)] + \
                 [(t, 'true') for e, t in hc.test_nodes.items() if norm(e) in ('len(%s) > 0' % arg, arg, 'len(%s) != 0' % arg)]
        okk = bool(guards) and cfg_node_for(hc, calls_[0]) not in hc.reachable(hc.entry, avoid_edges=guards)
    report.check(okk or not idx, 'C07-R4', key(hs.qname, 'the request handed to _process_request_data is not empty'), hs.loc(),
                 'serve() can call _process_request_data with an empty request: the decoder yields no record and records[0] raises IndexError in the '
                 'connection thread')
    if idx and not okk and collect is not None:
        collect.setdefault(pr.qname, []).append((idx[0], 'IndexError', 'records[0] [no record is decoded from an empty request]'))
    n += 1
    for q, spec, src in MAYBE_NONE:
        for v in names_for(prog.func(q), spec):
            buf.check_none(report, prog, prog.func(q), v, 'C07-R4', src, collect=collect)
    report.floor('C07-R4 reads', n, 40)
