# -*- coding: utf-8 -*-
"""C07-R4 -- buffer rules for peer controlled bytes (see nfcsa/buf.py)."""
from ..core import key
from .. import buf

# (function, buffer expressions, where the bytes come from)
PEER_BUFFERS = [
    ('nfc.dep.Initiator.decode_frame', ['frame'], 'NFC-DEP response frame'),
    ('nfc.dep.Target.decode_frame', ['frame'], 'NFC-DEP request frame'),
    ('nfc.dep.ATR_REQ.decode', ['data'], 'ATR_REQ'),
    ('nfc.dep.ATR_RES.decode', ['data'], 'ATR_RES'),
    ('nfc.dep.PSL_REQ_RES.decode', ['data'], 'PSL PDU'),
    ('nfc.dep.DEP_REQ_RES.decode', ['data'], 'DEP PDU'),
    ('nfc.dep.DSL_REQ_RES.decode', ['data'], 'DSL/RLS PDU'),
    ('nfc.dep.Initiator.exchange', ['res.data'], 'DEP_RES with RTOX'),
    ('nfc.dep.Target.send_timeout_extension', ['req.data'], 'DEP_REQ with RTOX'),
    ('nfc.dep.Initiator.activate', ['target.sel_res', 'target.sensf_res'], 'discovery response'),
    ('nfc.llcp.llc.LogicalLinkController.activate', ['gb'], 'general bytes'),
    ('nfc.tag.tt3.Type3TagEmulation.process_command', ['cmd'], 'Type 3 Tag command from the reader'),
    ('nfc.tag.tt3.Type3TagEmulation._process_command', ['cmd'], 'Type 3 Tag command from the reader'),
    ('nfc.tag.tt3.Type3TagEmulation.polling', ['cmd_data'], 'polling command'),
    ('nfc.tag.tt3.Type3TagEmulation.read_without_encryption', ['cmd_data'], 'read command'),
    ('nfc.tag.tt3.Type3TagEmulation.write_without_encryption', ['cmd_data'], 'write command'),
    ('nfc.snep.server.SnepServer._serve', ['data'], 'SNEP request fragment'),
    ('nfc.snep.server.SnepServer.process_snep_request', ['request_data'], 'SNEP request'),
    ('nfc.snep.client.recv_response', ['snep_response'], 'SNEP response'),
    ('nfc.snep.client.SnepClient.get_octets', ['response'], 'SNEP response'),
    ('nfc.snep.client.SnepClient.put_octets', ['response'], 'SNEP response'),
]
MAYBE_NONE = [
    ('nfc.tag.tt3.Type3TagEmulation.process_command', 'cmd', 'exchange() returns None when the link broke in target mode;'),
]


def run(report, prog, res, collect=None):
    from ..cfg import cfg_of
    from ..q import lower_bound_at, cfg_node_for
    from ..model import norm
    import ast
    n = 0
    # guarantees that cross a call: (callee, parameter) <- bound proven at the only call site; (caller variable) <- bound of the callee's result
    serve = prog.func('nfc.snep.server.SnepServer._serve')
    sc = cfg_of(serve)
    call = [c for c in ast.walk(serve.node) if isinstance(c, ast.Call) and norm(c.func) == 'self.process_snep_request']
    base_req = 0
    if len(call) == 1 and norm(call[0].args[0]) == 'data':
        base_req = lower_bound_at(sc, 'len(data)', cfg_node_for(sc, call[0]), extra_guards=buf.extra_guards(sc, 'data', prog, serve),
                                  kills=buf.kill_nodes(sc, 'data')) or 0
    report.check(base_req >= 6, 'C07-R4', key(serve.qname, 'request handler is only called with a complete 6 byte header'), serve.loc(),
                 'process_snep_request can be called with fewer than 6 byte (bound %d)' % base_req, detail='bound %d' % base_req)
    rb = buf.return_bound(prog, prog.func('nfc.snep.client.recv_response'))
    report.check(rb >= 6, 'C07-R4', key('nfc.snep.client.recv_response', 'returns None or at least the 6 byte header'), prog.func('nfc.snep.client.recv_response').loc(),
                 'recv_response can return fewer than 6 byte (bound %d)' % rb, detail='bound %d' % rb)
    base = {('nfc.snep.server.SnepServer.process_snep_request', 'request_data'): base_req}
    sources = {'recv_response(self.socket, self.acceptable_length, timeout)': rb, 'recv_response(self.socket, 0, timeout)': rb}
    for q, bufs, src in PEER_BUFFERS:
        f = prog.func(q)
        for v in bufs:
            n += buf.check(report, prog, f, v, 'C07-R4', src, base=base.get((q, v), 0), sources=sources, collect=collect)
    for q, v, src in MAYBE_NONE:
        buf.check_none(report, prog, prog.func(q), v, 'C07-R4', src, collect=collect)
    report.floor('C07-R4 reads', n, 40)
