# -*- coding: utf-8 -*-
"""C06 -- SNEP and handover carry NDEF messages intact through fragmentation (structural clauses)."""
import ast
import struct

from ..model import norm, head, walk_no_nested, AnalysisError, FuncInfo, enclosing_stmt, ancestors, live
from ..cfg import cfg_of
from ..q import (find, match, const, try_const, only_via, tests, stmt_nodes, one, fmt, cfg_node_for, calls, le_edge, edges_where)
from ..core import key
from ..fields import field_reads

EXPLANATION = (
    'R1 the four fragmenters (SNEP client request, SNEP server response, handover client, handover server) cut the message '
    'into slices whose width equals the stride and whose first slice starts at 0, so the fragments partition the octets; R2 '
    'handshake order on the CFG: the SNEP client sends the remaining fragments only after it received Continue, the server '
    'sends Continue before it reassembles and only when fragments are missing, and the mirrored order for fragmented '
    'responses; R3 a message longer than the acceptable length is answered with Reject / dropped before any reassembly or '
    'delivery (the request handler is reachable only through the passing branch of the length test); R4 the header formats, '
    'offsets and completeness tests of client and server agree (struct sizes computed by the checker; header fields read as "n byte integer at offset k" whichever idiom extracts them).  Octet-for-octet '
    'arrival over the complete stack for every MIU/RW pair is not decided.')

CONT_REQ = b"\x10\x00\x00\x00\x00\x00"     # Continue (request code 00h)
CONT_RSP = b"\x10\x80\x00\x00\x00\x00"     # Continue (response code 80h)
REJECT = b"\x10\xFF\x00\x00\x00\x00"


def _sends(f, var):
    out = []
    for c in ast.walk(f.node):
        if isinstance(c, ast.Call) and isinstance(c.func, ast.Attribute) and c.func.attr == 'send' and c.args:
            out.append(c)
    return out


def rule_partition(report, prog):
    # SNEP client
    f = prog.func('nfc.snep.client.send_request')
    loops = [l for l in walk_no_nested(f.node) if isinstance(l, ast.For)]
    okk = len(loops) == 1 and norm(loops[0].iter) == 'range(send_miu, len(snep_request), send_miu)' and \
        bool(find(loops[0], 'fragment = snep_request[offset:offset + send_miu]')) and \
        any(norm(c.args[0]) == 'snep_request[0:send_miu]' for c in _sends(f, 'socket')) and \
        any(norm(c.args[0]) == 'fragment' for c in _sends(f, 'socket'))
    report.check(okk, 'C06-R1', key(f.qname, 'fragments [0:miu], [miu:2miu], ... partition the request'), f.loc(),
                 'SNEP client fragmentation no longer partitions the request')
    t = [i for i in walk_no_nested(f.node) if isinstance(i, ast.If) and norm(i.test) == 'len(snep_request) <= send_miu']
    report.check(len(t) == 1 and norm(live(t[0].body)[0]) == 'return socket.send(snep_request)', 'C06-R1',
                 key(f.qname, 'a request that fits the MIU is sent in one piece'), f.loc(), 'unfragmented send condition changed')
    # every failed send aborts
    for c in _sends(f, 'socket'):
        par = getattr(c, '_parent', None)
        gp = getattr(par, '_parent', None)
        okk = isinstance(par, ast.Return) or (isinstance(par, ast.UnaryOp) and isinstance(gp, ast.If) and any(norm(s) == 'return False' for s in gp.body))
        report.check(okk, 'C06-R1', key(f.qname, 'failed send stops the transfer', c), f.loc(c), 'a failed fragment send is ignored')
    # SNEP server response
    g = prog.func('nfc.snep.server.SnepServer._serve')
    okk = any(norm(c.args[0]) == 'data[0:send_miu]' for c in _sends(g, 'client_socket')) and \
        bool(find(g.node, 'parts = range(send_miu, len(data), send_miu)')) and \
        any(norm(c.args[0]) == 'data[offset:offset + send_miu]' for c in _sends(g, 'client_socket')) and \
        any(isinstance(l, ast.For) and norm(l.iter) == 'parts' for l in ast.walk(g.node))
    report.check(okk, 'C06-R1', key(g.qname, 'response fragments partition the response'), g.loc(), 'SNEP server response fragmentation changed')
    t = [i for i in ast.walk(g.node) if isinstance(i, ast.If) and norm(i.test) == 'len(data) <= send_miu']
    report.check(len(t) == 1 and norm(live(t[0].body)[0]) == 'client_socket.send(data)', 'C06-R1',
                 key(g.qname, 'a response that fits the MIU is sent in one piece'), g.loc(), 'unfragmented response condition changed')
    report.check(bool(find(g.node, 'send_miu = client_socket.getsockopt(nfc.llcp.SO_SNDMIU)')), 'C06-R1',
                 key(g.qname, 'fragment size is the connection send MIU'), g.loc(), 'server fragment size source changed')
    sc = prog.func('nfc.snep.client.SnepClient.connect')
    report.check(bool(find(sc.node, 'self.send_miu = self.socket.getsockopt(nfc.llcp.SO_SNDMIU)')), 'C06-R1',
                 key(sc.qname, 'fragment size is the connection send MIU'), sc.loc(), 'client fragment size source changed')
    # handover client
    h = prog.func('nfc.handover.client.HandoverClient.send_octets')
    lp = [l for l in walk_no_nested(h.node) if isinstance(l, ast.While)]
    okk = len(lp) == 1 and norm(lp[0].test) == 'len(octets) > 0' and len(live(lp[0].body)) == 1 and isinstance(live(lp[0].body)[0], ast.If) and \
        norm(live(lp[0].body)[0].test) == 'self.socket.send(octets[0:miu])' and [norm(s) for s in live(live(lp[0].body)[0].body)] == ['octets = octets[miu:]'] and \
        [norm(s) for s in live(live(lp[0].body)[0].orelse)] == ['break']
    report.check(okk, 'C06-R1', key(h.qname, 'sends octets[0:miu] and drops exactly that prefix on success'), h.loc(),
                 'handover client fragmentation changed')
    report.check(bool(find(h.node, 'return len(octets) == 0')) and bool(find(h.node, 'miu = self.socket.getsockopt(nfc.llcp.SO_SNDMIU)')),
                 'C06-R1', key(h.qname, 'success iff everything was sent; fragment size = send MIU'), h.loc(), 'handover client result changed')
    # handover server
    s = prog.func('nfc.handover.server.HandoverServer.serve')
    okk = any(isinstance(l, ast.For) and norm(l.iter) == 'range(0, len(response), send_miu)' and
              bool(find(l, 'fragment = response[offset:offset + send_miu]')) for l in ast.walk(s.node))
    report.check(okk, 'C06-R1', key(s.qname, 'response fragments partition the response'), s.loc(), 'handover server fragmentation changed')


def _const_bytes_cmp(f, value):
    return [e for e in ast.walk(f.node) if isinstance(e, ast.Compare) and try_const(e.comparators[0]) == value]


def rule_handshake(report, prog):
    f = prog.func('nfc.snep.client.send_request')
    cfg = cfg_of(f)
    first = [n for n in cfg.nodes if n.ast is not None and n.kind == 'test' and 'snep_request[0:send_miu]' in norm(n.ast)]
    cont = [n for e, n in cfg.test_nodes.items() if isinstance(e, ast.Compare) and norm(e.left) == 'socket.recv()' and try_const(e.comparators[0]) == CONT_RSP]
    rest = [n for n in cfg.nodes if n.ast is not None and n.kind == 'test' and norm(n.ast) == 'socket.send(fragment)']
    okk = len(first) == 1 and len(cont) == 1 and len(rest) == 1 and cfg.dominates(first[0], cont[0]) and \
        only_via(cfg, rest[0], [(cont[0], 'false')], ps=False)[0]
    report.check(okk, 'C06-R2', key(f.qname, 'remaining fragments only after Continue (10 80 00 00 00 00) was received'), f.loc(),
                 'SNEP client sends the remaining fragments without having received Continue')
    g = prog.func('nfc.snep.server.SnepServer._serve')
    gc = cfg_of(g)
    snd = [n for n in gc.nodes if n.kind == 'stmt' and n.ast is not None and isinstance(n.ast, ast.Expr) and isinstance(n.ast.value, ast.Call)
           and norm(n.ast.value.func) == 'client_socket.send' and try_const(n.ast.value.args[0]) == CONT_RSP]
    need = [(t, 'true') for e, t in gc.test_nodes.items() if norm(e) == 'len(data) - 6 < length' and isinstance(t.owner, ast.If)]
    rec = [n for n in gc.nodes if n.kind == 'stmt' and n.ast is not None and norm(n.ast) == 'data += client_socket.recv()']
    okk = len(snd) == 1 and len(rec) == 1 and bool(need) and only_via(gc, snd[0], need, ps=False)[0] and gc.dominates(snd[0], rec[0])
    report.check(okk, 'C06-R2', key(g.qname, 'Continue is sent before reassembly and only when fragments are missing'), g.loc(),
                 'SNEP server Continue handshake changed')
    lp = [l for l in ast.walk(g.node) if isinstance(l, ast.While) and norm(l.test) == 'len(data) - 6 < length']
    report.check(len(lp) == 1, 'C06-R2', key(g.qname, 'reassembly continues until header length is reached'), g.loc(), 'server reassembly condition changed')
    # fragmented response: server waits for the client Continue (request code 00h)
    cmpn = [n for e, n in gc.test_nodes.items() if isinstance(e, ast.Compare) and norm(e.left) == 'client_socket.recv()' and try_const(e.comparators[0]) == CONT_REQ]
    rest = [n for n in gc.nodes if n.kind == 'stmt' and n.ast is not None and 'data[offset:offset + send_miu]' in norm(n.ast)]
    okk = len(cmpn) == 1 and len(rest) == 1 and only_via(gc, rest[0], [(cmpn[0], 'true')], ps=False)[0]
    report.check(okk, 'C06-R2', key(g.qname, 'remaining response fragments only after the client sent Continue'), g.loc(),
                 'SNEP server sends remaining response fragments without Continue')
    r = prog.func('nfc.snep.client.recv_response')
    rc = cfg_of(r)
    snd = [n for n in rc.nodes if n.kind == 'stmt' and n.ast is not None and isinstance(n.ast, ast.Expr) and isinstance(n.ast.value, ast.Call)
           and norm(n.ast.value.func) == 'socket.send' and try_const(n.ast.value.args[0]) == CONT_REQ]
    need = [(t, 'true') for e, t in rc.test_nodes.items() if norm(e) == 'len(snep_response) - 6 < length' and isinstance(t.owner, ast.If)]
    rec = [n for n in rc.nodes if n.kind == 'stmt' and n.ast is not None and norm(n.ast) == 'snep_response += socket.recv()']
    okk = len(snd) == 1 and len(rec) == 1 and bool(need) and only_via(rc, snd[0], need, ps=False)[0] and rc.dominates(snd[0], rec[0])
    report.check(okk, 'C06-R2', key(r.qname, 'client requests remaining response fragments with Continue before reading them'), r.loc(),
                 'SNEP client response handshake changed')


def rule_oversize(report, prog):
    g = prog.func('nfc.snep.server.SnepServer._serve')
    gc = cfg_of(g)
    proc = [n for n in gc.nodes if n.kind == 'stmt' and n.ast is not None and norm(n.ast) == 'data = self.process_snep_request(data)']
    edges = edges_where(gc, lambda e: le_edge(e, 'length', 'self.max_acceptable_length'))
    cont = [n for n in gc.nodes if n.kind == 'stmt' and n.ast is not None and isinstance(n.ast, ast.Expr) and isinstance(n.ast.value, ast.Call)
            and norm(n.ast.value.func) == 'client_socket.send' and try_const(n.ast.value.args[0]) == CONT_RSP]
    okk = len(proc) == 1 and bool(edges) and only_via(gc, proc[0], edges, ps=False)[0]
    report.check(okk, 'C06-R3', key(g.qname, 'request handler reachable only if length <= max_acceptable_length'), g.loc(),
                 'a SNEP request longer than the acceptable length reaches the request handler')
    okk = bool(cont) and bool(edges) and only_via(gc, cont[0], edges, ps=False)[0]
    report.check(okk, 'C06-R3', key(g.qname, 'no Continue for an oversize request'), g.loc(), 'an oversize request is invited to continue')
    for t, lab in edges:
        if isinstance(t.owner, ast.If):
            body = t.owner.body
            okk = any(isinstance(s, ast.Expr) and isinstance(s.value, ast.Call) and try_const(s.value.args[0]) == REJECT for s in body) and \
                any(isinstance(s, ast.Continue) for s in body)
            report.check(okk, 'C06-R3', key(g.qname, 'oversize request answered with Reject (10 FF) and dropped'), g.loc(t.ast),
                         'oversize request is not answered with the Reject response')
    # length comes from the header of the first fragment
    fr = field_reads(g.node)
    report.check(fr.get('length') == [('data', 2, 4, 'be')] and fr.get('version') == [('data', 0, 1, 'be')], 'C06-R3',
                 key(g.qname, 'length is the header field of the first fragment'), g.loc(), 'header parse changed')
    r = prog.func('nfc.snep.client.recv_response')
    rc = cfg_of(r)
    rets = [n for n in rc.nodes if n.kind == 'stmt' and isinstance(n.ast, ast.Return) and norm(n.ast) == 'return bytearray(snep_response)']
    edges = edges_where(rc, lambda e: le_edge(e, 'length', 'acceptable_length'))
    okk = len(rets) == 1 and bool(edges) and only_via(rc, rets[0], edges, ps=False)[0]
    report.check(okk, 'C06-R3', key(r.qname, 'response returned only if length <= acceptable_length'), r.loc(),
                 'a response longer than the acceptable length is delivered')
    snd = [n for n in rc.nodes if n.kind == 'stmt' and n.ast is not None and 'socket.send(' in norm(n.ast)]
    okk = bool(snd) and bool(edges) and all(only_via(rc, s, edges, ps=False)[0] for s in snd)
    report.check(okk, 'C06-R3', key(r.qname, 'no Continue for an oversize response'), r.loc(), 'oversize response is invited to continue')
    # get: acceptable length announced = the limit checked
    c = prog.func('nfc.snep.client.SnepClient.get_octets')
    okk = any(isinstance(x, ast.Call) and norm(x.func) == 'recv_response' and [norm(a) for a in x.args] == ['self.socket', 'self.acceptable_length', 'timeout']
              for x in ast.walk(c.node)) and \
        any(isinstance(x, ast.Call) and norm(x.func) == 'struct.pack' and [norm(a) for a in x.args] == ["'>BBLL'", '16', '1', '4 + len(octets)', 'self.acceptable_length']
            for x in ast.walk(c.node))
    report.check(okk, 'C06-R3', key(c.qname, 'GET announces the acceptable length it enforces'), c.loc(), 'GET request / limit changed')
    # server ExcessData
    p = prog.func('nfc.snep.server.SnepServer.process_snep_request')
    okk = any(isinstance(i, ast.If) and norm(i.test) == 'len(response_data) > acceptable_length' and
              [norm(s) for s in live(i.body)] == ['response_code = 193', "response_data = b''"] for i in ast.walk(p.node))
    report.check(okk, 'C06-R3', key(p.qname, 'GET response larger than the client limit becomes ExcessData'), p.loc(), 'ExcessData handling changed')


def rule_headers(report, prog):
    c = prog.func('nfc.snep.client.SnepClient.put_octets')
    okk = any(isinstance(x, ast.Call) and norm(x.func) == 'struct.pack' and [norm(a) for a in x.args] == ["'>BBL'", '16', '2', 'len(octets)'] for x in ast.walk(c.node)) \
        and bool(find(c.node, "request = struct.pack('>BBL', 16, 2, len(octets)) + octets"))
    report.check(okk, 'C06-R4', key(c.qname, 'PUT header: version 10h, code 02h, length = len(octets)'), c.loc(), 'PUT header changed')
    p = prog.func('nfc.snep.server.SnepServer.process_snep_request')
    okk = bool(find(p.node, 'octets = request_data[6:]')) and bool(find(p.node, 'octets = request_data[10:]')) and \
        field_reads(p.node).get('acceptable_length') == [('request_data', 6, 4, 'be')] and \
        struct.calcsize('>BBL') == 6 and struct.calcsize('>BBLL') == 10 and struct.calcsize('>BxL') == 6
    report.check(okk, 'C06-R4', key(p.qname, 'payload offsets 6 (PUT) / 10 (GET) match the header sizes'), p.loc(), 'payload offsets changed')
    disp = {norm(i.test) for i in ast.walk(p.node) if isinstance(i, ast.If) and 'request_data[1]' in norm(i.test)}
    report.check(disp == {'request_data[1] == 1 and len(request_data) >= 10', 'request_data[1] == 2'}, 'C06-R4',
                 key(p.qname, 'request codes 01h GET / 02h PUT'), p.loc(), 'request dispatch changed: %s' % sorted(disp))
    report.check(bool(find(p.node, "header = struct.pack('>BBL', 16, response_code, len(response_data))")), 'C06-R4',
                 key(p.qname, 'response header: version, code, length of the data'), p.loc(), 'response header changed')
    r = prog.func('nfc.snep.client.recv_response')
    okk = bool(find(r.node, "version, status, length = struct.unpack('>BBL', snep_response[:6])")) and \
        any(norm(e) == 'len(snep_response) < 6' for e in ast.walk(r.node) if isinstance(e, ast.Compare))
    report.check(okk, 'C06-R4', key(r.qname, 'response header parsed with the format the server writes'), r.loc(), 'response parse changed')
    g = prog.func('nfc.snep.client.SnepClient.get_octets')
    report.check(bool(find(g.node, 'return response[6:]')) and any(norm(e) == 'response[1] != 129' for e in ast.walk(g.node) if isinstance(e, ast.Compare)),
                 'C06-R4', key(g.qname, 'GET returns the octets behind the 6 byte header on Success (81h)'), g.loc(), 'GET result extraction changed')
    s = prog.func('nfc.snep.server.SnepServer._serve')
    okk = any(norm(e) == 'len(data) < 6' for e in ast.walk(s.node) if isinstance(e, ast.Compare)) and \
        any(isinstance(i, ast.If) and norm(i.test) == 'version >> 4 > 1' for i in ast.walk(s.node))
    report.check(okk, 'C06-R4', key(s.qname, 'short header / unsupported version refused'), s.loc(), 'header sanity checks changed')
    # handover: reassembly = decode until complete, strict
    for q in ('nfc.handover.client.HandoverClient.recv_octets', 'nfc.handover.server.HandoverServer.serve'):
        f = prog.func(q)
        okk = any(isinstance(c, ast.Call) and norm(c.func) == 'ndef.message_decoder' and len(c.args) >= 2 and try_const(c.args[1]) == 'strict' for c in ast.walk(f.node)) and \
            any(h.type is not None and norm(h.type) == 'ndef.DecodeError' for t in ast.walk(f.node) if isinstance(t, ast.Try) for h in t.handlers)
        report.check(okk, 'C06-R4', key(q, 'fragments appended until the NDEF message decodes completely'), f.loc(), 'handover reassembly changed')
    f = prog.func('nfc.handover.client.HandoverClient.recv_octets')
    report.check(bool(find(f.node, 'octets += self.socket.recv()')) and bool(find(f.node, 'return bytes(octets)')), 'C06-R4',
                 key(f.qname, 'received fragments appended in arrival order'), f.loc(), 'handover client reassembly order changed')
    f = prog.func('nfc.handover.server.HandoverServer.serve')
    report.check(bool(find(f.node, 'request += socket.recv()')), 'C06-R4', key(f.qname, 'received fragments appended in arrival order'), f.loc(),
                 'handover server reassembly order changed')


def run(report, prog, tier):
    rule_partition(report, prog)
    rule_handshake(report, prog)
    rule_oversize(report, prog)
    rule_headers(report, prog)
    # the fragments travel over a data link connection: its window / sequence / acknowledgement / MIU obligations are necessary
    # conditions of this property too (reported under their C05 rule ids)
    from . import c05
    c05.rule_window(report, prog)
    c05.rule_recv_buffer(report, prog)
    c05.rule_miu(report, prog)
    c05.rule_miu_writes(report, prog)
    c05.rule_sequence(report, prog)
    c05.rule_mod16(report, prog)
    c05.rule_sap_order(report, prog)
    report.trusted += ['SNEP 1.0 message formats and Continue/Reject codes as tabulated in the rule', 'struct sizes of the checker interpreter']
    report.assumptions += ['in-order exactly-once delivery of each fragment is the data link connection\'s job (C05)']


SC = 'nfc.snep.client'
SS = 'nfc.snep.server'
MUTANTS = [
    ('client-loop-start', SC, "for offset in range(send_miu, len(snep_request), send_miu):", "for offset in range(send_miu + 1, len(snep_request), send_miu):", 'C06-R1'),
    ('client-fragment-width', SC, "fragment = snep_request[offset:offset+send_miu]", "fragment = snep_request[offset:offset+send_miu-1]", 'C06-R1'),
    ('client-threshold', SC, "if len(snep_request) <= send_miu:", "if len(snep_request) <= send_miu + 6:", 'C06-R1'),
    ('client-ignores-failed-send', SC, """        if not socket.send(fragment):
            return False""", """        socket.send(fragment)""", 'C06-R'),
    ('server-response-stride', SS, "parts = range(send_miu, len(data), send_miu)", "parts = range(send_miu, len(data), send_miu + 1)", 'C06-R1'),
    ('handover-client-drop-width', 'nfc.handover.client', "octets = octets[miu:]", "octets = octets[miu+1:]", 'C06-R1'),
    ('handover-server-slice', 'nfc.handover.server', "fragment = response[offset:offset + send_miu]", "fragment = response[offset:send_miu]", 'C06-R1'),
    ('client-no-continue-wait', SC, """    if socket.recv() != b"\\x10\\x80\\x00\\x00\\x00\\x00":
        return False
""", "", 'C06-R2'),
    ('client-wrong-continue-code', SC, 'if socket.recv() != b"\\x10\\x80\\x00\\x00\\x00\\x00":', 'if socket.recv() != b"\\x10\\x81\\x00\\x00\\x00\\x00":', 'C06-R2'),
    ('server-continue-after-reassembly', SS, """                    client_socket.send(b"\\x10\\x80\\x00\\x00\\x00\\x00")
                    while len(data) - 6 < length:
                        try:
                            data += client_socket.recv()
                        except TypeError:
                            break  # connection closed
""", """                    while len(data) - 6 < length:
                        try:
                            data += client_socket.recv()
                        except TypeError:
                            break  # connection closed
                    client_socket.send(b"\\x10\\x80\\x00\\x00\\x00\\x00")
""", 'C06-R2'),
    ('server-response-without-continue', SS, """                    if client_socket.recv() == b"\\x10\\x00\\x00\\x00\\x00\\x00":
                        parts = range(send_miu, len(data), send_miu)
                        for offset in parts:
                            client_socket.send(data[offset:offset + send_miu])""", """                    client_socket.recv()
                    if True:
                        parts = range(send_miu, len(data), send_miu)
                        for offset in parts:
                            client_socket.send(data[offset:offset + send_miu])""", 'C06-R2'),
    ('server-oversize-not-rejected', SS, """                if length > self.max_acceptable_length:
                    log.debug("snep msg exceeds max acceptable length")
                    client_socket.send(b"\\x10\\xFF\\x00\\x00\\x00\\x00")
                    continue
""", "", 'C06-R3'),
    ('server-oversize-falls-through', SS, """                    client_socket.send(b"\\x10\\xFF\\x00\\x00\\x00\\x00")
                    continue""", """                    client_socket.send(b"\\x10\\xFF\\x00\\x00\\x00\\x00")""", 'C06-R3'),
    ('server-oversize-ge', SS, "if length > self.max_acceptable_length:", "if length > self.max_acceptable_length + 6:", 'C06-R3'),
    ('client-oversize-delivered', SC, """        if length > acceptable_length:
            log.debug("snep response exceeds acceptable length")
            return None
""", "", 'C06-R3'),
    ('get-limit-mismatch', SC, """            response = recv_response(
                self.socket, self.acceptable_length, timeout)""", """            response = recv_response(
                self.socket, 0xFFFFFFFF, timeout)""", 'C06-R3'),
    ('excess-data-ignored', SS, """                if len(response_data) > acceptable_length:
                    response_code = 0xC1  # nfc.snep.ExcessData
                    response_data = b''""", """                if len(response_data) > acceptable_length:
                    response_code = 0xC1  # nfc.snep.ExcessData""", 'C06-R3'),
    ('put-payload-offset', SS, "                octets = request_data[6:]", "                octets = request_data[5:]", 'C06-R4'),
    ('get-length-field', SC, "request = struct.pack('>BBLL', 0x10, 0x01, 4 + len(octets),", "request = struct.pack('>BBLL', 0x10, 0x01, len(octets),", 'C06-R'),
    ('response-header-length', SS, 'header = struct.pack(">BBL", 0x10, response_code, len(response_data))', 'header = struct.pack(">BBL", 0x10, response_code, len(response_data) + 6)', 'C06-R4'),
    ('client-result-offset', SC, "                return response[6:]", "                return response[5:]", 'C06-R4'),
    ('handover-relaxed-reassembly', 'nfc.handover.client', "list(ndef.message_decoder(octets, 'strict', {}))", "list(ndef.message_decoder(octets, 'relax', {}))", 'C06-R4'),
]
