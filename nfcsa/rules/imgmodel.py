# -*- coding: utf-8 -*-
"""Type 1 / Type 2 Tag memory image (Type1TagMemoryReader / Type2TagMemoryReader), folded.

The methods of the two image classes are folded by the checker's own evaluator (nfcsa.q.fold_block) in the order an NDEF write uses
them -- `__init__`, a series of `__setitem__` stores (single bytes and slices that cross write-unit boundaries), then
`_write_to_tag(stop=len(self))` as `synchronize()` calls it -- in ONE environment, so that whatever bookkeeping the class keeps between
a store and the flush (today none: the flush compares the cache with the image read from the tag) is carried along.  The tag object is
a model that applies WRITE / SECTOR SELECT (Type 2) or WRITE-E / WRITE-E8 (Type 1) to a simulated memory and refuses what the real
command refuses (Type 1: WRITE-E addresses 0..127 only, taken from the guard of Type1Tag.write_byte).  The requirement, stated
independently of the code: after the flush the tag memory equals the cache, byte for byte, and no command addressed anything else.
Nothing of the repository is imported or executed."""
import ast

from ..model import norm
from ..q import fold_block, NotConst, FoldObject, try_const

class Refused(NotConst):
    """the modelled tag cannot carry out the command"""


STORES = [
    [(17, 0x5A)],
    [(slice(21, 24), b'\x03\xFF\x01')],
    [(slice(23, 25), b'\x01\x0B')],                 # two bytes across a 4 byte page / inside one 8 byte block
    [(slice(22, 26), b'\xFF\x01\x0B\xD1')],
    [(slice(6, 10), b'\x11\x22\x33\x44')],          # across an 8 byte block boundary
    [(16, 0x03), (17, 0x00), (slice(18, 30), bytes(range(1, 13))), (17, 12)],
    [(slice(100, 140), bytes((i * 5 + 1) & 0xFF for i in range(40)))],
    [(200, 0x77), (slice(300, 311), bytes(range(100, 111)))],
    [(slice(1020, 1030), bytes(range(50, 60)))],    # Type 2: across the sector boundary
]


def _body(f):
    b = list(f.node.body)
    return b[1:] if b and isinstance(b[0], ast.Expr) and isinstance(b[0].value, ast.Constant) else b


def _write_byte_limit(prog):
    """largest address + 1 that Type1Tag.write_byte accepts (its ValueError guard folded for 0..2047)"""
    f = prog.func('nfc.tag.tt1.Type1Tag.write_byte')
    guard = next((i for i in ast.walk(f.node) if isinstance(i, ast.If) and any(isinstance(x, ast.Raise) for x in i.body)
                  and f.params[1] in [n.id for n in ast.walk(i.test) if isinstance(n, ast.Name)]), None)
    if guard is None:
        return None
    ok_ = [a for a in range(0, 2048) if try_const(guard.test, {f.params[1]: a}) is False]
    return (max(ok_) + 1) if ok_ and ok_ == list(range(0, max(ok_) + 1)) else None


def run(prog, kind, size, hr0=None):
    """Fold the store series of STORES that fit `size` for image class `kind` ('tt1' | 'tt2').  -> (problems, runs)"""
    cls = 'nfc.tag.%s.Type%sTagMemoryReader' % (kind, kind[2])
    init, seti, flush = (prog.func('%s.%s' % (cls, m)) for m in ('__init__', '__setitem__', '_write_to_tag'))
    wb_limit = _write_byte_limit(prog) if kind == 'tt1' else None
    problems, runs = [], 0
    for stores in STORES:
        top = max((k.stop if isinstance(k, slice) else k + 1) for k, _ in stores)
        if top > size:
            continue
        runs += 1
        image = bytearray((i * 3 + 7) & 0xFF for i in range(size))
        mem = bytearray(image)
        log = []

        class Tag(FoldObject):
            sector = 0

            def sector_select(self, s):
                Tag.sector = s

            def write(self, page, data):
                log.append(('WRITE', Tag.sector, page, bytes(data)))
                if len(data) != 4:
                    raise Refused('WRITE page %r with %d octets' % (page, len(data)))
                a = Tag.sector * 1024 + (page % 256) * 4        # Type2Tag.write sends page % 256
                mem[a:a + 4] = data

            def write_byte(self, addr, data):
                log.append(('WRITE-E', addr))
                if wb_limit is not None and not (0 <= addr < wb_limit):
                    raise Refused('WRITE-E cannot address byte %d (write_byte accepts 0..%d)' % (addr, wb_limit - 1))
                mem[addr] = data

            def write_block(self, block, data):
                log.append(('WRITE-E8', block))
                if not (0 <= block < 256) or len(data) != 8:
                    raise Refused('WRITE-E8 block %r with %d octets' % (block, len(data)))
                mem[block * 8:block * 8 + 8] = data
        tag = Tag()
        env = {'tag': tag, 'Type1Tag': Tag, 'Type2Tag': Tag, 'self': FoldObject(),
               '__calls__': {'self.__getitem__': lambda key: None, 'self._read_from_tag': lambda *a, **k: None}}
        where = '%s image of %d bytes%s, stores %s' % (kind, size, (', HR0 %02Xh' % hr0) if hr0 is not None else '',
                                                        ', '.join('[%s]' % (('%d:%d' % (k.start, k.stop)) if isinstance(k, slice) else k) for k, _ in stores))
        try:
            fold_block(_body(init), env)
            env['self._data_from_tag'] = bytearray(image)
            env['self._data_in_cache'] = bytearray(image)
            if hr0 is not None:
                env['self._header_rom'] = bytearray([hr0, 0x00])
            env['len(self)'] = size
            want = bytearray(image)
            for k, v in stores:
                want[k] = v
                e2 = env
                e2['key'], e2['value'] = k, (bytearray(v) if not isinstance(v, int) else v)
                fold_block(_body(seti), e2)
            env['stop'] = size
            fold_block(_body(flush), env)
        except Refused as e:
            problems.append('%s: %s' % (where, e))
            continue
        except NotConst as e:
            problems.append('%s: cannot fold (%s)' % (where, e))
            continue
        except (IndexError, KeyError, TypeError, ValueError) as e:
            problems.append('%s: raises %s: %s' % (where, type(e).__name__, e))
            continue
        if bytes(env['self._data_in_cache']) != bytes(want):
            problems.append('%s: the cache does not hold what was stored' % where)
        elif bytes(mem) != bytes(want):
            d = [i for i in range(size) if mem[i] != want[i]]
            problems.append('%s: after the flush the tag differs from the cache at byte %s (%d commands sent)' % (where, d[:4], len(log)))
    return problems, runs


CASES = (('tt2', 64, None), ('tt2', 2048, None), ('tt1', 120, 0x11), ('tt1', 512, 0x12), ('tt1', 512, 0x13), ('tt1', 2048, 0x1F))


def verdicts(prog):
    """{'tt1': (problems, runs), 'tt2': (problems, runs)} over CASES (memoised per program)"""
    memo = prog.__dict__.setdefault('_imgmodel', {})
    if 'v' not in memo:
        out = {'tt1': ([], 0), 'tt2': ([], 0)}
        for kind, size, hr0 in CASES:
            p, n = run(prog, kind, size, hr0)
            out[kind] = (out[kind][0] + p, out[kind][1] + n)
        memo['v'] = out
    return memo['v']
