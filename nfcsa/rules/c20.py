# -*- coding: utf-8 -*-
"""C20 -- tag authentication and MAC-protected reads cannot be fooled (structural clauses)."""
import ast

from ..model import norm, head, walk_no_nested, AnalysisError, FuncInfo, enclosing_stmt, ancestors, live
from ..cfg import cfg_of
from ..q import (find, match, const, try_const, only_via, tests, stmt_nodes, one, fmt, cfg_node_for, calls, eq_edge, edges_where)
from ..core import key

SONY = 'nfc.tag.tt3_sony'
NXP = 'nfc.tag.tt2_nxp'
EXPLANATION = (
    'R1 authorisation dominance on the CFG: read_with_mac returns data only on the branch where the received MAC equals '
    'generate_mac over exactly the returned data under the session key/IV; the session key, IV, authenticated flag and the '
    'switch to MAC-protected reads are assigned only on the branch where the tag\'s MAC over the ID block verified; Lite-S '
    'sets authenticated only after the MAC-protected read-back of the state block; NTAG21x and Ultralight C return the '
    'comparison with the expected acknowledgement; R2 the slots a key is provisioned to and verified from agree (NTAG21x '
    'PWD/PACK split, default keys, FeliCa/Ultralight C byte order); R3 the expression that turns the password into the key '
    'is evaluated by the checker for several password values in the protect and the authenticate routine of each class and '
    'must agree; R4 write_with_mac and generate_mac folded with the tag commands and the cipher object modelled: the MAC covers WCNT || block || 91h || data under the flipped key, '
    'the command carries data || MAC || WCNT, the cipher gets (key, CBC, iv) and the 8 byte groups reversed; read MAC the session key and the same IV in '
    'generation and verification; R5 the Read Without Encryption below the MAC readers accepts exactly 1 + 16 * blocks octets (folded over all request/response sizes), so the end-relative MAC slices are never empty.  Cryptographic soundness of generate_mac and detection of every modification are value '
    'level and not decided.')

PASSWORDS = [b'', b'0123456789abcdefXYZ', b'\xff\xfe' + b'k' * 20, '0123456789abcdefXYZ']


def rule_dominance(report, prog):
    f = prog.func(SONY + '.FelicaLite.read_with_mac')
    cfg = cfg_of(f)
    rets = [n for n in cfg.nodes if n.kind == 'stmt' and isinstance(n.ast, ast.Return) and n.ast.value is not None
            and not (isinstance(n.ast.value, ast.Constant) and n.ast.value.value is None)]
    ok_edges = []
    cmp_ = None
    for e, t in cfg.test_nodes.items():
        if isinstance(e, ast.Compare) and len(e.ops) == 1 and norm(e.left) == 'mac' and isinstance(e.comparators[0], ast.Call) \
                and norm(e.comparators[0].func) == 'self.generate_mac':
            cmp_ = e
            ok_edges.append((t, 'false' if isinstance(e.ops[0], ast.NotEq) else 'true'))
    okk = len(rets) == 1 and bool(ok_edges) and only_via(cfg, rets[0], ok_edges, ps=False)[0]
    report.check(okk, 'C20-R1', key(f.qname, 'data returned only if the MAC verified'), f.loc(),
                 'read_with_mac can return data whose MAC did not verify')
    if cmp_ is not None and rets:
        args = [norm(a) for a in cmp_.comparators[0].args]
        okk = args == ['data', 'self._sk', 'self._iv'] and norm(rets[0].ast.value) == 'data'
        report.check(okk, 'C20-R1', key(f.qname, 'the returned data is the data the MAC was computed over, under the session key and IV'),
                     f.loc(cmp_), 'MAC is computed over %s but %s is returned' % (args, norm(rets[0].ast.value)))
    # the response is split at -16: everything in front is the data, octets -16..-9 the MAC (whatever the response is called)
    split = [b for n_, b in find(f.node, 'data, mac = ($S[0:-16], $T[-16:-8])') if norm(b['S']) == norm(b['T'])]
    src_ok = False
    if len(split) == 1:
        sname = norm(split[0]['S'])
        src_ok = any(isinstance(a, ast.Assign) and norm(a.targets[0]) == sname and 'self.read_without_encryption(service_list, block_list)' == norm(a.value)
                     for a in walk_no_nested(f.node))
    okk = src_ok and bool(find(f.node, 'block_list.append(tt3.BlockCode(129))'))
    report.check(okk, 'C20-R1', key(f.qname, 'MAC block 81h is read with the data; data/MAC split at -16'), f.loc(),
                 'MAC block request / split changed')
    r = [x for x in walk_no_nested(f.node) if isinstance(x, ast.Raise) and 'authentication required' in norm(x)]
    report.check(len(r) == 1, 'C20-R1', key(f.qname, 'refuses to run without a session key'), f.loc(), 'session key precondition changed')
    # FelicaLite._authenticate
    g = prog.func(SONY + '.FelicaLite._authenticate')
    gc = cfg_of(g)
    # (the comparison may be written `==` with the success branch or `!=` with an early return)
    ver = [(t, 'true' if isinstance(e.ops[0], ast.Eq) else 'false') for e, t in gc.test_nodes.items()
           if isinstance(e, ast.Compare) and len(e.ops) == 1 and isinstance(e.ops[0], (ast.Eq, ast.NotEq))
           and sorted([norm(e.left), norm(e.comparators[0])]) == sorted(['data[-16:-8]', 'self.generate_mac(data[0:-16], sk, iv=rc[0:8])'])]
    n = 0
    for text in ('self._sk = sk', 'self._iv = rc[0:8]', 'self._authenticated = True', 'self.read_from_ndef_service = self.read_with_mac'):
        nodes = [x for x in gc.nodes if x.kind == 'stmt' and x.ast is not None and norm(x.ast) == text]
        n += len(nodes)
        okk = len(nodes) == 1 and bool(ver) and only_via(gc, nodes[0], ver, ps=False)[0]
        report.check(okk, 'C20-R1', key(g.qname, '`%s` only after the tag MAC verified' % text), g.loc(),
                     '%s can execute without a verified MAC from the tag' % text)
    clr = [x for x in gc.nodes if x.kind == 'stmt' and x.ast is not None and norm(x.ast) == 'self._authenticated = False']
    okk = len(clr) == 1 and bool(ver) and gc.dominates(clr[0], ver[0][0]) and bool(find(g.node, 'return self._authenticated'))
    report.check(okk, 'C20-R1', key(g.qname, 'authenticated flag reset first, the flag is the result'), g.loc(),
                 'a failed authentication can leave a previous success in place')
    okk = bool(find(g.node, 'self.read_from_ndef_service = self.read_without_mac')) and bool(clr) and \
        all(gc.dominates(x, ver[0][0]) for x in gc.nodes if x.kind == 'stmt' and x.ast is not None and norm(x.ast) == 'self.read_from_ndef_service = self.read_without_mac') if ver else False
    report.check(okk, 'C20-R1', key(g.qname, 'MAC-protected read mode is switched off before re-authentication'), g.loc(),
                 'read mode is not reset before authentication')
    # challenge freshness and session key derivation
    okk = bool(find(g.node, 'rc = os.urandom(16)')) and bool(find(g.node, "sk = triple_des(key, CBC, b'\\x00' * 8).encrypt(rc)")) and \
        bool(find(g.node, 'self.write_without_mac(rc[7::-1] + rc[15:7:-1], 128)')) and bool(find(g.node, 'data = self.read_without_mac(130, 129)'))
    report.check(okk, 'C20-R1', key(g.qname, 'fresh 16 byte challenge written to RC, session key = 3DES(card key, RC), ID+MAC read back'), g.loc(),
                 'challenge / session key derivation changed')
    # FelicaLiteS.authenticate
    h = prog.func(SONY + '.FelicaLiteS.authenticate')
    hc = cfg_of(h)
    set_t = [x for x in hc.nodes if x.kind == 'stmt' and x.ast is not None and norm(x.ast) == 'self._authenticated = True']
    e1 = [(t, 'true') for e, t in hc.test_nodes.items() if norm(e) == 'self.read_with_mac(146)[0] == 1']
    e0 = [(t, 'true') for e, t in hc.test_nodes.items() if norm(e) == 'super(FelicaLiteS, self).authenticate(password)']
    okk = len(set_t) == 1 and bool(e1) and bool(e0) and only_via(hc, set_t[0], e1, ps=False)[0] and only_via(hc, set_t[0], e0, ps=False)[0]
    report.check(okk, 'C20-R1', key(h.qname, 'mutual authentication: flag set only after the MAC-protected read-back of block 92h'), h.loc(),
                 'Lite-S can report authenticated without the MAC-protected state read-back')
    clr = [x for x in hc.nodes if x.kind == 'stmt' and x.ast is not None and norm(x.ast) == 'self._authenticated = False']
    wr = [x for x in hc.nodes if x.kind == 'stmt' and x.ast is not None and 'self.write_with_mac(' in norm(x.ast)]
    okk = len(clr) == 1 and len(wr) == 1 and bool(e1) and hc.dominates(clr[0], wr[0]) and hc.dominates(wr[0], e1[0][0])
    report.check(okk, 'C20-R1', key(h.qname, 'flag cleared, then write-with-MAC, then verified read'), h.loc(), 'mutual authentication order changed')
    # NTAG21x / Ultralight C / generic
    a = prog.func(NXP + '.NTAG21x._authenticate')
    rets = [norm(x.value) for x in walk_no_nested(a.node) if isinstance(x, ast.Return)]
    okk = rets == ['rsp == key[4:6]', 'False'] and bool(find(a.node, "rsp = self.transceive(b'\\x1b' + key[0:4])"))
    report.check(okk, 'C20-R1', key(a.qname, 'true exactly when the tag answered PWD_AUTH with the expected PACK'), a.loc(),
                 'NTAG21x authentication result changed: %s' % rets)
    u = prog.func(NXP + '.MifareUltralightC._authenticate')
    rets = [x.value for x in walk_no_nested(u.node) if isinstance(x, ast.Return)]
    okk = len(rets) == 2 and norm(rets[0]) == 'False' and isinstance(rets[1], ast.Compare) and \
        norm(rets[1].left) == 'triple_des(key, CBC, iv).decrypt(m3)' and 'ra[1:9]' in norm(rets[1].comparators[0])
    report.check(okk, 'C20-R1', key(u.qname, 'true exactly when the tag returned the rotated reader nonce'), u.loc(),
                 'Ultralight C authentication result changed')
    okk = bool(find(u.node, 'ra = os.urandom(8)'))
    report.check(okk, 'C20-R1', key(u.qname, 'fresh reader nonce'), u.loc(), 'reader nonce is not random')
    t = prog.func('nfc.tag.Tag.authenticate')
    report.check(bool(find(t.node, 'self._authenticated = self._authenticate(password)')) and bool(find(t.node, 'return self._authenticated')),
                 'C20-R1', key(t.qname, 'result and flag are what the tag specific routine decided'), t.loc(), 'Tag.authenticate changed')


def _key_expr(f):
    out = [s.value for s in walk_no_nested(f.node) if isinstance(s, ast.Assign) and norm(s.targets[0]) == 'key'
           and 'password' in norm(s.value)]
    return out[0] if len(out) == 1 else None


def _eval_key(expr, pw):
    try:
        return ('ok', bytes(const(expr, {'password': pw})) if not isinstance(const(expr, {'password': pw}), str) else const(expr, {'password': pw}))
    except Exception as e:          # the extracted expression fails for this password type
        return ('raises', type(e).__name__)


def rule_key_derivation(report, prog):
    pairs = [
        ('FeliCa Lite', SONY + '.FelicaLite._protect', SONY + '.FelicaLite._authenticate'),
        ('FeliCa Lite-S', SONY + '.FelicaLiteS._protect', SONY + '.FelicaLite._authenticate'),
        ('NTAG21x', NXP + '.NTAG21x._protect_with_password', NXP + '.NTAG21x._authenticate'),
        ('Mifare Ultralight C', NXP + '.MifareUltralightC._protect_with_password', NXP + '.MifareUltralightC._authenticate'),
    ]
    for name, pq, aq in pairs:
        pf, af = prog.func(pq), prog.func(aq)
        pe, ae = _key_expr(pf), _key_expr(af)
        if pe is None or ae is None:
            report.fail('C20-R3', key(name, 'key derivation expressions found'), pf.loc(), 'password -> key expression not found')
            continue
        diffs = []
        for pw in PASSWORDS:
            a, b = _eval_key(pe, pw), _eval_key(ae, pw)
            if a != b:
                diffs.append((pw if isinstance(pw, str) else pw[:6], a, b))
        report.check(not diffs, 'C20-R3', key(name, 'protect and authenticate derive the same key from a password'), pf.loc(),
                     '%s: protect derives the key with `%s`, authenticate with `%s`; for the same password they give different results '
                     '(password, protect, authenticate): %s -- protect(p) followed by authenticate(p) cannot both work'
                     % (name, norm(pe), norm(ae), [(repr(d[0]), d[1][0] if d[1][0] == 'raises' else 'key', d[2][0] if d[2][0] == 'raises' else 'key') for d in diffs][:3]),
                     detail='%d passwords evaluated' % len(PASSWORDS))
        # length preconditions agree
        pl = sorted(norm(i.test) for i in walk_no_nested(pf.node) if isinstance(i, ast.If) and 'len(password)' in norm(i.test))
        al = sorted(norm(i.test) for i in walk_no_nested(af.node) if isinstance(i, ast.If) and ('len(password)' in norm(i.test) or 'len(key)' in norm(i.test)))
        report.check(bool(pl) and bool(al), 'C20-R3', key(name, 'both routines reject too short passwords'), pf.loc(),
                     'length checks: protect %s authenticate %s' % (pl, al))


def rule_slots(report, prog):
    p = prog.func(NXP + '.NTAG21x._protect_with_password')
    a = prog.func(NXP + '.NTAG21x._authenticate')
    st = find(p.node, 'cfg[$A:$B] = key')
    okk = len(st) == 1 and (try_const(st[0][1]['A']), try_const(st[0][1]['B'])) == (8, 14)
    send = [c for c in ast.walk(a.node) if isinstance(c, ast.Call) and norm(c.func) == 'self.transceive']
    sl_pwd = match(send[0].args[0], "b'\\x1b' + key[$A:$B]") if send else None
    ret = [x.value for x in walk_no_nested(a.node) if isinstance(x, ast.Return) and isinstance(x.value, ast.Compare)]
    sl_pack = match(ret[0].comparators[0], 'key[$A:$B]') if ret else None
    okk = okk and sl_pwd is not None and sl_pack is not None and \
        (try_const(sl_pwd['A']), try_const(sl_pwd['B']), try_const(sl_pack['A']), try_const(sl_pack['B'])) == (0, 4, 4, 6)
    report.check(okk, 'C20-R2', key('NTAG21x', 'PWD = key[0:4] at CFG+8, PACK = key[4:6] at CFG+12; authenticate sends/compares the same slices'),
                 p.loc(), 'NTAG21x provisioning / verification slices disagree')
    wr = [l for l in walk_no_nested(p.node) if isinstance(l, ast.For) and norm(l.iter) == 'range(4)' and
          bool(find(l, 'self.write(self._cfgpage + i, cfg[i * 4:(i + 1) * 4])'))]
    report.check(len(wr) == 1, 'C20-R2', key('NTAG21x', 'the four configuration pages incl. PWD and PACK are written'), p.loc(),
                 'NTAG21x configuration write-back changed')
    # defaults identical
    for name, pq, aq in (('NTAG21x', NXP + '.NTAG21x._protect_with_password', NXP + '.NTAG21x._authenticate'),
                         ('MifareUltralightC', NXP + '.MifareUltralightC._protect_with_password', NXP + '.MifareUltralightC._authenticate')):
        pe, ae = _key_expr(prog.func(pq)), _key_expr(prog.func(aq))
        d1 = [try_const(c) for c in ast.walk(pe) if isinstance(c, ast.Constant) and isinstance(c.value, bytes) and len(c.value) > 1] if pe is not None else None
        d2 = [try_const(c) for c in ast.walk(ae) if isinstance(c, ast.Constant) and isinstance(c.value, bytes) and len(c.value) > 1] if ae is not None else None
        report.check(d1 and d1 == d2, 'C20-R2', key(name, 'factory default key identical in protect and authenticate'), prog.func(pq).loc(),
                     'default keys differ: %r vs %r' % (d1, d2))
    # byte order of provisioned keys
    u = prog.func(NXP + '.MifareUltralightC._protect_with_password')
    okk = bool(find(u.node, 'key1, key2 = (key[7::-1], key[15:7:-1])')) and \
        [norm(c.args[0]) + ':' + norm(c.args[1]) for c in ast.walk(u.node) if isinstance(c, ast.Call) and norm(c.func) == 'self.write'][:4] == \
        ['44:key1[0:4]', '45:key1[4:8]', '46:key2[0:4]', '47:key2[4:8]']
    report.check(okk, 'C20-R2', key('MifareUltralightC', 'key halves byte-reversed into pages 44..47'), u.loc(), 'Ultralight C key provisioning changed')
    for q in (SONY + '.FelicaLite._protect', SONY + '.FelicaLiteS._protect'):
        f = prog.func(q)
        okk = bool(find(f.node, 'self.write_without_mac(key[7::-1] + key[15:7:-1], 135)'))
        report.check(okk, 'C20-R2', key(q, 'card key halves byte-reversed into block 87h'), f.loc(), 'FeliCa card key provisioning changed')
    s = prog.func(SONY + '.FelicaLiteS._protect')
    okk = any(isinstance(i, ast.If) and norm(i.test) == 'not self.authenticate(key)' and any(norm(x) == 'return False' for x in i.body) for i in walk_no_nested(s.node))
    report.check(okk, 'C20-R2', key(s.qname, 'new card key is verified by authenticating with it'), s.loc(), 'Lite-S no longer verifies the new key')
    n = prog.func(NXP + '.NTAG21x._protect_with_password')
    report.check(bool(find(n.node, 'return self.authenticate(key) if self.target else False')), 'C20-R2',
                 key(n.qname, 'new password is verified by authenticating with it'), n.loc(), 'NTAG21x no longer verifies the new password')


def rule_mac_inputs(report, prog):
    w = prog.func(SONY + '.FelicaLiteS.write_with_mac')
    # write_with_mac folded (checker's own evaluator) with the tag commands modelled: what goes into the MAC, under which key, and what
    # is sent
    from ..q import fold_block, NotConst
    sk, iv = bytes(range(0x10, 0x20)), bytes(range(0xA0, 0xA8))
    wblock = bytes(range(0x51, 0x61))
    payload = bytes(range(0x01, 0x11))
    seen = {'mac': [], 'write': [], 'read': []}

    def generate_mac(data, key_, iv_, *rest):
        seen['mac'].append((bytes(data), bytes(key_), bytes(iv_), rest))
        return bytearray(b'MACMACMA')

    def write(sc, bc, data):
        seen['write'].append((sc, bc, bytes(data)))

    def read(*blocks):
        seen['read'].append(blocks)
        return bytearray(wblock)
    body = [st for st in w.node.body if not (isinstance(st, ast.Expr) and isinstance(st.value, ast.Constant))]
    env = {'data': bytearray(payload), 'block': 5, 'self._sk': bytearray(sk), 'self._iv': bytearray(iv), 'int': int, 'bytearray': bytearray, 'bytes': bytes,
           '__calls__': {'self.generate_mac': generate_mac, 'self.write_without_encryption': write, 'self.read_without_mac': read,
                         'tt3.ServiceCode': lambda *a: ('SC',) + a, 'tt3.BlockCode': lambda *a: ('BC',) + a}}
    why = None
    try:
        fold_block(body, env)
    except (NotConst, IndexError, TypeError, ValueError) as e:
        why = 'write_with_mac can no longer be folded: %s' % e
    wcnt = wblock[0:3]
    if why is None:
        if seen['read'] != [(0x90,)]:
            why = 'the write counter is read from %r' % (seen['read'],)
        elif len(seen['mac']) != 1 or seen['mac'][0][0] != wcnt + b'\x00' + bytes([5]) + b'\x00\x91\x00' + payload:
            why = 'the MAC is computed over %s' % ([m[0].hex() for m in seen['mac']],)
        elif seen['mac'][0][1] != sk[8:16] + sk[0:8] or seen['mac'][0][2] != iv or any(seen['mac'][0][3]):
            why = 'the MAC is computed under key %s / iv %s (flip_key %r)' % (seen['mac'][0][1].hex(), seen['mac'][0][2].hex(), seen['mac'][0][3])
        elif len(seen['write']) != 1 or seen['write'][0][2] != payload + b'MACMACMA' + wcnt + 5 * b'\x00':
            why = 'the command carries %s' % ([x[2].hex() for x in seen['write']],)
        elif seen['write'][0][0] != [('SC', 0, 0b001001)] or seen['write'][0][1] != [('BC', 5), ('BC', 0x91)]:
            why = 'the command addresses %r %r' % (seen['write'][0][0], seen['write'][0][1])
    report.check(why is None, 'C20-R4', key(w.qname, 'write MAC over WCNT || block || 91h || data under the flipped session key, sent with the data'), w.loc(),
                 'write MAC inputs changed: %s' % why)
    report.check(why is None or 'under key' not in why, 'C20-R4', key(w.qname, 'flip exchanges the key halves'), w.loc(), 'flip() changed: %s' % why)
    r = [x for x in walk_no_nested(w.node) if isinstance(x, ast.Raise) and 'authenticated first' in norm(x)]
    report.check(len(r) == 1, 'C20-R4', key(w.qname, 'refuses to run without a session key'), w.loc(), 'session key precondition changed')
    # generate_mac folded with a modelled cipher object: key order, mode, IV, the text that is encrypted and the part of the cipher
    # text that becomes the MAC
    from ..q import FoldObject
    g = prog.func(SONY + '.FelicaLite.generate_mac')
    gbody = [st for st in g.node.body if not (isinstance(st, ast.Expr) and isinstance(st.value, ast.Constant))]
    why = None
    for flip_key in (False, True):
        made = []

        class Cipher(FoldObject):
            def __init__(self, *a):
                made.append(a)

            def encrypt(self, txt):
                made.append(bytes(txt))
                return bytes((b_ * 3 + i_) & 0xFF for i_, b_ in enumerate(txt))
        msg = bytes(range(0x30, 0x48))
        env = {'data': bytearray(msg), 'key': bytearray(sk), 'iv': bytearray(iv), 'flip_key': flip_key, 'CBC': 'CBC', 'int': int,
               '__funcs__': {'triple_des': lambda *a: Cipher(*a)}}
        try:
            r_ = fold_block(gbody, env)
        except (NotConst, IndexError, TypeError, ValueError) as e:
            why = 'generate_mac can no longer be folded: %s' % e
            break
        txt = b''.join(msg[i_:i_ + 8][::-1] for i_ in range(0, len(msg), 8))
        want_key = sk[8:] + sk[:8] if flip_key else sk
        enc = bytes((b_ * 3 + i_) & 0xFF for i_, b_ in enumerate(txt))
        if len(made) != 2 or tuple(bytes(x) if isinstance(x, (bytes, bytearray)) else x for x in made[0]) != (want_key, 'CBC', iv):
            why = 'cipher set up with %r (flip_key=%r)' % (made[:1], flip_key)
        elif made[1] != txt:
            why = 'text that is encrypted is %s, not the 8 byte groups reversed' % made[1].hex()
        elif r_[0] != 'return' or bytes(r_[1]) != enc[:-9:-1]:
            why = 'the MAC is %r, not the last cipher block reversed' % (r_[1],)
        if why:
            break
    okk = why is None and any(isinstance(x, ast.Assert) and norm(x.test) == 'len(data) % 8 == 0 and len(key) == 16 and (len(iv) == 8)' for x in walk_no_nested(g.node))
    report.check(okk, 'C20-R4', key(g.qname, '3DES-CBC under (key, iv), MAC = last 8 bytes reversed'), g.loc(), 'generate_mac changed shape: %s' % why)
    a = prog.func(SONY + '.FelicaLite._authenticate')
    ivs = sorted(set(norm(s.value) for s in walk_no_nested(a.node) if isinstance(s, ast.Assign) and norm(s.targets[0]) == 'self._iv'))
    ver = [norm(k.value) for c in ast.walk(a.node) if isinstance(c, ast.Call) and norm(c.func) == 'self.generate_mac' for k in c.keywords if k.arg == 'iv']
    report.check(ivs == ['rc[0:8]'] and ver == ['rc[0:8]'], 'C20-R4', key(a.qname, 'IV = RC1 in verification and for the session'), a.loc(),
                 'IV differs between verification (%s) and session (%s)' % (ver, ivs))


def rule_mac_present(report, prog):
    """R5: the MAC comparisons slice the MAC and the covered data from the end of the response (data[-16:-8], data[0:-16]); they
    compare something only if the response really carries every requested block including the MAC block.  The reader below
    them must therefore accept exactly 1 + 16 * blocks octets (an empty block list would compare an empty MAC with the MAC of no
    data, which is equal), and the MAC readers must reach it directly."""
    from .c08buf import rwe_exact
    rwe = prog.func('nfc.tag.tt3.Type3Tag.read_without_encryption')
    report.check(rwe_exact(prog), 'C20-R5', key(rwe.qname, 'response carries exactly the requested blocks (MAC block included)'), rwe.loc(),
                 'read_without_encryption accepts a response with fewer blocks than requested: the MAC slices in FelicaLite.authenticate / '
                 'read_with_mac are then empty on both sides and the comparison succeeds without any key')
    n = 0
    for q in (SONY + '.FelicaLite.read_with_mac', SONY + '.FelicaLite.read_without_mac'):
        f = prog.func(q)
        cs = [c for c in calls(f.node) if norm(c.func) == 'self.read_without_encryption']
        n += len(cs)
        report.check(len(cs) == 1, 'C20-R5', key(q, 'blocks are read through read_without_encryption'), f.loc(),
                     '%s no longer reads through the size-checked Read Without Encryption' % q)
    report.floor('C20-R5', n, 2)


def rule_password_passthrough(report, prog, rule='C20-R3'):
    """The key on the tag is derived from the password given to protect(), the key presented later from the password given to
    authenticate(): the common entry points of nfc.tag.Tag hand their `password` parameter to the tag specific `_protect` /
    `_authenticate` unchanged -- it is not re-bound in the wrapper and the delegate receives the parameter itself, first -- so that
    both derivations start from the same octets (a normalisation on one side only makes the right password fail, or a wrong one pass)."""
    n = 0
    for name, delegate in (('protect', '_protect'), ('authenticate', '_authenticate')):
        f = prog.func('nfc.tag.Tag.' + name)
        rebound = [st for st in ast.walk(f.node) if isinstance(st, (ast.Assign, ast.AugAssign, ast.AnnAssign, ast.NamedExpr)) and any(
            isinstance(t, ast.Name) and t.id == 'password' and isinstance(t.ctx, ast.Store) for t in ast.walk(st))]
        calls_ = [c for c in ast.walk(f.node) if isinstance(c, ast.Call) and norm(c.func) == 'self.' + delegate]
        n += len(calls_)
        okk = bool(calls_) and not rebound and all(c.args and isinstance(c.args[0], ast.Name) and c.args[0].id == 'password' for c in calls_)
        report.check(okk, rule, key(f.qname, 'the password reaches %s as given' % delegate), f.loc(rebound[0]) if rebound else f.loc(),
                     'Tag.%s() does not hand the password to %s as it was given (%s): protect() and authenticate() no longer derive the key from the same octets'
                     % (name, delegate, norm(rebound[0]) if rebound else 'first argument of the delegate call is not the parameter'))
    report.floor(rule + ' password delegates', n, 2)


def run(report, prog, tier):
    rule_dominance(report, prog)
    rule_password_passthrough(report, prog)
    rule_slots(report, prog)
    rule_key_derivation(report, prog)
    rule_mac_inputs(report, prog)
    rule_mac_present(report, prog)
    report.trusted += ['pyDes triple_des / CBC', 'FeliCa Lite(-S) and NTAG21x / Ultralight C authentication procedures as published by the vendors']
    report.assumptions += ['cryptographic strength and value-level tamper detection are not decided']


S = 'nfc.tag.tt3_sony'
N = 'nfc.tag.tt2_nxp'
MUTANTS = [
    ('authenticate-normalises-password', 'nfc.tag', "            self._authenticated = self._authenticate(password)", "            password = password.strip()\n            self._authenticated = self._authenticate(password)", 'C20-R3'),
    ('protect-truncates-password', 'nfc.tag', "            status = self._protect(password, read_protect, protect_from)", "            status = self._protect(password[:16], read_protect, protect_from)", 'C20-R3'),
    ('tt3-read-accepts-fewer-blocks', 'nfc.tag.tt3', "        if len(data) != 1 + len(block_list) * 16:", "        if len(data) % 16 != 1:", 'C20-R5'),
    ('mac-check-negated', S, """        if mac != self.generate_mac(data, self._sk, self._iv):
            log.warning("mac verification failed")
        else:
            return data""", """        if mac == self.generate_mac(data, self._sk, self._iv):
            log.warning("mac verification failed")
        else:
            return data""", 'C20-R1'),
    ('mac-check-logs-only', S, """            log.warning("mac verification failed")
        else:
            return data""", """            log.warning("mac verification failed")
        return data""", 'C20-R1'),
    ('mac-over-other-data', S, "if mac != self.generate_mac(data, self._sk, self._iv):", "if mac != self.generate_mac(data[0:16], self._sk, self._iv):", 'C20-R1'),
    ('mac-block-not-requested', S, "        block_list.append(tt3.BlockCode(0x81))\n", "", 'C20-R1'),
    ('session-key-before-verification', S, """        if data[-16:-8] == self.generate_mac(data[0:-16], sk, iv=rc[0:8]):
            log.debug("tag authentication completed")
            self._sk = sk""", """        self._sk = sk
        if data[-16:-8] == self.generate_mac(data[0:-16], sk, iv=rc[0:8]):
            log.debug("tag authentication completed")""", 'C20-R1'),
    ('authenticated-unconditionally', S, """            self._iv = rc[0:8]
            self._authenticated = True
            self.read_from_ndef_service = self.read_with_mac
        else:
            log.debug("tag authentication failed")""", """            self._iv = rc[0:8]
            self.read_from_ndef_service = self.read_with_mac
        else:
            log.debug("tag authentication failed")
        self._authenticated = True""", 'C20-R1'),
    ('fixed-challenge', S, "rc = os.urandom(16)", "rc = bytes(16)", 'C20-R1'),
    ('lites-no-readback', S, """            if self.read_with_mac(0x92)[0] == 0x01:
                log.debug("mutual authentication completed")
                self._authenticated = True""", """            if True:
                log.debug("mutual authentication completed")
                self._authenticated = True""", 'C20-R1'),
    ('ntag-pack-ignored', N, "            return rsp == key[4:6]", "            return len(rsp) == 2", 'C20-R1'),
    ('ntag-pack-slice', N, "            return rsp == key[4:6]", "            return rsp == key[3:5]", 'C20-R'),
    ('ntag-pwd-slot', N, "        cfg[8:14] = key", "        cfg[9:15] = key", 'C20-R2'),
    ('ntag-default-key-differs', N, """        key = password[0:6] if password != b"" else b"\\xFF\\xFF\\xFF\\xFF\\0\\0"
        log.debug("authenticate with key %s", hexlify(key).decode())""", """        key = password[0:6] if password != b"" else b"\\xFF\\xFF\\xFF\\xFF\\xFF\\xFF"
        log.debug("authenticate with key %s", hexlify(key).decode())""", 'C20-R'),
    ('ulc-key-not-reversed', N, "key1, key2 = key[7::-1], key[15:7:-1]", "key1, key2 = key[0:8], key[8:16]", 'C20-R2'),
    ('felica-key-slice-differs', S, """        key = b"\\0" * 16 if not password else password[0:16]""", """        key = b"\\0" * 16 if not password else password[1:17]""", 'C20-R3'),
    ('write-mac-unflipped', S, "maca = self.generate_mac(data, flip(self._sk), self._iv) + wcnt+5*b\"\\0\"", "maca = self.generate_mac(data, self._sk, self._iv) + wcnt+5*b\"\\0\"", 'C20-R4'),
    ('session-iv-differs', S, "            self._iv = rc[0:8]", "            self._iv = rc[8:16]", 'C20-R'),
    ('mac-not-reversed', S, "return bytearray(triple_des(key, CBC, bytes(iv)).encrypt(txt)[:-9:-1])", "return bytearray(triple_des(key, CBC, bytes(iv)).encrypt(txt)[-8:])", 'C20-R4'),
]

EXPLANATION += ' Round 5: protect() and authenticate() hand the password to their delegates unchanged.'
