# -*- coding: utf-8 -*-
"""C04 -- NFC-DEP delivers each payload exactly once, intact, or reports failure (structural clauses)."""
import ast

from ..model import norm, head, walk_no_nested, AnalysisError, FuncInfo, enclosing_stmt, ancestors, live, last_live
from ..cfg import cfg_of
from ..resolve import Resolver, Ctx
from ..escape import Escape, fmt_chain, items_sorted
from ..q import (find, match, const, try_const, only_via, tests, stmt_nodes, one, fmt, cfg_node_for, linear, calls,
                 eq_edge, edges_where)
from ..core import key
from . import c19
from .c09 import BOUNDARIES

DEP = 'nfc.dep'
EXPLANATION = (
    'R1 the chaining loops of Initiator.exchange and Target.exchange slice and delete the same width self.miu, so the '
    'fragments partition the payload, and the more-information flag is computed from what remains; R2 every packet '
    'number increment is modulo 4 and is tied to the comparison of the received PNI with the local one whose failing '
    'branch raises ProtocolError (initiator: dominated by it, target: immediately followed by it); received fragments are '
    'accumulated in order; the target resends on a repeated PNI / NAK and answers ATN; R3 the payload budget equals LR '
    'minus the encoder overhead (shared with C19-R4); R4 only CommunicationError subclasses (and IOError, and the '
    'documented argument errors) may leave exchange()/activate()/deactivate() by explicit raise paths (exception-escape '
    'analysis, clf.exchange as interface summary); R5 every loop of the recovery machinery has a recognised progress '
    'argument (deadline test, bounded range, consumption of the payload, or one new frame per cycle).  Exactly-once as a '
    'trace property of two coupled state machines under fault scripts is a model-checking question and is not decided.')

COMM = ['nfc.clf.CommunicationError']


def rule_partition(report, prog):
    for role in ('Initiator', 'Target'):
        f = prog.func('%s.%s.exchange' % (DEP, role))
        loops = [w for w in walk_no_nested(f.node) if isinstance(w, ast.While) and norm(w.test) == 'send_data']
        if len(loops) != 1:
            report.fail('C04-R1', key(f.qname, 'chaining loop over send_data'), f.loc(), 'send chaining loop not found')
            continue
        w = loops[0]
        sl = find(w, 'data = send_data[$A:$B]')
        dl = find(w, 'del send_data[$A:$B]')
        okk = len(sl) == 1 and len(dl) == 1 and norm(sl[0][1]['A']) == '0' == norm(dl[0][1]['A']) \
            and norm(sl[0][1]['B']) == norm(dl[0][1]['B']) == 'self.miu'
        report.check(okk, 'C04-R1', key(f.qname, 'fragment = send_data[0:miu], then exactly that prefix is deleted'), f.loc(w),
                     'fragment slice %s and deletion %s do not cover the same bytes' % (
                         norm(sl[0][0]) if sl else None, norm(dl[0][0]) if dl else None))
        cfg = cfg_of(f)
        if not (sl and dl):
            continue
        sn, dn = cfg.node_of(sl[0][0]), cfg.node_of(dl[0][0])
        if role == 'Initiator':
            inf = [c for c in ast.walk(w) if isinstance(c, ast.Call) and norm(c.func) == 'INF']
            okk = len(inf) == 1 and norm(inf[0].args[2]) == 'bool(send_data)' and cfg.dominates(dn, cfg_node_for(cfg, inf[0]))
            report.check(okk, 'C04-R1', key(f.qname, 'more flag = bytes remain after the fragment was removed'), f.loc(w),
                         'MoreInformation flag is not computed from the remaining payload')
        else:
            more = find(w, 'more = $E')
            okk = len(more) == 1 and norm(more[0][1]['E']) == 'len(send_data) > self.miu' \
                and cfg.dominates(cfg.node_of(more[0][0]), dn)
            report.check(okk, 'C04-R1', key(f.qname, 'more flag = payload longer than one fragment (before deletion)'), f.loc(w),
                         'MoreInformation flag is not len(send_data) > miu evaluated before the fragment is removed')
            # deletion happens only after the fragment was acknowledged (PNI checked)
            pn = [t for t in tests(cfg, 'req.pfb.pni != self.pni') if any(a is w for a in ancestors(t.ast))]
            okk = bool(pn) and all(cfg.dominates(t, dn) for t in pn)
            report.check(okk, 'C04-R1', key(f.qname, 'fragment removed only after the next request was accepted'), f.loc(w),
                         'the fragment is removed before the initiator\'s next request was checked')
        # slice precedes the send, the send precedes the delete/next slice on every cycle
        sends = [c for c in ast.walk(w) if isinstance(c, ast.Call) and norm(c.func) in ('self.send_dep_req_recv_dep_res', 'self.send_dep_res_recv_dep_req')]
        report.check(len(sends) >= 1 and cfg.dominates(sn, cfg_node_for(cfg, sends[0])), 'C04-R1',
                     key(f.qname, 'each cycle sends the fragment it sliced'), f.loc(w), 'fragment is not sent in the cycle it was sliced')


def rule_reassembly(report, prog):
    """R1 (receive side): exchange() hands a payload to its caller only after the receive-chaining loop has seen a PDU without
    the MoreInformation flag -- every `return <value>` is reachable only through the exit edge of `while <pdu>.pfb.fmt ==
    MoreInformation`, the loop accumulates every chained fragment and the final fragment is appended after it."""
    for role, var, more in (('Initiator', 'res', 'DEP_RES.MoreInformation'), ('Target', 'req', 'DEP_REQ.MoreInformation')):
        f = prog.func('%s.%s.exchange' % (DEP, role))
        cfg = cfg_of(f)
        loops = [w for w in walk_no_nested(f.node) if isinstance(w, ast.While) and norm(w.test) in (
            '%s.pfb.fmt == %s' % (var, more), '%s.pfb.fmt is %s' % (var, more))]
        if len(loops) != 1:
            report.fail('C04-R1', key(f.qname, 'payload returned only after the last chained fragment'), f.loc(), 'receive chaining loop not found')
            continue
        tn = [t for e, t in cfg.test_nodes.items() if e is loops[0].test]
        rets = [n for n in cfg.nodes if isinstance(n.ast, ast.Return) and n.ast.value is not None and try_const(n.ast.value, default=0) is not None]
        okk = bool(rets) and bool(tn)
        path = None
        for r in rets:
            o, p_ = only_via(cfg, r, [(tn[0], 'false')], ps=False) if tn else (False, None)
            if not o:
                okk, path = False, p_
        report.check(okk, 'C04-R1', key(f.qname, 'payload returned only after the last chained fragment'), f.loc(loops[0]),
                     '%s.exchange can return data without passing the end of the receive chaining loop: a chained payload reaches the '
                     'application in pieces' % role, fmt(cfg, path) if path else None)
        acc = [s_ for s_ in loops[0].body if isinstance(s_, ast.AugAssign) and isinstance(s_.op, ast.Add) and norm(s_.value) == var + '.data']
        tail = [n for n in cfg.nodes if isinstance(n.ast, (ast.AugAssign, ast.Assign)) and norm(n.ast.value) == var + '.data' and
                not any(a is loops[0] for a in ancestors(n.ast))]
        okk = len(acc) == 1 and len(tail) == 1 and norm(acc[0].target) == norm(tail[0].ast.target if isinstance(tail[0].ast, ast.AugAssign)
                                                                                else tail[0].ast.targets[0]) and \
            all(norm(r.ast.value) == norm(acc[0].target) for r in rets)
        report.check(okk, 'C04-R1', key(f.qname, 'every chained fragment and the final one are appended to the returned payload'), f.loc(loops[0]),
                     '%s.exchange does not return the concatenation of all received fragments' % role)


def _stale_pdus(report, f, cfg):
    """A PDU built from the current packet number is sent before the packet number changes: between `v = F(self.pni, ...)` and a
    use of v as a call argument no assignment to self.pni may happen (hoisting the construction out of a loop sends stale numbers)."""
    builds = {}
    for st in walk_no_nested(f.node):
        if isinstance(st, ast.Assign) and len(st.targets) == 1 and isinstance(st.targets[0], ast.Name) and isinstance(st.value, ast.Call) and \
                any(norm(a) == 'self.pni' for a in st.value.args):
            builds.setdefault(st.targets[0].id, []).append(cfg.node_of(st))
    pni_sets = [cfg.node_of(st) for st in walk_no_nested(f.node) if isinstance(st, ast.Assign) and norm(st.targets[0]) == 'self.pni']
    n = 0
    for v, bnodes in sorted(builds.items()):
        uses = []
        for c in walk_no_nested(f.node):
            if isinstance(c, ast.Call) and any(isinstance(a, ast.Name) and a.id == v for a in c.args) and norm(c.func).startswith('self.send_'):
                uses.append(cfg_node_for(cfg, c))
        for b in bnodes:
            n += 1
            bad = None
            for p_ in pni_sets:
                if p_ in cfg.reachable(b, avoid_nodes=[x for x in bnodes if x is not b]):
                    for u in uses:
                        if u is not None and u in cfg.reachable(p_, avoid_nodes=bnodes):
                            bad = (p_, u)
            report.check(bad is None, 'C04-R2', key(f.qname, 'PDU carries the packet number that is current when it is sent', b.ast), f.loc(b.ast),
                         '`%s` is built before `%s` and sent afterwards (`%s`): the PDU carries a stale packet number'
                         % (norm(b.ast), norm(bad[0].ast) if bad else '', head(bad[1].ast)[:60] if bad else ''))
    return n


def rule_recovery(report, prog):
    """R6 recovery completeness: a NACK makes the Target send its last response again, whatever it was.  The answers the
    Initiator accepts after a NACK must therefore cover every answer its exchange() accepts for an outstanding request: INF
    (last / more) and, while it sends a chained payload, the ACK -- else a single corrupted ACK is unrecoverable."""
    f = prog.functions.get('nfc.dep.Initiator.send_dep_req_recv_dep_res.<request_retransmission>') or \
        next((g for q, g in prog.functions.items() if q.startswith('nfc.dep.Initiator.send_dep_req_recv_dep_res') and q.endswith('request_retransmission')), None)
    if f is None:
        raise AnalysisError('C04-R6: request_retransmission not found')
    tests_ = [c for c in ast.walk(f.node) if isinstance(c, ast.Compare) and norm(c.left) == 'res.pfb.fmt' and isinstance(c.ops[0], ast.NotIn)]
    if len(tests_) != 1:
        raise AnalysisError('C04-R6: accepted-answer test of request_retransmission not found')
    var = tests_[0].comparators[0]
    kinds = set()
    exprs = [var]
    if isinstance(var, ast.Name):
        exprs = [a.value for a in walk_no_nested(f.node) if isinstance(a, ast.Assign) and any(norm(t) == var.id for t in a.targets)]
        exprs += [c.args[0] for c in ast.walk(f.node) if isinstance(c, ast.Call) and norm(c.func) in (var.id + '.append', var.id + '.add') and c.args]
        exprs += [a.value for a in walk_no_nested(f.node) if isinstance(a, ast.AugAssign) and norm(a.target) == var.id]
    for e in exprs:
        for x in ast.walk(e):
            if isinstance(x, ast.Attribute) and norm(x.value) == 'DEP_RES':
                kinds.add(x.attr)
    ex = prog.func('nfc.dep.Initiator.exchange')
    accepted = set(x.attr for x in ast.walk(ex.node) if isinstance(x, ast.Attribute) and norm(x.value) == 'DEP_RES'
                   and x.attr in ('LastInformation', 'MoreInformation', 'PositiveAck'))
    report.check(accepted <= kinds and bool(accepted), 'C04-R6', key(f.qname, 'answers accepted after a NACK cover the answers exchange() accepts'), f.loc(tests_[0]),
                 'after a NACK only %s are accepted although exchange() also expects %s: a corrupted %s response cannot be recovered by '
                 'retransmission' % (sorted(kinds), sorted(accepted - kinds), '/'.join(sorted(accepted - kinds))))


def rule_timeout_recovery(report, prog, rule='C04-R6'):
    """After a timeout the Initiator cannot know which frame was lost -- its request or the answer.  A NACK asks for the *previous*
    response again, which is only right when the Target has seen the request; so the timeout handler of
    send_dep_req_recv_dep_res goes through the attention request and then sends the same request again, and never answers a timeout
    with request_retransmission (a lost ACK would make the Target repeat the frame before it: wrong packet number)."""
    f = prog.func('nfc.dep.Initiator.send_dep_req_recv_dep_res')
    handlers = [h for t in walk_no_nested(f.node) if isinstance(t, ast.Try) for h in t.handlers
                if h.type is not None and norm(h.type).endswith('TimeoutError')
                and any(isinstance(c, ast.Call) and norm(c.func).endswith('send_req_recv_res') for st in t.body for c in ast.walk(st))]
    report.floor(rule + ' timeout handler of the request loop', len(handlers), 1)
    for h in handlers:
        called = [norm(c.func).split('.')[-1] for st in h.body for c in ast.walk(st) if isinstance(c, ast.Call)]
        okk = 'request_retransmission' not in called and 'request_attention' in called
        report.check(okk, rule, key(f.qname, 'a timeout is answered with the attention request, never with a NACK'), f.loc(h),
                     'the TimeoutError handler of the request loop calls %s: after a timeout the Target may not have seen the request, a NACK then '
                     'fetches the response to the request before it' % [c for c in called if c.startswith('request_')])


def rule_did(report, prog):
    """R7 addressing: a peer that was given a DID answers only PDUs that carry it (Target: `req.did != self.did` -> ignored).
    Every DEP_REQ / DEP_RES the two roles build therefore takes its DID from a parameter of the builder helper, flags it in the
    PFB as `<param> is not None`, and every call of the helper passes self.did -- the recovery PDUs (ATN, NACK) included."""
    n = 0
    for q, f in sorted(prog.functions.items()):
        if not q.startswith(('nfc.dep.Initiator.', 'nfc.dep.Target.')) or f.parent is None:
            continue
        cons = [c for c in walk_no_nested(f.node) if isinstance(c, ast.Call) and norm(c.func) in ('DEP_REQ', 'DEP_RES')]
        if not cons:
            continue
        for c in cons:
            n += 1
            kw = {k.arg: k.value for k in c.keywords}
            did = kw.get('did', c.args[1] if len(c.args) > 1 else None)
            k_ = key(f.qname, 'PDU carries the DID it is given and flags it in the PFB')
            okk = isinstance(did, ast.Name) and did.id in f.params
            pfbs = [p for p in walk_no_nested(f.node) if isinstance(p, ast.Call) and norm(p.func).endswith('.PFB')]
            if okk:
                pk = {k.arg: k.value for k in pfbs[0].keywords} if pfbs else {}
                flag = pk.get('did', pfbs[0].args[2] if pfbs and len(pfbs[0].args) > 2 else None)
                okk = len(pfbs) == 1 and flag is not None and norm(flag) == did.id + ' is not None'
            report.check(okk, 'C04-R7', k_, f.loc(c), '%s builds a PDU whose DID is not the `did` parameter flagged as `did is not None` '
                         '(a peer with a DID ignores the PDU)' % f.qname)
            if not okk:
                continue
            pos = f.params.index(did.id)
            outer = f.parent
            for call in ast.walk(outer.node):
                if isinstance(call, ast.Call) and isinstance(call.func, ast.Name) and call.func.id == f.name:
                    n += 1
                    ck = {k.arg: k.value for k in call.keywords}
                    arg = ck.get(did.id, call.args[pos] if len(call.args) > pos else None)
                    report.check(arg is not None and norm(arg) == 'self.did', 'C04-R7',
                                 key(outer.qname, '%s() is given self.did' % f.name, call), outer.loc(call),
                                 '%s is built without the negotiated DID (`%s`): the peer ignores it' % (f.name, norm(call)))
    report.floor('C04-R7', n, 20)


def rule_pni(report, prog):
    n = 0
    for role in ('Initiator', 'Target'):
        f = prog.func('%s.%s.exchange' % (DEP, role))
        cfg = cfg_of(f)
        _stale_pdus(report, f, cfg)
        peer = 'res.pfb.pni' if role == 'Initiator' else 'req.pfb.pni'
        for st in walk_no_nested(f.node):
            if isinstance(st, ast.Assign) and norm(st.targets[0]) == 'self.pni' and not isinstance(st.value, ast.Constant):
                n += 1
                okm = norm(st.value) in ('self.pni + 1 & 3', '(self.pni + 1) % 4')
                report.check(okm, 'C04-R2', key(f.qname, 'PNI increment is +1 modulo 4', st), f.loc(st),
                             'packet number update %s is not (pni + 1) mod 4' % norm(st))
                node = cfg.node_of(st)
                edges = edges_where(cfg, lambda e: eq_edge(e, peer, 'self.pni'))
                if role == 'Initiator':
                    okk, p = only_via(cfg, node, edges)
                    report.check(okk, 'C04-R2', key(f.qname, 'PNI incremented only after the response PNI matched', st), f.loc(st),
                                 'the packet number is advanced without checking the PNI of the response', fmt(cfg, p))
                else:
                    # the comparison with the incremented PNI follows immediately and raises on mismatch
                    body = None
                    par = st._parent
                    for fld in ('body', 'orelse'):
                        if any(x is st for x in getattr(par, fld, [])):
                            body = getattr(par, fld)
                    idx = [i for i, x in enumerate(body) if x is st][0]
                    nxt = body[idx + 1] if idx + 1 < len(body) else None
                    okk = isinstance(nxt, ast.If) and eq_edge(nxt.test, peer, 'self.pni') == 'false' \
                        and any(isinstance(x, ast.Raise) and 'ProtocolError' in norm(x) for x in nxt.body)
                    report.check(okk, 'C04-R2', key(f.qname, 'request PNI compared with the advanced PNI right after the increment', st),
                                 f.loc(st), 'after advancing the packet number the PNI of the new request is not checked')
        # mismatch raises ProtocolError
        for e, t in cfg.test_nodes.items():
            if eq_edge(e, peer, 'self.pni') == 'false' and isinstance(t.owner, ast.If):
                okk = any(isinstance(x, ast.Raise) and 'nfc.clf.ProtocolError' in norm(x) for x in t.owner.body)
                report.check(okk, 'C04-R2', key(f.qname, 'PNI mismatch raises ProtocolError', e), f.loc(e),
                             'a packet number mismatch is not reported as ProtocolError')
    report.floor('C04-R2', n, 4)
    # PFB encode/decode: pni in the two low bits, did bit 2, nad bit 3, type in the high nibble
    enc = prog.func(DEP + '.DEP_REQ_RES.encode')
    dec = prog.func(DEP + '.DEP_REQ_RES.decode')
    e = find(enc.node, 'pfb = $E')
    e = [b['E'] for n_, b in e if 'pfb.fmt' in norm(b['E'])]
    d = [c for c in ast.walk(dec.node) if isinstance(c, ast.Call) and norm(c.func) == 'cls.PFB']
    if len(e) == 1 and len(d) == 1:
        bad = []
        for fmt_ in (0, 1, 4, 5, 8, 9):
            for nad in (0, 1):
                for did in (0, 1):
                    for pni in range(4):
                        byte = const(e[0], {'pfb.fmt': fmt_, 'pfb.nad': nad, 'pfb.did': did, 'pfb.pni': pni})
                        got = tuple(const(a, {'pfb': byte}) for a in d[0].args)
                        if got != (fmt_, bool(nad), bool(did), pni):
                            bad.append((fmt_, nad, did, pni, got))
        report.check(not bad, 'C04-R2', key(DEP + '.DEP_REQ_RES', 'PFB byte layout: encode and decode are inverse (96 combinations)'),
                     dec.loc(), 'PFB encode/decode disagree: %s' % bad[:2])
    else:
        report.fail('C04-R2', key(DEP + '.DEP_REQ_RES', 'PFB byte layout'), dec.loc(), 'PFB expressions not found')
    # in-order accumulation of received fragments
    fi = prog.func(DEP + '.Initiator.exchange')
    okk = bool(find(fi.node, 'recv_data = res.data')) and bool(find(fi.node, 'recv_data += res.data'))
    report.check(okk, 'C04-R2', key(fi.qname, 'received fragments appended in arrival order'), fi.loc(), 'initiator reassembly changed')
    ft = prog.func(DEP + '.Target.exchange')
    adds = find(ft.node, 'recv_data += req.data')
    report.check(len(adds) == 2 and bool(find(ft.node, 'recv_data = bytearray()')), 'C04-R2',
                 key(ft.qname, 'received fragments appended in arrival order'), ft.loc(), 'target reassembly changed')
    # initiator: an ACK is only acceptable while data remains
    cfg = cfg_of(fi)
    t = tests(cfg, 'res.pfb.fmt == DEP_RES.PositiveAck')
    okk = bool(t) and isinstance(t[0].owner, ast.If) and any(norm(x.test) == 'not send_data' and any(isinstance(y, ast.Raise) for y in x.body)
                                                              for x in t[0].owner.body if isinstance(x, ast.If))
    report.check(okk, 'C04-R2', key(fi.qname, 'ACK after the last fragment is a protocol error'), fi.loc(),
                 'an ACK response to the last fragment is accepted as an answer')
    okk = any(norm(x.test) == 'res.pfb.fmt != DEP_RES.LastInformation and res.pfb.fmt != DEP_RES.MoreInformation'
              for x in walk_no_nested(fi.node) if isinstance(x, ast.If))
    report.check(okk, 'C04-R2', key(fi.qname, 'only INF PDUs carry the response'), fi.loc(), 'non-INF response accepted as data')
    # target duplicate detection / NAK / ATN
    g = prog.func(DEP + '.Target.send_dep_res_recv_dep_req')
    gc = cfg_of(g)
    want = {'req.pfb.fmt == DEP_REQ.Attention': 'res = ATN(self.did, self.nad)', 'req.pfb.fmt == DEP_REQ.NegativeAck': 'res = dep_res',
            'req.pfb.pni == self.pni': 'res = dep_res', 'req.did != self.did': 'res = None'}
    for cond, action in sorted(want.items()):
        t = tests(gc, cond)
        okk = False
        if t and isinstance(t[0].owner, ast.If):
            okk = any(norm(x) == action for x in t[0].owner.body)
        report.check(okk, 'C04-R2', key(g.qname, 'on %s: %s' % (cond, action)), g.loc(),
                     'target recovery rule changed: on %s the target no longer does %s' % (cond, action))
    # DID filter is evaluated before any request is interpreted
    t_did = tests(gc, 'req.did != self.did')
    others = [x for c in ('req.pfb.fmt == DEP_REQ.Attention', 'req.pfb.pni == self.pni') for x in tests(gc, c)]
    report.check(bool(t_did) and all(gc.dominates(t_did[0], o) for o in others), 'C04-R2',
                 key(g.qname, 'requests for another DID are ignored first'), g.loc(), 'DID filter no longer precedes request handling')
    # initiator: timeout -> ATN, transmission error -> NAK
    h = prog.func(DEP + '.Initiator.send_dep_req_recv_dep_res')
    tr = [t for t in walk_no_nested(h.node) if isinstance(t, ast.Try)]
    okk = False
    for t in tr:
        hm = {norm(x.type): [norm(s) for s in live(x.body)] for x in t.handlers if x.type is not None}
        if any('request_attention(self, 2, rwt, deadline)' in s for s in hm.get('nfc.clf.TimeoutError', [])) and \
                any('request_retransmission(self, 2, rwt, deadline)' in s for s in hm.get('nfc.clf.TransmissionError', [])):
            okk = True
    report.check(okk, 'C04-R2', key(h.qname, 'timeout -> ATN, transmission error -> NAK, two retries'), h.loc(),
                 'initiator error recovery dispatch changed')
    okk = any(norm(x.test) == 'res.pfb.fmt == DEP_RES.NegativeAck' and any(isinstance(y, ast.Raise) for y in x.body)
              for x in walk_no_nested(h.node) if isinstance(x, ast.If))
    report.check(okk, 'C04-R2', key(h.qname, 'NAK from the target is a protocol error'), h.loc(), 'target NAK accepted')
    nak = h.closures.get('NAK')
    report.check(nak is not None and 'self.pni' in norm(nak.node), 'C04-R2', key(h.qname, 'NAK carries the current PNI'), h.loc(),
                 'NAK PDU no longer carries the current packet number')


def rule_frames(report, prog):
    for role, code in (('Initiator', 0xD5), ('Target', 0xD4)):
        f = prog.func('%s.%s.decode_frame' % (DEP, role))
        cfg = cfg_of(f)
        ret = [n for n in cfg.nodes if n.kind == 'stmt' and isinstance(n.ast, ast.Return)]
        if len(ret) != 1:
            raise AnalysisError('C04: decode_frame return shape changed')
        guards = {
            'start byte F0 at 106A': [(t, 'false') for e, t in cfg.test_nodes.items() if norm(e) == 'frame.pop(0) != 240'],
            'LEN byte == frame length': [(t, 'false') for e, t in cfg.test_nodes.items() if norm(e) == 'len(frame) != frame.pop(0)'],
            'at least command bytes': [(t, 'false') for e, t in cfg.test_nodes.items() if norm(e) == 'len(frame) < 2'],
            'response/command code': [(t, 'false') for e, t in cfg.test_nodes.items() if norm(e) == 'frame[0] != %d' % code],
        }
        for what, edges in sorted(guards.items()):
            if what.startswith('start byte'):
                # only required on the 106A branch
                t106 = [t for e, t in cfg.test_nodes.items() if norm(e) == "self.target.brty == '106A'"]
                okk = bool(edges) and bool(t106)
                if okk:
                    reach = cfg.reachable_ps(cfg.entry, avoid_edges=edges + [(t106[0], 'false')])
                    okk = ret[0] not in reach
            else:
                okk, p = only_via(cfg, ret[0], edges)
            report.check(okk, 'C04-R2', key(f.qname, 'frame accepted only if: ' + what), f.loc(),
                         'decode_frame accepts a frame without checking: %s' % what)
        codes = [try_const(e.comparators[0]) for e in ast.walk(f.node) if isinstance(e, ast.Compare) and norm(e.left) == 'frame[1]']
        # the dispatch table: {code: 'ATR'} + suffix through eval(), or {code: ATR_RES}
        suffix = '_RES' if role == 'Initiator' else '_REQ'
        d = []
        for x in ast.walk(f.node):
            if isinstance(x, ast.Dict) and None not in x.keys:
                d.append({try_const(k): (v.value + suffix if isinstance(v, ast.Constant) and isinstance(v.value, str) else norm(v))
                          for k, v in zip(x.keys, x.values)})
        okk = len(codes) == 1 and len(d) == 1 and set(codes[0]) == set(d[0].keys())
        report.check(okk, 'C04-R2', key(f.qname, 'accepted command codes == dispatch table keys'), f.loc(),
                     'accepted codes %r differ from the dispatch table %r' % (codes, d))
        suffix = ''
        for k, v in (d[0] if d else {}).items():
            c = prog.classes.get('%s.%s%s' % (DEP, v, suffix))
            pc = None
            if c is not None:
                a = prog.lookup(c, 'PDU_CODE')
                pc = try_const(a[2]) if isinstance(a, tuple) else None
            report.check(pc is not None and bytes(pc) == bytes([code, k]), 'C04-R2',
                         key(f.qname, 'code %d dispatches to the class with that PDU_CODE' % k), f.loc(),
                         'command code %d dispatches to %s%s whose PDU_CODE is %r' % (k, v, suffix, pc))


def rule_escape(report, prog, res):
    allowed_extra = {
        'nfc.dep.Initiator.activate': {'AssertionError', 'ValueError', 'nfc.clf.UnsupportedTargetError'},
        'nfc.dep.Target.activate': {'AssertionError', 'ValueError', 'nfc.clf.UnsupportedTargetError'},
        'nfc.dep.Target.exchange': {'ValueError', 'AssertionError'},
    }
    for role in ('Initiator', 'Target'):
        c = prog.cls('%s.%s' % (DEP, role))
        for m in ('activate', 'exchange', 'deactivate'):
            f = prog.lookup(c, m)
            esc = Escape(prog, res, boundaries=BOUNDARIES)
            r = esc.esc(f, Ctx(c))
            seen = 0
            for it in items_sorted(r):
                seen += 1
                okk = prog.exc_is_sub(it.exc, 'nfc.clf.CommunicationError') or prog.exc_is_sub(it.exc, 'OSError') \
                    or it.exc in allowed_extra.get(f.qname, set())
                k = key(f.qname, '%s raised in %s is a documented error' % (it.exc, it.site_func), it.site_text)
                if it.exc in allowed_extra.get(f.qname, set()) and it.origin in ('explicit', 'assert'):
                    # argument preconditions must be raised in the entry function itself (not deep inside on peer data)
                    okk = it.site_func in (f.qname, 'nfc.clf.RemoteTarget.brty.setter')
                report.check(okk, 'C04-R4', k, f.loc(), '%s may leave %s: %s' % (it.exc, f.qname, it.site_text), fmt_chain(it))
            report.stats['escape_items_%s_%s' % (role, m)] = seen
            unresolved = sorted(set(t for ff, cc, t in esc.unresolved_sites
                                    if not any(t.endswith(x) for x in ('.format', 'log.debug', 'log.error', 'log.warning', 'log.info',
                                                                       '.pop', '.append', '.extend', '.startswith', '.get', '.index'))))
            report.stats['unresolved_%s_%s' % (role, m)] = unresolved


def rule_deadlines(report, prog, rule='C04-R5'):
    """A loop that is bounded by a deadline stays bounded only while the deadline is not moved: in nfc.dep no loop assigns the
    deadline variable it (or the helpers it calls with it) is bounded by -- the peer could otherwise keep the loop alive for ever by
    answering just enough (e.g. every attention request)."""
    n = 0
    for q, f in sorted(prog.functions.items()):
        if not q.startswith('nfc.dep.'):
            continue
        for lp in walk_no_nested(f.node):
            if not isinstance(lp, (ast.While, ast.For)):
                continue
            names = set(x.id for x in ast.walk(lp) if isinstance(x, ast.Name) and 'deadline' in x.id)
            if not names:
                continue
            n += 1
            moved = [st for st in ast.walk(lp) if isinstance(st, (ast.Assign, ast.AugAssign)) and any(
                isinstance(t, ast.Name) and t.id in names for tt in (st.targets if isinstance(st, ast.Assign) else [st.target]) for t in ast.walk(tt))]
            report.check(not moved, rule, key(f.qname, 'the deadline is not moved inside the loop it bounds', lp.test if isinstance(lp, ast.While) else lp.iter),
                         f.loc(moved[0]) if moved else f.loc(lp),
                         '%s: `%s` re-arms the deadline inside the loop that the deadline bounds: a peer that keeps answering keeps the '
                         'caller in the loop for ever' % (f.qname, norm(moved[0]) if moved else ''))
    report.floor(rule + ' deadline loops', n, 4)


def rule_loops(report, prog):
    """Every loop in the NFC-DEP machinery has a recognised progress argument."""
    n = 0
    for q in ('Initiator.exchange', 'Initiator.send_dep_req_recv_dep_res', 'Target.exchange', 'Target._deactivate',
              'Target.send_dep_res_recv_dep_req', 'Target.send_res_recv_req'):
        f = prog.func(DEP + '.' + q)
        fns = [f] + list(f.closures.values())
        for g in fns:
            for lp in walk_no_nested(g.node):
                if isinstance(lp, ast.For):
                    n += 1
                    it = norm(lp.iter)
                    report.check(it.startswith('range('), 'C04-R5', key(g.qname, 'for loop over a bounded range', lp.iter), g.loc(lp),
                                 'loop over %s is not a bounded retry range' % it)
                elif isinstance(lp, ast.While):
                    n += 1
                    test = norm(lp.test)
                    body = ' ; '.join(norm(s) for s in lp.body)
                    kind = None
                    if 'time.time()' in test and 'deadline' in test:
                        kind = 'deadline in the loop condition'
                    elif test == 'send_data' and 'del send_data[0:self.miu]' in ' ; '.join(norm(s) for s in walk_no_nested(lp) if isinstance(s, ast.stmt)):
                        kind = 'payload consumed on every cycle'
                    elif test == 'True' and isinstance(live(lp.body)[0], ast.Assign) and 'deadline - time.time()' in norm(live(lp.body)[0]) \
                            and len(live(lp.body)) > 1 and isinstance(live(lp.body)[1], ast.If) and any(isinstance(x, ast.Raise) for x in live(lp.body)[1].body):
                        kind = 'deadline test raises TimeoutError at the top of every cycle'
                    elif test == 'True' and 'deadline' in norm(live(lp.body)[0]) and 'self.clf.exchange(frame, timeout=timeout)' in body:
                        kind = 'every cycle is one exchange bounded by the deadline (timeout 0 after it)'
                    elif 'MoreInformation' in test and ('send_dep_req_recv_dep_res' in body or 'send_dep_res_recv_dep_req' in body):
                        kind = 'one new frame per cycle (peer chaining), each exchange bounded by timeout/deadline'
                    elif test in ('dep_req is None', 'True') and len(live(lp.body)) > 1 and \
                            norm(live(lp.body)[0]) == 'req = self.send_res_recv_req(res, deadline)' and \
                            isinstance(live(lp.body)[1], ast.If) and norm(live(lp.body)[1].test) == 'req is None' and \
                            isinstance(last_live(live(lp.body)[1].body), ast.Return):
                        # every cycle starts with one exchange bounded by the deadline and ends the operation when that gave nothing
                        kind = 'one frame per cycle until the deadline makes send_res_recv_req return None'
                    report.check(kind is not None, 'C04-R5', key(g.qname, 'while loop has a progress argument', lp.test), g.loc(lp),
                                 'loop `while %s` in %s has no recognised bound (deadline, retry counter, payload consumption)' % (test, g.qname),
                                 detail=kind)
    report.floor('C04-R5', n, 12)
    # the retry helpers give up: ProtocolError after the range is exhausted
    f = prog.func(DEP + '.Initiator.send_dep_req_recv_dep_res')
    for name in ('request_attention', 'request_retransmission'):
        g = f.closures[name]
        last = last_live(g.node.body)
        report.check(isinstance(last, ast.Raise) and 'ProtocolError' in norm(last), 'C04-R5',
                     key(g.qname, 'exhausted retries end in ProtocolError'), g.loc(), '%s does not give up with ProtocolError' % name)
    # timeout extension bounded
    fi = prog.func(DEP + '.Initiator.exchange')
    rt = [lp for lp in walk_no_nested(fi.node) if isinstance(lp, ast.For) and norm(lp.iter) == 'range(3)']
    okk = len(rt) == 2 and all(lp.orelse and any(isinstance(x, ast.Raise) for x in lp.orelse) for lp in rt)
    report.check(okk, 'C04-R5', key(fi.qname, 'at most 3 timeout extensions, then TimeoutError'), fi.loc(),
                 'timeout extension handling is no longer bounded')
    rx = fi.closures.get('RTOX')
    okk = rx is not None and any(norm(x.test) == 'not 0 < rtox < 60' and any(isinstance(y, ast.Raise) for y in x.body)
                                 for x in walk_no_nested(rx.node) if isinstance(x, ast.If))
    report.check(okk, 'C04-R5', key(fi.qname, 'RTOX value limited to 1..59'), fi.loc(), 'RTOX range check changed')


def rule_frontend_once(report, prog, rule='C04-R6'):
    """Whether a frame is sent again is decided by the protocol layer that knows what the frame means (an Initiator repeats a request, a
    Target must stay silent until the request is repeated): ContactlessFrontend.exchange() hands each frame to the driver exactly
    once -- on no path (handlers included) does a second driver exchange follow the first, and the call is not in a loop."""
    f = prog.func('nfc.clf.ContactlessFrontend.exchange')
    cfg = cfg_of(f)
    alias = set()
    for st in walk_no_nested(f.node):
        if isinstance(st, ast.Assign) and norm(st.value) in ('self.device.send_cmd_recv_rsp', 'self.device.send_rsp_recv_cmd'):
            alias.update(t.id for t in st.targets if isinstance(t, ast.Name))
    sites = []
    for c in walk_no_nested(f.node):
        if isinstance(c, ast.Call) and (norm(c.func) in ('self.device.send_cmd_recv_rsp', 'self.device.send_rsp_recv_cmd')
                                        or (isinstance(c.func, ast.Name) and c.func.id in alias)):
            node = cfg_node_for(cfg, enclosing_stmt(c))
            if node is not None and node not in sites:
                sites.append(node)
    report.floor(rule + ' driver exchange sites', len(sites), 1)
    again = [(a, b) for a in sites for b in sites if any(b in cfg.reachable(m) for m, _l in a.succ)]
    report.check(not again, rule, key(f.qname, 'one frame, one driver exchange: no second hand-over on any path'), f.loc(again[0][1].ast) if again else f.loc(),
                 'ContactlessFrontend.exchange() can hand the same frame to the driver a second time (`%s` is reachable after `%s`): in listen mode '
                 'that repeats the previous response to a request the Target could not read' % (
                     norm(again[0][1].ast)[:60] if again else '', norm(again[0][0].ast)[:60] if again else ''))


def run(report, prog, tier):
    res = Resolver(prog)
    rule_partition(report, prog)
    rule_frontend_once(report, prog)
    rule_timeout_recovery(report, prog)
    rule_reassembly(report, prog)
    rule_recovery(report, prog)
    rule_did(report, prog)
    rule_pni(report, prog)
    rule_frames(report, prog)
    c19.rule_budget(report, prog, res, rule='C04-R3')
    c19.rule_dep_miu(report, prog, rule='C04-R3')
    # recovery rests on how the drivers classify what the chip reports: a corrupted frame has to surface as TransmissionError (the
    # protocol layer answers with NACK / keeps waiting), only a lost field as BrokenLinkError.  The mapping obligations of C13-R2 are
    # obligations of this property too (reported here as C04-R8).
    from . import c13
    before = len(report.failures)
    c13.rule_mapping(report, prog)
    if 'C13-R2' in report.obligations:
        report.obligations['C04-R8'] = report.obligations.pop('C13-R2')
    for f_ in report.failures[before:]:
        if f_.rule == 'C13-R2':
            f_.rule = 'C04-R8'
    for s_ in report.samples:
        if s_.get('rule') == 'C13-R2':
            s_['rule'] = 'C04-R8'
    rule_escape(report, prog, res)
    rule_loops(report, prog)
    rule_deadlines(report, prog)
    report.trusted += ['interface summary: ContactlessFrontend.exchange raises only CommunicationError subclasses or IOError (C13)']
    report.assumptions += ['implicit exceptions (IndexError on short frames) are covered by the buffer rules of C07']


D = 'nfc.dep'
MUTANTS = [
    ('frontend-repeats-exchange', 'nfc.clf', "            rcvd_data = exchange(self.target, send_data, timeout)\n", "            try:\n                rcvd_data = exchange(self.target, send_data, timeout)\n            except TransmissionError:\n                rcvd_data = exchange(self.target, send_data, timeout)\n", 'C04-R6'),
    ('initiator-timeout-answered-with-nack', 'nfc.dep', """            except nfc.clf.TimeoutError:
                request_attention(self, 2, rwt, deadline)
                continue""", """            except nfc.clf.TimeoutError:
                request_attention(self, 2, rwt, deadline)
                res = request_retransmission(self, 2, rwt, deadline)
                break""", 'C04-R6'),
    ('initiator-deadline-rearmed-after-atn', DEP, """                request_attention(self, 2, rwt, deadline)
                continue""", """                request_attention(self, 2, rwt, deadline)
                deadline = time.time() + rwt
                continue""", 'C04-R5'),
    ('target-first-request-returned-unchained', DEP, """            req = self.send_dep_res_recv_dep_req(None, deadline)
            self.pni = 0
""", """            req = self.send_dep_res_recv_dep_req(None, deadline)
            self.pni = 0
            if req is not None:
                return req.data
""", 'C04-R1'),
    ('initiator-drops-first-fragment', DEP, "        recv_data = res.data\n\n        while res.pfb.fmt == DEP_RES.MoreInformation:", "        recv_data = bytearray()\n\n        while res.pfb.fmt == DEP_RES.MoreInformation:", 'C04-R1'),
    ('initiator-del-width', D, """            data = send_data[0:self.miu]
            del send_data[0:self.miu]
            req = INF(self.pni, data, bool(send_data), self.did, self.nad)""", """            data = send_data[0:self.miu]
            del send_data[0:self.miu+1]
            req = INF(self.pni, data, bool(send_data), self.did, self.nad)""", 'C04-R1'),
    ('initiator-more-before-del', D, """            data = send_data[0:self.miu]
            del send_data[0:self.miu]
            req = INF(self.pni, data, bool(send_data), self.did, self.nad)""", """            data = send_data[0:self.miu]
            req = INF(self.pni, data, bool(send_data), self.did, self.nad)
            del send_data[0:self.miu]""", 'C04-R1'),
    ('target-more-ge', D, 'more = len(send_data) > self.miu', 'more = len(send_data) >= self.miu', 'C04-R1'),
    ('target-slice-short', D, """                data = send_data[0:self.miu]
                more = len(send_data) > self.miu""", """                data = send_data[0:self.miu-1]
                more = len(send_data) > self.miu""", 'C04-R1'),
    ('pni-mod-8', D, """            recv_data += res.data
            self.pni = (self.pni + 1) & 0x3""", """            recv_data += res.data
            self.pni = (self.pni + 1) & 0x7""", 'C04-R2'),
    ('initiator-pni-unchecked', D, """            if res.pfb.pni != self.pni:
                raise nfc.clf.ProtocolError("wrong NFC-DEP packet number")
            self.pni = (self.pni + 1) & 0x3

        if ((res.pfb.fmt""", """            self.pni = (self.pni + 1) & 0x3

        if ((res.pfb.fmt""", 'C04-R2'),
    ('target-pni-unchecked', D, """            self.pni = (self.pni + 1) & 0x3
            if req.pfb.pni != self.pni:
                raise nfc.clf.ProtocolError("wrong NFC-DEP packet number")

        recv_data += req.data""", """            self.pni = (self.pni + 1) & 0x3

        recv_data += req.data""", 'C04-R2'),
    ('pfb-pni-mask', D, 'pfb = cls.PFB(pfb >> 4, bool(pfb & 8), bool(pfb & 4), pfb & 3)', 'pfb = cls.PFB(pfb >> 4, bool(pfb & 8), bool(pfb & 4), pfb & 1)', 'C04-R2'),
    ('pfb-did-nad-swapped', D, 'pfb = (pfb.fmt << 4) | (pfb.nad << 3) | (pfb.did << 2) | (pfb.pni)', 'pfb = (pfb.fmt << 4) | (pfb.did << 3) | (pfb.nad << 2) | (pfb.pni)', 'C04-R2'),
    ('target-dup-not-resent', D, """                elif req.pfb.pni == self.pni:
                    res = dep_res""", """                elif req.pfb.pni == self.pni:
                    dep_req = req""", 'C04-R2'),
    ('target-nak-ignored', D, """                elif req.pfb.fmt == DEP_REQ.NegativeAck:
                    res = dep_res""", """                elif req.pfb.fmt == DEP_REQ.NegativeAck:
                    res = None""", 'C04-R2'),
    ('ack-after-last-accepted', D, """                if not send_data:
                    error = "unexpected or out-of-sequence NFC-DEP ACK PDU"
                    raise nfc.clf.ProtocolError(error)""", """                pass""", 'C04-R2'),
    ('initiator-prepend', D, '            recv_data += res.data\n', '            recv_data = res.data + recv_data\n', 'C04-R2'),
    ('len-check-dropped', D, """        if len(frame) != frame.pop(0):
            error = "NFC-DEP frame length byte must be data length + 1"
            raise nfc.clf.ProtocolError(error)
        if len(frame) < 2:
            error = "NFC-DEP frame length byte must be from 3 to 255"
            raise nfc.clf.TransmissionError(error)
        if frame[0] != 0xD5""", """        frame.pop(0)
        if len(frame) < 2:
            error = "NFC-DEP frame length byte must be from 3 to 255"
            raise nfc.clf.TransmissionError(error)
        if frame[0] != 0xD5""", 'C04-R2'),
    ('res-code-table', D, "res_name = {1: 'ATR', 5: 'PSL', 7: 'DEP', 9: 'DSL', 11: 'RLS'}", "res_name = {1: 'ATR', 5: 'PSL', 7: 'DEP', 9: 'RLS', 11: 'DSL'}", 'C04-R2'),
    ('nak-on-timeout', D, """            except nfc.clf.TimeoutError:
                request_attention(self, 2, rwt, deadline)
                continue""", """            except nfc.clf.TimeoutError:
                res = request_retransmission(self, 2, rwt, deadline)
                break""", 'C04-R2'),
    ('deadline-test-dropped', D, """            timeout = min(rwt, deadline - time.time())
            if timeout <= 0:
                raise nfc.clf.TimeoutError()
            try:
                res = self.send_req_recv_res(req, timeout)
                break""", """            timeout = min(rwt, deadline - time.time())
            try:
                res = self.send_req_recv_res(req, timeout)
                break""", 'C04-R5'),
    ('retries-unbounded', D, """            for i in range(n_retry_atn):
                timeout = min(rwt, deadline - time.time())""", """            for i in itertools.count():
                timeout = min(rwt, deadline - time.time())""", 'C04-R5'),
    ('rtox-unbounded', D, """                else:
                    log.error("too many timeout extension requests")
                    raise nfc.clf.TimeoutError("timeout extension")
            if res.pfb.fmt == DEP_RES.PositiveAck:""", """            if res.pfb.fmt == DEP_RES.PositiveAck:""", 'C04-R5'),
    ('foreign-exception', D, """            if res.pfb.pni != self.pni:
                raise nfc.clf.ProtocolError("wrong NFC-DEP packet number")
            recv_data += res.data""", """            if res.pfb.pni != self.pni:
                raise RuntimeError("wrong NFC-DEP packet number")
            recv_data += res.data""", 'C04-R4'),
    ('psl-typeerror-uncaught', D, """            try:
                return cls(*data[2:])
            except TypeError:
                errstr = "invalid format of the " + cls.PDU_NAME
                raise nfc.clf.ProtocolError(errstr)""", """            if len(data) < 3:
                raise TypeError("invalid format")
            return cls(*data[2:])""", 'C04-R4'),
    ('target-miu-forgets-did', D, "self.miu = atr_req.lr - 3 - int(atr_req.did > 0)", "self.miu = atr_req.lr - 3", 'C04-R3'),
]

EXPLANATION += ' Round 5: ContactlessFrontend.exchange hands a frame to the driver once on every path; the Initiator answers a timeout with ATN, never with NACK.'
