# -*- coding: utf-8 -*-
"""C08-R4 -- buffer rules for tag controlled bytes on the activation / NDEF read path (see nfcsa/buf.py).

A read that needs more bytes than every path establishes is an implicit raise site (IndexError / struct.error); the sites are
handed to the escape analysis of C08-R1, which reports those that can leave nfc.tag.activate / Tag.ndef / the NDEF attributes."""
import ast

from ..core import key
from ..model import norm, walk_no_nested
from ..q import find
from .. import buf
from ..buf import P, FROM, names_for, spec_text

# Discovery responses have a fixed format ("well-framed" in the property's words): (attribute, guaranteed length, clause)
FRAMING = {
    'sens_res': (2, 'SENS_RES is 2 byte (NFC Digital 4.6)'),
    'sel_res': (1, 'SEL_RES is 1 byte (NFC Digital 4.8)'),
    'sdd_res': (4, 'NFCID1 is 4, 7 or 10 byte'),
    'rid_res': (6, 'RID_RES is HR0 HR1 UID0..3'),
    'sensb_res': (12, 'SENSB_RES is 12 or 13 byte (NFC Digital 5.6)'),
    'sensf_res': (17, 'SENSF_RES is 17 or 19 byte (NFC Digital 6.6)'),
}

# (function, buffer expression, base length guaranteed by the framing or by the callee, where the bytes come from)
TAG_BUFFERS = [
    ('nfc.tag.activate', P(1, 'sens_res'), 'sens_res', 'discovery response'),
    ('nfc.tag.activate', P(1, 'sel_res'), 'sel_res', 'discovery response'),
    ('nfc.tag.tt1.Type1Tag.__init__', P(1, 'rid_res'), 'rid_res', 'discovery response'),
    ('nfc.tag.tt1_broadcom.activate', P(1, 'rid_res'), 'rid_res', 'discovery response'),
    ('nfc.tag.tt2.activate', P(1, 'sdd_res'), 'sdd_res', 'discovery response'),
    ('nfc.tag.tt3.Type3Tag.__init__', P(1, 'sensf_res'), 'sensf_res', 'discovery response'),
    ('nfc.tag.tt3.activate', P(1, 'sensf_res'), 'sensf_res', 'discovery response'),
    ('nfc.tag.tt3_sony.activate', P(1, 'sensf_res'), 'sensf_res', 'discovery response'),
    ('nfc.tag.tt4.Type4BTag.__init__', P(1, 'sensb_res'), 'sensb_res', 'discovery response'),
    ('nfc.tag.tt4.Type4ATag.__init__', FROM('self.clf.exchange'), 0, 'answer to select (ATS)'),
    ('nfc.tag.tt4.Type4BTag.__init__', FROM('self.clf.exchange'), 0, 'ATTRIB response'),
    ('nfc.tag.tt4.IsoDepInitiator.exchange', FROM('self.clf.exchange'), 0, 'ISO-DEP block'),
    ('nfc.tag.tt4.Type4Tag.send_apdu', FROM('self.transceive'), 0, 'response APDU'),
    ('nfc.tag.tt4.Type4Tag.NDEF._discover_ndef', FROM('self._read_binary'), 0, 'READ BINARY response'),
    ('nfc.tag.tt4.Type4Tag.NDEF._discover_ndef', 'val', 0, 'NDEF file control TLV value'),
    ('nfc.tag.tt4.Type4Tag.NDEF._read_ndef_data', FROM('self._read_binary'), 0, 'READ BINARY response'),
    ('nfc.tag.tt3.Type3Tag.send_cmd_recv_rsp', FROM('self.clf.exchange'), 0, 'Type 3 Tag response frame'),
    ('nfc.tag.tt3.Type3Tag.polling', FROM('self.send_cmd_recv_rsp'), 0, 'polling response'),
    ('nfc.tag.tt3.Type3Tag.read_without_encryption', FROM('self.send_cmd_recv_rsp'), 0, 'read response'),
    ('nfc.tag.tt3.Type3Tag.NDEF._read_attribute_data', FROM('self._tag.read_from_ndef_service'), 0, 'attribute block'),
    ('nfc.tag.tt3_sony.FelicaLiteS.NDEF._read_attribute_data', FROM('self._tag.read_without_mac'), 0, 'MC block'),
    ('nfc.tag.tt3_sony.FelicaLite.read_with_mac', FROM('self.read_without_encryption'), 0, 'read response'),
    ('nfc.tag.tt1.Type1Tag.read_segment', FROM('self.transceive'), 0, 'RSEG response'),
    ('nfc.tag.tt1.get_lock_byte_range', P(0), 'callers', 'lock control TLV value'),
    ('nfc.tag.tt1.get_rsvd_byte_range', P(0), 'callers', 'memory control TLV value'),
    ('nfc.tag.tt2.get_lock_byte_range', P(0), 'callers', 'lock control TLV value'),
    ('nfc.tag.tt2.get_rsvd_byte_range', P(0), 'callers', 'memory control TLV value'),
    ('nfc.tag.tt2.Type2Tag.read', FROM('self.transceive'), 0, 'READ response'),
    ('nfc.tag.tt2.Type2Tag.sector_select', FROM('self.transceive'), 0, 'SECTOR SELECT response'),
    ('nfc.tag.tt2_nxp.activate', FROM('clf.exchange', 'bytes(clf.exchange'), 0, 'GET_VERSION / AUTHENTICATE response'),
]


def _tlv_callers_guarantee(report, prog, helper, RULE):
    """get_lock_byte_range / get_rsvd_byte_range index data[0..2]: every call on the read path passes the value of a TLV whose
    length was tested to be 3 (read_tlv returns a value of exactly tlv_l byte: `tlv_v = bytearray(tlv_l)`)."""
    mod = helper.qname.rsplit('.', 1)[0]
    rt = prog.functions.get(mod + '.read_tlv')
    okk = rt is not None and bool(find(rt.node, 'tlv_v = bytearray(tlv_l)')) and bool(find(rt.node, 'return (tlv_t, tlv_l, tlv_v)'))
    report.check(okk, RULE, key(mod + '.read_tlv', 'returns a value of exactly tlv_l byte'), rt.loc() if rt else helper.loc(),
                 'read_tlv no longer builds the value as bytearray(tlv_l)')
    bound = 3 if okk else 0
    n = 0
    from ..cfg import cfg_of
    from ..q import cfg_node_for
    for f in prog.functions.values():
        if not f.qname.startswith(mod + '.') or '._write' in f.qname:
            continue
        for c in walk_no_nested(f.node):
            if isinstance(c, ast.Call) and norm(c.func) == helper.name:
                n += 1
                arg = norm(c.args[0]) if c.args else '?'
                cfg = cfg_of(f)
                tgt = cfg_node_for(cfg, c)
                tests = [(tn, 'true') for e, tn in cfg.test_nodes.items() if norm(e) in ('tlv_l == 3', '3 == tlv_l')]
                guarded = arg == 'tlv_v' and bool(tests) and tgt not in cfg.reachable(cfg.entry, avoid_edges=tests)
                if not guarded:
                    bound = 0
                report.check(guarded, RULE, key(f.qname, 'control TLV length is tested before its value is evaluated', c), f.loc(c),
                             '%s: %s is called without testing that the control TLV holds 3 byte: a Lock/Memory Control TLV with a shorter '
                             'value raises IndexError out of the NDEF detection' % (f.qname, norm(c)))
    return bound, n


def rwe_exact(prog):
    """Type3Tag.read_without_encryption returns data[1:] only behind a refusing test that, folded by the checker for every
    request size 0..15 blocks and response size 0..300, lets exactly len(data) == 1 + 16 * len(block_list) pass."""
    from ..q import try_const
    rwe = prog.func('nfc.tag.tt3.Type3Tag.read_without_encryption')
    if not find(rwe.node, 'return data[1:]'):
        return False
    guards = [i for i in walk_no_nested(rwe.node) if isinstance(i, ast.If) and 'len(data)' in norm(i.test) and i.body and isinstance(i.body[-1], ast.Raise)]
    if not guards:
        return False
    for k in range(0, 16):
        for n in range(0, 301):
            refused = False
            for g in guards:
                v = try_const(g.test, {'len(data)': n, 'len(block_list)': k}, default=None)
                if v is None:
                    continue
                refused = refused or bool(v)
            if refused != (n != 1 + 16 * k):
                return False
    return True


def run(report, prog, res, collect, RULE='C08-R4', extra_buffers=()):
    from ..cfg import cfg_of
    n = 0
    bases = {}
    for name in ('nfc.tag.tt1.get_lock_byte_range', 'nfc.tag.tt1.get_rsvd_byte_range', 'nfc.tag.tt2.get_lock_byte_range', 'nfc.tag.tt2.get_rsvd_byte_range'):
        b, k = _tlv_callers_guarantee(report, prog, prog.func(name), RULE)
        bases[name] = b
        n += k
    # callee guarantees: read_without_encryption returns exactly 16 byte per requested block
    rwe = prog.func('nfc.tag.tt3.Type3Tag.read_without_encryption')
    okk = rwe_exact(prog)
    report.check(okk, RULE, key(rwe.qname, 'returns exactly 16 byte per requested block'), rwe.loc(), 'read_without_encryption length test changed')
    rfn = prog.func('nfc.tag.tt3.Type3Tag.read_from_ndef_service')
    okk2 = bool(find(rfn.node, 'bc_list = [BlockCode(n) for n in blocks]')) and bool(find(rfn.node, 'return self.read_without_encryption(sc_list, bc_list)'))
    report.check(okk2, RULE, key(rfn.qname, 'reads one block per argument'), rfn.loc(), 'read_from_ndef_service changed')
    sources = {}
    rwm = prog.func('nfc.tag.tt3_sony.FelicaLite.read_without_mac')
    okk3 = bool(find(rwm.node, 'block_list = [tt3.BlockCode(n) for n in blocks]')) and bool(find(rwm.node, 'return self.read_without_encryption(service_list, block_list)'))
    report.check(okk3, RULE, key(rwm.qname, 'reads one block per argument'), rwm.loc(), 'read_without_mac changed')
    if okk and okk2:
        sources['self._tag.read_from_ndef_service(0)'] = 16
    if okk and okk3:
        sources[r're:self(\._tag)?\.read_without_mac\(\w+\)'] = 16      # exactly one block requested
    # Type2Tag.read returns exactly one 16 byte answer or raises
    rd = prog.func('nfc.tag.tt2.Type2Tag.read')
    okk4 = any(isinstance(i, ast.If) and norm(i.test) == 'len(data) != 16' and isinstance(i.body[-1], ast.Raise) for i in walk_no_nested(rd.node)) and \
        [norm(r.value) for r in walk_no_nested(rd.node) if isinstance(r, ast.Return)] == ['data']
    report.check(okk4, RULE, key(rd.qname, 'returns exactly 16 byte'), rd.loc(), 'Type2Tag.read length test changed')
    if okk4:
        sources[r're:self\.read\([\w.]+\)'] = 16
    report.trusted.append('discovery responses are well-framed: ' + '; '.join('%s >= %d (%s)' % (k, v[0], v[1]) for k, v in sorted(FRAMING.items())))
    for q, spec, base, src in list(TAG_BUFFERS) + list(extra_buffers):
        f = prog.functions.get(q)
        if f is None:
            report.deficits.append('%s: the tag buffer table names a function that no longer exists: %s' % (RULE, q))
            continue
        if isinstance(base, str) and base in FRAMING:
            base = FRAMING[base][0]
        elif base == 'callers':
            base = bases[q]
        names = names_for(f, spec)
        if not names:
            report.deficits.append('%s: %s has no buffer for %s any more (%s): the table entry is stale' % (RULE, q, spec_text(spec), src))
        for v in names:
            n += buf.check(report, prog, f, v, RULE, src, base=base, sources=sources, collect=collect)
    report.floor(RULE + ' reads', n, 40)
