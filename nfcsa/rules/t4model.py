# -*- coding: utf-8 -*-
"""Type 4 Tag NDEF file writer, folded.

`_write_ndef_data` and `_update_binary` are folded by the checker's own evaluator (nfcsa.q.fold_block: assignments, if, while, the
struct.pack the module imports) for a grid of NLEN sizes, MLc values and message lengths; `self.tag.send_apdu` is the only thing
modelled -- it records the UPDATE BINARY command.  The result per grid point is the command sequence the source text produces, on
which three rules state what they need:

* C02-R5  after every proper prefix of the sequence the NLEN field of the file is zero, after the whole sequence it is the message
          length (an interrupted write reads as empty, never as a message with foreign bytes);
* C01-R4  after the whole sequence the file is NLEN + message;
* C03-R4  no command addresses a byte outside 0 .. NLEN size + message length.

Nothing of the repository is imported or executed."""
import ast
import struct

from ..model import norm
from ..q import fold_block, NotConst, FoldObject

GRID = [(ns, lc, ln) for ns in (2, 4) for lc in (4, 5, 7, 16, 255) for ln in (0, 1, 2, 3, 5, 10, 12, 14, 251, 253, 254, 300)]
def _imports_pack(prog):
    m = prog.modules['nfc.tag.tt4']
    for st in m.tree.body:
        if isinstance(st, ast.ImportFrom) and st.module == 'struct' and any(a.name == 'pack' and a.asname is None for a in st.names):
            return True
    return False


def _body(f):
    b = list(f.node.body)
    if b and isinstance(b[0], ast.Expr) and isinstance(b[0].value, ast.Constant):
        b = b[1:]
    return b


def sequences(prog, writer='_write_ndef_data'):
    """-> [((nlen_size, max_lc, message length), message, [(offset, bytes)] | None, error text | None)]"""
    _cache = prog.__dict__.setdefault('_t4model', {})
    key_ = writer
    if key_ in _cache:
        return _cache[key_]
    w = prog.func('nfc.tag.tt4.Type4Tag.NDEF.' + writer)
    ub = prog.func('nfc.tag.tt4.Type4Tag.NDEF._update_binary')
    funcs = {'pack': lambda fmt, *a: struct.pack(fmt, *a)} if _imports_pack(prog) else {}
    out = []
    for ns, lc, ln in GRID:
        msg = bytearray((i * 7 + 1) % 251 + 1 for i in range(ln))
        cmds = []

        def send_apdu(cla, ins, p1, p2, data=None, *rest):
            if (cla, ins) != (0, 0xD6):
                raise NotConst('APDU %r %r is not UPDATE BINARY' % (cla, ins))
            cmds.append((p1 * 256 + p2, bytes(data)))
            return bytearray()

        def update_binary(offset, data):
            env = {'offset': offset, 'data': data, 'self._max_lc': lc, 'self._nlen_size': ns, '__funcs__': funcs,
                   '__calls__': {'self.tag.send_apdu': send_apdu}}
            r = fold_block(_body(ub), env)
            if r[0] != 'return':
                raise NotConst('_update_binary does not return a count')
            return r[1]
        env = {'data': bytearray(msg), 'self._max_lc': lc, 'self._nlen_size': ns, 'self._capacity': 400, 'self.capacity': 400,
               'wipe': 0x5A, '__funcs__': funcs, '__calls__': {'self._update_binary': update_binary}}
        try:
            fold_block(_body(w), env)
            out.append(((ns, lc, ln), msg, list(cmds), None))
        except (NotConst, Exception) as e:     # noqa
            out.append(((ns, lc, ln), msg, None, '%s: %s' % (type(e).__name__, e)))
    _cache[key_] = out
    return out


def replay(ns, cmds, size=700):
    """Apply the commands to a file that holds an older, longer message -> list of file states (one per command)."""
    f = bytearray([0xEE] * size)
    f[0:ns] = (350).to_bytes(ns, 'big')
    states = []
    for off, data in cmds:
        f[off:off + len(data)] = data
        states.append(bytes(f))
    return states


def nlen_of(ns, state):
    return int.from_bytes(state[0:ns], 'big')


def verdicts(prog):
    """-> {'fold': [...], 'prefix': [...], 'final': [...], 'range': [...]}: grid points (with a description) that break each clause."""
    bad = {'fold': [], 'prefix': [], 'final': [], 'range': []}
    for (ns, lc, ln), msg, cmds, err in sequences(prog):
        where = 'NLEN size %d, MLc %d, message of %d bytes' % (ns, lc, ln)
        if cmds is None:
            bad['fold'].append('%s: %s' % (where, err))
            continue
        shown = ', '.join('UPDATE BINARY(%d, %d bytes)' % (o, len(d)) for o, d in cmds[:4]) + (', ...' if len(cmds) > 4 else '')
        if not cmds:
            bad['final'].append('%s: no command is sent' % where)
            continue
        st = replay(ns, cmds)
        for i, s_ in enumerate(st[:-1]):
            if nlen_of(ns, s_) != 0:
                bad['prefix'].append('%s: after command %d of %d (%s) the file announces %d bytes' % (where, i + 1, len(cmds), shown, nlen_of(ns, s_)))
                break
        if nlen_of(ns, st[-1]) != ln or st[-1][ns:ns + ln] != bytes(msg):
            bad['final'].append('%s: after %s the file does not hold NLEN + message' % (where, shown))
        if any(o < 0 or o + len(d) > ns + ln for o, d in cmds):
            bad['range'].append('%s: %s writes outside 0..%d' % (where, shown, ns + ln))
    return bad


OFFSETS = (0, 1, 255, 256, 0x7FFF, 0x8000, 0xFFFF, 0x10000, 0x10001, 0x20000, 0xFFFFFF, 0xFFFFFFFF)


def address_limit(prog):
    """-> (limit, detail): READ BINARY / UPDATE BINARY as the source builds them are folded for the offsets of OFFSETS with
    `self.tag.send_apdu` modelled (it records P1 P2); an offset is *addressable* when both commands fold and carry it unchanged
    in P1 P2.  limit = the smallest grid offset that is not addressable (None when every grid offset is): no octet of the file at or
    behind it can be read or written by this reader / writer (the fold either raises struct.error or addresses another octet)."""
    _cache = prog.__dict__.setdefault('_t4model', {})
    if 'limit' in _cache:
        return _cache['limit']
    rb = prog.func('nfc.tag.tt4.Type4Tag.NDEF._read_binary')
    ub = prog.func('nfc.tag.tt4.Type4Tag.NDEF._update_binary')
    limit, why = None, ''
    for off in OFFSETS:
        seen = []

        def send_apdu(cla, ins, p1, p2, data=None, *rest, **kw):
            seen.append((ins, p1 * 256 + p2))
            return bytearray(1)
        try:
            for f, env in ((rb, {'offset': off, 'size': 1}), (ub, {'offset': off, 'data': bytearray(1)})):
                env.update({'self._max_le': 255, 'self._max_lc': 255, '__calls__': {'self.tag.send_apdu': send_apdu}})
                fold_block(_body(f), env)
            okk = [o for _, o in seen] == [off, off]
            what = 'addresses %s' % ([o for _, o in seen],)
        except NotConst as e:
            okk, what = False, str(e)
        if not okk:
            limit, why = off, 'offset %d: %s' % (off, what)
            break
    _cache['limit'] = (limit, why)
    return limit, why


class _Self(FoldObject):
    pass


def reader_offsets(prog):
    """`_read_ndef_data` folded with `_read_binary` modelled as a file that answers every offset (min(MLe, size) octets), for both
    NLEN widths, capacities up to the largest the address limit admits and announced lengths at / above the capacity and at the top
    of the NLEN field.  -> list of problems: an offset at or beyond address_limit() handed to `_read_binary`, a fold that does not end,
    a message longer than the capacity."""
    limit, _ = address_limit(prog)
    f = prog.func('nfc.tag.tt4.Type4Tag.NDEF._read_ndef_data')
    problems, n = [], 0
    top = limit if limit is not None else 0x20000
    for ns in (2, 4):
        for cap in sorted(set([0, 1, 253, 4094, top - ns])):
            for nlen in sorted(set([0, 1, cap, cap + 1, top, (1 << (8 * ns)) - 1])):
                if nlen >= (1 << (8 * ns)):
                    continue
                for mle, extra in ((15, 0), (256, 0), (15, 5)):        # extra: the tag answers more octets than READ BINARY asked for
                    n += 1
                    offs = []

                    def read_binary(offset, size):
                        offs.append(offset)
                        if len(offs) > 9000:
                            raise NotConst('more than 9000 READ BINARY commands')
                        if offset < ns:
                            return bytearray(nlen.to_bytes(ns, 'big')[offset:offset + min(mle, size)])
                        k = min(mle, size)
                        k = k + extra if extra else (k - 1 if k == size and size > 1 else k)    # the last octet is fetched by a read of its own
                        return bytearray((o * 7 + 3) % 251 for o in range(offset, offset + k))
                    env = {'self': _Self(), 'self._nlen_size': ns, 'self._capacity': cap, 'self.capacity': cap, 'self._max_le': mle,
                           'self._ndef_file': b'\xE1\x04', '__funcs__': {'hasattr': lambda o, a: True},
                           '__calls__': {'self._read_binary': read_binary, 'self._select_fid': lambda fid: True,
                                         'self._discover_ndef': lambda: True}}
                    where = 'NLEN width %d, capacity %d, announced length %d, MLe %d%s' % (ns, cap, nlen, mle, ', answers %d octets longer than requested' % extra if extra else '')
                    try:
                        r = fold_block(_body(f), env)
                    except NotConst as e:
                        problems.append('%s: cannot fold the reader (%s)' % (where, e))
                        continue
                    if limit is not None and any(o >= limit for o in offs):
                        problems.append('%s: READ BINARY at offset %d, which the command cannot carry' % (where, max(offs)))
                    if r[0] == 'return' and r[1] is not None and (len(r[1]) > cap or len(r[1]) != nlen):
                        problems.append('%s: a message of %d octets is accepted (length > capacity or not the announced length)' % (where, len(r[1])))
                    elif r[0] == 'return' and r[1] is not None and bytes(r[1]) != bytes((o * 7 + 3) % 251 for o in range(ns, ns + nlen)):
                        problems.append('%s: the message returned is not the %d octets of the file behind the length field' % (where, nlen))
                    elif r[0] == 'return' and r[1] is None and nlen <= cap:
                        problems.append('%s: a message that fits the capacity is not read' % where)
                    if r[0] not in ('return',):
                        problems.append('%s: the reader ends with %s' % (where, r[0]))
    return problems, n


def dump_offsets(prog):
    """`_dump_ndef_data` folded against a file that never ends (every READ BINARY answers 16 octets): the dump must end by itself and
    hand only offsets below address_limit() to `_read_binary`."""
    limit, _ = address_limit(prog)
    f = prog.func('nfc.tag.tt4.Type4Tag.NDEF._dump_ndef_data')
    offs = []

    def read_binary(offset, size):
        offs.append(offset)
        if len(offs) > 70000:
            raise NotConst('more than 70000 READ BINARY commands')
        return bytearray(min(16, size))
    env = {'self': _Self(), 'self._max_le': 256, '__calls__': {'self._read_binary': read_binary}}
    try:
        r = fold_block(_body(f), env)
    except NotConst as e:
        return ['the dump of a file that answers every READ BINARY does not end (%s)' % e]
    out = []
    if limit is not None and any(o >= limit for o in offs):
        out.append('READ BINARY at offset %d, which the command cannot carry' % max(offs))
    if r[0] != 'return':
        out.append('the dump ends with %s' % r[0])
    return out
