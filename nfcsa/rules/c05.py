# -*- coding: utf-8 -*-
"""C05 -- LLCP connections deliver in order, exactly once, within the window (structural clauses)."""
import ast

from ..model import norm, head, walk_no_nested, AnalysisError, FuncInfo, enclosing_stmt, ancestors
from ..cfg import cfg_of
from ..lock import LockSets
from ..q import (le_edge, eq_edge, edges_where, find, match, const, try_const, only_via, tests, stmt_nodes, one, some, fmt, cfg_node_for)
from ..core import key

DLC = 'nfc.llcp.tco.DataLinkConnection'
TCO = 'nfc.llcp.tco.TransmissionControlObject'
LDL = 'nfc.llcp.tco.LogicalDataLink'
EXPLANATION = (
    'Shape rules over nfc/llcp/tco.py: R1 the I-PDU creation, N(S) assignment and V(S) increment in '
    'DataLinkConnection.send are dominated by the window-wait loop and guarded by the ESTABLISHED test; R2 EMSGSIZE '
    'guards dominate PDU creation; R3 hand-over of a received I PDU and the V(R) increment are reachable only '
    'when N(S)==V(R) and the size test passed (path-sensitive reachability); R4 every write to a sequence variable is '
    'modulo 16 / a received N(R) / zero and the window-slot formulas equal the LLCP definition on all 16^3 inputs '
    '(evaluated by the checker on the extracted expression); R5 sequence state is written under the socket lock only; '
    'R6 untimed waits re-test their predicate in a loop; R7 queue discipline is FIFO.  Order / exactly-once over '
    'interleavings is a schedule-quantified trace property and is not decided.')

SEQ_VARS = ('send_cnt', 'send_ack', 'recv_cnt', 'recv_ack', 'recv_confs', 'acks_recvd')


def is_self_attr(n, names=None):
    return isinstance(n, ast.Attribute) and isinstance(n.value, ast.Name) and n.value.id == 'self' \
        and (names is None or n.attr in names)


def rule_window(report, prog):
    f = prog.func(DLC + '.send')
    cfg = cfg_of(f)
    cands = tests(cfg, 'send_window_slots')
    if not cands:
        report.fail('C05-R1', key(f.qname, 'window test exists'), f.loc(),
                    'DataLinkConnection.send no longer tests the send window before queueing an I PDU')
        return
    t_slots = cands[0]
    loop = t_slots.owner
    if not isinstance(loop, ast.While):
        report.fail('C05-R1', key(f.qname, 'window test is a loop condition'), f.loc(t_slots.ast),
                    'the send window test is not the condition of a wait loop')
        return
    waits = [c for c in ast.walk(loop) if isinstance(c, ast.Call) and norm(c.func) == 'self.send_token.wait']
    report.check(len(waits) == 1 and not waits[0].args, 'C05-R1', key(f.qname, 'wait loop waits on send_token'),
                 f.loc(loop), 'the window loop does not wait on self.send_token')
    create = one(stmt_nodes(cfg, 'pdu.Information('), 'send(): I PDU creation')
    inc = one(stmt_nodes(cfg, pred=lambda a: isinstance(a, ast.Assign) and is_self_attr(a.targets[0], ('send_cnt',))),
              'send(): V(S) increment')
    # N(S) is given to the PDU by attribute assignment or as the constructor's `ns` argument (third positional)
    def _ns_value(a):
        if isinstance(a, ast.Assign) and norm(a.targets[0]).endswith('.ns'):
            return a.value
        for c in ast.walk(a):
            if isinstance(c, ast.Call) and norm(c.func) == 'pdu.Information':
                kw = [k.value for k in c.keywords if k.arg == 'ns']
                if kw or len(c.args) > 2:
                    return kw[0] if kw else c.args[2]
        return None
    ns = one(stmt_nodes(cfg, pred=lambda a: isinstance(a, (ast.Assign, ast.Expr)) and _ns_value(a) is not None), 'send(): N(S) assignment')
    snd = one(stmt_nodes(cfg, 'super(DataLinkConnection, self).send('), 'send(): queueing')
    in_loop = set(id(x) for x in ast.walk(loop))
    for n, what in ((create, 'I PDU creation'), (ns, 'N(S) assignment'), (inc, 'V(S) increment'), (snd, 'queueing')):
        okk = cfg.dominates(t_slots, n) and id(n.ast) not in in_loop
        report.check(okk, 'C05-R1', key(f.qname, what, 'after the window wait loop'), f.loc(n.ast),
                     '%s is reachable without passing the send window test' % what)
        t_est = [t for t in tests(cfg, 'self.state.ESTABLISHED') if isinstance(t.owner, ast.If)
                 and id(n.ast) in set(id(x) for x in ast.walk(t.owner))]
        okk, p = only_via(cfg, n, [(t, 'true') for t in t_est]) if t_est else (False, None)
        report.check(okk, 'C05-R1', key(f.qname, what, 'only in state ESTABLISHED'), f.loc(n.ast),
                     '%s can happen when the connection is no longer established' % what, fmt(cfg, p))
    # N(S) is taken before the increment, from the counter itself
    report.check(norm(_ns_value(ns.ast)) == 'self.send_cnt' and (cfg.dominates(ns, inc) or ns is inc), 'C05-R1',
                 key(f.qname, 'N(S) := V(S) before V(S) is incremented'), f.loc(ns.ast),
                 'N(S) is not the pre-increment value of V(S)')
    # taking N(S) and advancing V(S) is one step: nothing that can release the socket lock (the queueing may wait for the PDU
    # to be sent, a condition wait) lies between them, and no path skips the increment once N(S) was taken
    blocking = [n for n in cfg.nodes if n is not ns and n is not inc and
                isinstance(n.ast, (ast.Expr, ast.Assign, ast.AugAssign, ast.Return, ast.expr)) and any(
                    isinstance(c, ast.Call) and (norm(c.func).endswith('.wait') or norm(c.func).startswith('super(')) for c in ast.walk(n.ast))]
    between = [b for b in blocking if b in cfg.reachable(ns, avoid_nodes=[inc]) and inc in cfg.reachable(b)]
    skipped = cfg.exit in cfg.reachable(ns, avoid_nodes=[inc], labels_excluded=('exc',))
    report.check(not between and not skipped, 'C05-R1', key(f.qname, 'N(S) assignment and V(S) increment are one atomic step'), f.loc(inc.ast),
                 'between taking N(S) and incrementing V(S) %s: a second sender can be given the same N(S)'
                 % ('the lock can be released at `%s`' % between[0].text()[:60] if between else 'a path leaves send() without the increment'))
    # the loop condition blocks exactly when no slot is free
    report.check(norm(loop.test) == 'self.send_window_slots == 0 and self.state.ESTABLISHED', 'C05-R1',
                 key(f.qname, 'loop condition', loop.test), f.loc(loop),
                 'window wait condition changed: %s' % norm(loop.test))
    # the send_window_slots property is evaluated in R4


def rule_recv_buffer(report, prog):
    """The receive queue of a data link connection holds as many I PDUs as the receive window it announces (RW in CONNECT / CC):
    wherever recv_win is set, recv_buf is set to the same value (enqueue() discards silently when the queue is full)."""
    c = prog.cls(DLC)
    n = 0
    for m in c.methods.values():
        for st in walk_no_nested(m.node):
            if isinstance(st, ast.Assign) and any(norm(t) == 'self.recv_win' for t in st.targets):
                n += 1
                blk = getattr(st, '_parent', None)
                sib = []
                for fld in ('body', 'orelse', 'finalbody'):
                    b = getattr(blk, fld, None)
                    if isinstance(b, list) and st in b:
                        sib = b
                okk = any(isinstance(x, ast.Assign) and any(norm(t) == 'self.recv_buf' for t in x.targets) and
                          norm(x.value) in (norm(st.value), 'self.recv_win') for x in sib)
                report.check(okk, 'C05-R1', key(m.qname, 'receive buffer follows the receive window', st), m.loc(st),
                             '%s sets the receive window (%s) without giving the receive queue the same room: in-window I PDUs are discarded '
                             'after V(R) advanced' % (m.qname, norm(st)))
    report.floor('C05-R1 recv_win', n, 2)
    f = prog.func(TCO + '.enqueue')
    okk = any(isinstance(i, ast.If) and norm(i.test) == 'len(self.recv_queue) < self.recv_buf' for i in ast.walk(f.node))
    report.check(okk, 'C05-R1', key(f.qname, 'receive queue bounded by recv_buf'), f.loc(), 'receive queue bound changed')


def rule_miu(report, prog):
    for q, guard, create_text in ((DLC + '.send', 'len(message) > self.send_miu', 'pdu.Information('),
                                  (LDL + '.sendto', 'len(message) > self.send_miu', 'pdu.UnnumberedInformation(')):
        f = prog.func(q)
        cfg = cfg_of(f)
        edges = edges_where(cfg, lambda e: le_edge(e, 'len(message)', 'self.send_miu'))
        raises = [s for t, l in edges for s in ast.walk(t.owner) if isinstance(s, ast.Raise)]
        report.check(bool(raises) and 'EMSGSIZE' in norm(raises[0]), 'C05-R2', key(q, 'oversize raises EMSGSIZE'),
                     f.loc(), 'oversize message is not refused with EMSGSIZE')
        c = one(stmt_nodes(cfg, create_text), '%s: PDU creation' % q)
        okk, p = only_via(cfg, c, edges)
        report.check(okk, 'C05-R2', key(q, 'PDU creation only after the MIU test passed', guard), f.loc(c.ast),
                     'a PDU can be created for a message longer than send_miu', fmt(cfg, p))


def rule_miu_writes(report, prog, rule='C05-R2', floor=6):
    """The connection MIU (send_miu of a data link connection) comes from the peer's CONNECT / CC PDU; the link controller may
    copy the link MIU into a socket only when the socket is a raw access point or logical data link, or to reduce the value."""
    n = 0
    for f in prog.functions.values():
        if not f.qname.startswith('nfc.llcp.') or f.qname.startswith('nfc.llcp.tco.'):
            continue
        cfg = None
        for st in walk_no_nested(f.node):
            if not (isinstance(st, ast.Assign) and len(st.targets) == 1 and isinstance(st.targets[0], ast.Attribute) and st.targets[0].attr == 'send_miu'):
                continue
            n += 1
            obj = norm(st.targets[0].value)
            cfg = cfg or cfg_of(f)
            node = cfg_node_for(cfg, st)
            passing = []
            for e, tn in cfg.test_nodes.items():
                t = norm(e)
                if t in ('isinstance(%s, tco.RawAccessPoint)' % obj, 'isinstance(%s, tco.LogicalDataLink)' % obj,
                         'isinstance(%s, (tco.RawAccessPoint, tco.LogicalDataLink))' % obj, 'isinstance(%s, (tco.LogicalDataLink, tco.RawAccessPoint))' % obj):
                    passing.append((tn, 'true'))
                if t == '%s.send_miu > %s' % (obj, norm(st.value)):
                    passing.append((tn, 'true'))
            okk = bool(passing) and node not in cfg.reachable(cfg.entry, avoid_edges=passing)
            report.check(okk, rule, key(f.qname, 'link MIU is copied into a socket only for connection-less sockets or to reduce the value', st), f.loc(st),
                         '%s: `%s` can execute for a data link connection socket and raise its MIU above the value the peer announced in CONNECT / CC: '
                         'a message longer than the connection MIU is then accepted and sent' % (f.qname, norm(st)))
    # inside tco the connection MIU is written from the received PDU only
    for q in (DLC + '._enqueue_state_connect', DLC + '.accept', DLC + '.enqueue', DLC + '._enqueue_state_listen'):
        f = prog.functions.get(q)
        if f is None:
            continue
        for st in walk_no_nested(f.node):
            if isinstance(st, ast.Assign) and len(st.targets) == 1 and isinstance(st.targets[0], ast.Attribute) and st.targets[0].attr == 'send_miu':
                n += 1
                report.check(norm(st.value) == 'rcvd_pdu.miu', rule, key(q, 'connection MIU is taken from the received CONNECT / CC PDU', st), f.loc(st),
                             '%s: %s does not take the MIU from the received PDU' % (q, norm(st)))
    report.floor(rule + ' send_miu writes', n, floor)


def rule_sequence(report, prog):
    f = prog.func(DLC + '._enqueue_state_established')
    cfg = cfg_of(f)
    e_ns = edges_where(cfg, lambda e: eq_edge(e, 'rcvd_pdu.ns', 'self.recv_cnt'))
    e_miu = edges_where(cfg, lambda e: le_edge(e, 'len(rcvd_pdu.data)', 'self.recv_miu'))
    enq = one(stmt_nodes(cfg, 'super(DataLinkConnection, self).enqueue(rcvd_pdu)'), 'hand-over')
    inc = one(stmt_nodes(cfg, pred=lambda a: isinstance(a, ast.Assign) and is_self_attr(a.targets[0], ('recv_cnt',))),
              'V(R) increment')
    for n, what in ((enq, 'hand-over to the receive queue'), (inc, 'V(R) increment')):
        for edges, tw in ((e_ns, 'N(S) == V(R)'), (e_miu, 'len(data) <= recv_miu')):
            okk, p = only_via(cfg, n, edges)
            report.check(okk, 'C05-R3', key(f.qname, what, 'only if ' + tw), f.loc(n.ast),
                         '%s is reachable for an I PDU that fails %s' % (what, tw), fmt(cfg, p))
    # the rejected PDU leads to FRMR and return (send queue replaced by the FRMR)
    fr = stmt_nodes(cfg, 'self.send_queue.append(frmr)')
    report.check(len(fr) == 1, 'C05-R3', key(f.qname, 'out-of-sequence I PDU is answered with FRMR'), f.loc(),
                 'FRMR is not queued for a rejected I PDU')
    # V(R) increment is paired with the hand-over (same guard `name == "I"`)
    report.check(cfg.dominates(inc, enq), 'C05-R3', key(f.qname, 'V(R) incremented exactly when the PDU is handed over'),
                 f.loc(inc.ast), 'V(R) increment and hand-over are no longer paired')
    # ... and an I PDU that passed both tests is never dropped: from the branch that counts it (V(R) increment) no normal path
    # leaves the function without the hand-over -- LLCP has no retransmission, a dropped in-sequence PDU is lost for good and the
    # next one is out of sequence
    branch = [t for e, t in cfg.test_nodes.items() if isinstance(t.owner, ast.If) and any(x is inc.ast for st_ in t.owner.body for x in ast.walk(st_))]
    okk = bool(branch)
    for t in branch:
        for nxt, lab in t.succ:
            if lab == 'true' and cfg.exit in cfg.reachable(nxt, avoid_nodes=[enq], labels_excluded=('exc',)) and nxt is not enq:
                okk = False
    report.check(okk, 'C05-R3', key(f.qname, 'an in-sequence I PDU is always handed over'), f.loc(inc.ast),
                 'an I PDU that passed the N(S) and size tests can leave _enqueue_state_established without being queued for recv(): the '
                 'message is lost (no retransmission in LLCP)')
    # acknowledgement processing: acks = (N(R) - V(SA)) % 16 ; V(SA) := N(R)
    a = find(f.node, 'acks = $E')
    report.check(len(a) == 1 and norm(a[0][1]['E']) == '(rcvd_pdu.nr - self.send_ack) % 16', 'C05-R4',
                 key(f.qname, 'acks = (N(R) - V(SA)) mod 16'), f.loc(), 'acknowledgement count formula changed')
    sa = find(f.node, 'self.send_ack = $E')
    report.check(len(sa) == 1 and norm(sa[0][1]['E']) == 'rcvd_pdu.nr', 'C05-R4', key(f.qname, 'V(SA) := N(R)'),
                 f.loc(), 'V(SA) is not set to the received N(R)')
    tok = stmt_nodes(cfg, 'self.send_token.notify')
    report.check(bool(tok), 'C05-R6', key(f.qname, 'acknowledgement wakes a blocked sender'), f.loc(),
                 'an acknowledgement no longer notifies send_token (a sender blocked on a full window never resumes)')


def rule_mod16(report, prog):
    cls = prog.cls(DLC)
    n = 0
    for m in cls.methods.values():
        if m.name == '__init__':
            continue
        for st in walk_no_nested(m.node):
            if isinstance(st, ast.Assign) and any(is_self_attr(t, ('send_cnt', 'send_ack', 'recv_cnt', 'recv_ack'))
                                                  for t in st.targets):
                n += 1
                v = st.value
                okk = (isinstance(v, ast.BinOp) and isinstance(v.op, ast.Mod) and try_const(v.right) == 16) \
                    or norm(v) == 'rcvd_pdu.nr' or try_const(v) == 0
                # increments add exactly one / recv_confs
                if okk and isinstance(v, ast.BinOp):
                    tgt = [t.attr for t in st.targets if is_self_attr(t)][0]
                    want = {'send_cnt': 'self.send_cnt + 1', 'recv_cnt': 'self.recv_cnt + 1',
                            'recv_ack': 'self.recv_ack + self.recv_confs'}.get(tgt)
                    okk = want is not None and norm(v.left) == want
                report.check(okk, 'C05-R4', key(m.qname, 'sequence variable arithmetic is modulo 16', st), m.loc(st),
                             'sequence variable assignment %s is not modulo-16 arithmetic of the LLCP definition' % norm(st))
            if isinstance(st, ast.AugAssign) and is_self_attr(st.target, ('send_cnt', 'send_ack', 'recv_cnt', 'recv_ack')):
                n += 1
                report.fail('C05-R4', key(m.qname, 'augmented assignment', st), m.loc(st),
                            'sequence variable %s updated without modulo 16' % norm(st))
    report.floor('C05-R4', n, 6)
    # recv_ack update always resets recv_confs right after
    pairs = 0
    for m in cls.methods.values():
        for st in walk_no_nested(m.node):
            if isinstance(st, ast.Assign) and is_self_attr(st.targets[0], ('recv_ack',)) and m.name != '__init__':
                body = getattr(st, '_parent').body if hasattr(st._parent, 'body') else []
                idx = [i for i, s in enumerate(body) if s is st]
                nxt = body[idx[0] + 1] if idx and idx[0] + 1 < len(body) else None
                okk = nxt is not None and norm(nxt) == 'self.recv_confs = 0'
                pairs += 1
                report.check(okk, 'C05-R4', key(m.qname, 'V(RA) += confs is followed by confs := 0'), m.loc(st),
                             'receive confirmations are not reset after being acknowledged (acknowledged twice)')
    report.floor('C05-R4 ack sites', pairs, 3)
    # window slot formulas == LLCP definition on all 16^3 inputs
    for prop, (w, c, a) in (('send_window_slots', ('self.send_win', 'self.send_cnt', 'self.send_ack')),
                            ('recv_window_slots', ('self.recv_win', 'self.recv_cnt', 'self.recv_ack'))):
        f = prog.lookup(cls, prop)
        ret = [x for x in walk_no_nested(f.node) if isinstance(x, ast.Return)]
        if len(ret) != 1:
            raise AnalysisError('C05-R4: %s has %d returns' % (prop, len(ret)))
        bad = []
        for win in range(16):
            for cnt in range(16):
                for ack in range(16):
                    got = const(ret[0].value, {w: win, c: cnt, a: ack})
                    want = (win - ((cnt - ack) % 16)) % 16
                    if got != want:
                        bad.append((win, cnt, ack, got, want))
        report.check(not bad, 'C05-R4', key(f.qname, 'slots == (RW - (V - VA) mod 16) mod 16 on 16^3 inputs'), f.loc(),
                     '%s differs from the LLCP window definition, e.g. (win,cnt,ack,got,want)=%s' % (prop, bad[:2]),
                     detail='4096 evaluations of %s' % norm(ret[0].value))
    # recv(): confirmation counting guarded
    f = prog.func(DLC + '.recv')
    inc = find(f.node, 'self.recv_confs += 1')
    chk = [t for t in ast.walk(f.node) if isinstance(t, ast.Compare) and norm(t) == 'self.recv_confs > self.recv_win']
    report.check(len(inc) == 1 and len(chk) == 1, 'C05-R4', key(f.qname, 'one confirmation per delivered I PDU'), f.loc(),
                 'recv() no longer counts exactly one confirmation per delivered I PDU')


def rule_lock(report, prog):
    cls = prog.cls(DLC)
    ls = LockSets(prog, cls, {'self.lock': 'lock', 'self.send_token': 'lock', 'self.acks_ready': 'lock',
                              'self.send_ready': 'lock', 'self.recv_ready': 'lock'})
    # Conditions must be created on self.lock (else they are not aliases)
    for c in (prog.cls(TCO), cls):
        init = c.methods['__init__']
        for n, b in find(init.node, 'self.$A = $C'):
            if not (isinstance(b['C'], ast.Call) and norm(b['C'].func) == 'threading.Condition'):
                continue
            b['L'] = b['C'].args[0] if b['C'].args else None
            report.check(norm(b['L']) == 'self.lock', 'C05-R5', key(c.qname, 'Condition %s shares self.lock' % b['A']),
                         init.loc(n), 'Condition %s is not created on self.lock' % b['A'])
    n = 0
    for m in cls.methods.values():
        if m.name == '__init__':
            continue
        for st in walk_no_nested(m.node):
            tg = None
            if isinstance(st, ast.Assign):
                tg = [t for t in st.targets if is_self_attr(t, SEQ_VARS)]
            elif isinstance(st, ast.AugAssign) and is_self_attr(st.target, SEQ_VARS):
                tg = [st.target]
            if tg:
                n += 1
                held = ls.held_at(m, st)
                report.check('lock' in held, 'C05-R5', key(m.qname, 'write under the socket lock', st), m.loc(st),
                             'sequence state %s written without holding the socket lock' % norm(tg[0]))
    report.floor('C05-R5', n, 10)


def rule_wait(report, prog):
    f = prog.func(DLC + '.send')
    for c in ast.walk(f.node):
        if isinstance(c, ast.Call) and norm(c.func).endswith('.wait') and not c.args:
            loop = [a for a in ancestors(c) if isinstance(a, ast.While)]
            report.check(bool(loop), 'C05-R6', key(f.qname, 'untimed wait re-tests its predicate in a loop', c), f.loc(c),
                         'wait() is not inside a loop that re-tests the window predicate (spurious / stolen wake-up)')


def rule_sap_order(report, prog, rule='C05-R7'):
    """A service access point hands a received PDU to the *first* socket whose peer matches or is None.  The listening socket has
    no peer, so it matches everything: every connection socket has to stand in front of it -- insert_socket() prepends."""
    f = prog.func('nfc.llcp.llc.ServiceAccessPoint.insert_socket')
    ins = [c for c in ast.walk(f.node) if isinstance(c, ast.Call) and isinstance(c.func, ast.Attribute) and norm(c.func.value) == 'self.sock_list'
           and c.func.attr in ('append', 'appendleft', 'insert', 'extend', 'extendleft')]
    okk = len(ins) == 1 and (ins[0].func.attr == 'appendleft' or (ins[0].func.attr == 'insert' and try_const(ins[0].args[0]) == 0))
    e = prog.func('nfc.llcp.llc.ServiceAccessPoint.enqueue')
    first = any(isinstance(l, ast.For) and norm(l.iter) == 'self.sock_list' and any(isinstance(b, (ast.Break, ast.Return)) for b in ast.walk(l)) for l in ast.walk(e.node))
    report.check(okk and first, rule, key(f.qname, 'connection sockets are put in front of the listening socket'), f.loc(ins[0]) if ins else f.loc(),
                 'insert_socket() no longer prepends (`%s`) while enqueue() serves the first matching socket: the listening socket (peer None) '
                 'swallows the PDUs of every accepted connection' % (norm(ins[0]) if ins else ''))


def rule_fifo(report, prog):
    """Queue discipline: append at the tail, popleft at the head; appendleft only to requeue the PDU just popped."""
    n = 0
    allowed = {'append', 'popleft', 'clear'}
    for cq in (TCO, 'nfc.llcp.tco.RawAccessPoint', LDL, DLC):
        c = prog.cls(cq)
        for m in c.methods.values():
            for call in walk_no_nested(m.node):
                if isinstance(call, ast.Call) and isinstance(call.func, ast.Attribute) \
                        and is_self_attr(call.func.value, ('send_queue', 'recv_queue')):
                    n += 1
                    op = call.func.attr
                    okk = op in allowed
                    if op == 'appendleft':
                        # requeue of the PDU popped in the same function
                        okk = m.qname == TCO + '.dequeue' and norm(call.args[0]) == 'send_pdu' \
                            and bool(find(m.node, 'send_pdu = self.send_queue.popleft()'))
                    if op == 'append' and call.args:
                        # putting back what was taken from the head of the same queue must go to the head again
                        qn = norm(call.func.value)
                        popped = [st for st in walk_no_nested(m.node) if isinstance(st, ast.Assign) and norm(st.value) == qn + '.popleft()' and
                                  norm(st.targets[0]) == norm(call.args[0])]
                        okk = not popped
                    report.check(okk, 'C05-R7', key(m.qname, 'FIFO queue operation', call), m.loc(call),
                                 'queue operation %s breaks first-in-first-out delivery' % norm(call))
    report.floor('C05-R7', n, 20)


def rule_piggyback(report, prog):
    """R4 (acknowledgements): every I PDU that dequeue() hands to the link carries the current V(RA): on each path from the true
    edge of `send_pdu.name == "I"` to the return, N(R) := V(RA) is executed, and V(RA) is not advanced after it.  An I PDU with a
    stale N(R) moves the peer's V(SA) backwards (its send window opens beyond the announced RW); one without N(R) cannot be
    encoded at all (EncodeError in the link loop, which ends the link)."""
    f = prog.func(DLC + '.dequeue')
    cfg = cfg_of(f)
    ifs = [i for i in walk_no_nested(f.node) if isinstance(i, ast.If) and any(
        isinstance(c, ast.Compare) and norm(c.left) == 'send_pdu.name' and try_const(c.comparators[0]) == 'I' for c in ast.walk(i.test))]
    setnr = [n for n in cfg.nodes if isinstance(n.ast, ast.Assign) and norm(n.ast.targets[0]) == 'send_pdu.nr']
    if len(ifs) != 1 or not setnr:
        report.fail('C05-R4', key(f.qname, 'I PDU leaves with N(R) := V(RA)'), f.loc(),
                    'dequeue() no longer sets N(R) of an outgoing I PDU' if not setnr else 'I PDU branch of dequeue() not found')
        return
    # start at the true edge of the `send_pdu.name == "I"` comparison itself: whatever else the branch tests (connection state,
    # pending confirmations), an I PDU that is returned has a valid N(R)
    starts = set()
    for e, t in cfg.test_nodes.items():
        if isinstance(e, ast.Compare) and norm(e.left) == 'send_pdu.name' and try_const(e.comparators[0]) == 'I' and isinstance(e.ops[0], ast.Eq):
            starts |= set(nxt for nxt, lab in t.succ if lab == 'true')
    if not starts:
        raise AnalysisError('C05-R4: dequeue(): entry of the I PDU branch not found in the CFG')
    okk = all(norm(n.ast.value) == 'self.recv_ack' for n in setnr)
    for s_ in starts:
        if s_ in setnr:
            continue
        if cfg.exit in cfg.reachable(s_, avoid_nodes=setnr, labels_excluded=('exc',)):
            okk = False
    later = [n for a in setnr for n in cfg.reachable(a) if n is not a and isinstance(n.ast, ast.Assign) and
             any(is_self_attr(t, ('recv_ack',)) for t in n.ast.targets)]
    report.check(okk and not later, 'C05-R4', key(f.qname, 'I PDU leaves with N(R) := V(RA)'), f.loc(setnr[0].ast),
                 'an I PDU can be dequeued without N(R) being set to the current V(RA)%s: the peer sees a stale acknowledgement number '
                 'and its send window opens beyond the announced RW' % (' (V(RA) is advanced after N(R) was set)' if later else ''))


def run(report, prog, tier):
    rule_window(report, prog)
    rule_recv_buffer(report, prog)
    rule_miu(report, prog)
    rule_miu_writes(report, prog)
    rule_sequence(report, prog)
    rule_mod16(report, prog)
    rule_piggyback(report, prog)
    rule_lock(report, prog)
    rule_wait(report, prog)
    rule_fifo(report, prog)
    rule_sap_order(report, prog)
    report.trusted += ['threading.Condition(self.lock) shares the lock; `with cond:` acquires it',
                       'constructor results (pdu.FrameReject.from_pdu) are truthy (flag-variable refinement)']
    report.assumptions += ['sockets are used through the methods of nfc.llcp.tco only']


def selftest():
    return MUTANTS


T = 'nfc.llcp.tco'
MUTANTS = [
    ('sap-appends-connection-behind-listener', 'nfc.llcp.llc', "                self.sock_list.appendleft(socket)", "                self.sock_list.append(socket)", 'C05-R7'),
    ('in-sequence-i-pdu-dropped-when-busy', 'nfc.llcp.tco', """            with self.lock:
                # V(R) := V(R) + 1 mod 16""", """            with self.lock:
                if self.mode.RECV_BUSY:
                    return
                # V(R) := V(R) + 1 mod 16""", 'C05-R3'),
    ('nr-only-with-new-confirmations', 'nfc.llcp.tco', """                        self.recv_confs = 0
                    send_pdu.nr = self.recv_ack
                    self.send_ready.notify()""", """                        self.recv_confs = 0
                        send_pdu.nr = self.recv_ack
                    self.send_ready.notify()""", 'C05-R4'),
    ('nr-only-when-established', 'nfc.llcp.tco', """                if send_pdu.name == "I":
                    if self.recv_confs and self.recv_cnt != self.recv_ack:""", """                if send_pdu.name == "I" and self.state.ESTABLISHED:
                    if self.recv_confs and self.recv_cnt != self.recv_ack:""", 'C05-R4'),
    ('vs-incremented-after-queueing', 'nfc.llcp.tco', """                self.send_cnt = (self.send_cnt + 1) % 16
                super(DataLinkConnection, self).send(send_pdu, flags)""", """                super(DataLinkConnection, self).send(send_pdu, flags)
                self.send_cnt = (self.send_cnt + 1) % 16""", 'C05-R1'),
    ('window-test-weakened', T, 'while self.send_window_slots == 0 and self.state.ESTABLISHED:',
     'while self.send_window_slots < 0 and self.state.ESTABLISHED:', 'C05-R1'),
    ('window-wait-removed', T, """                self.log("waiting on busy send window")
                self.send_token.wait()
""", """                self.log("waiting on busy send window")
                break
""", 'C05-R'),
    ('ns-after-increment', T, """                send_pdu.ns = self.send_cnt
                self.send_cnt = (self.send_cnt + 1) % 16
""", """                self.send_cnt = (self.send_cnt + 1) % 16
                send_pdu.ns = self.send_cnt
""", 'C05-R1'),
    ('send-miu-check-dropped', T, """            if len(message) > self.send_miu:
                raise err.Error(errno.EMSGSIZE)
            while""", """            while""", 'C05-R2'),
    ('ldl-miu-off-by-one', T, """            if len(message) > self.send_miu:
                raise err.Error(errno.EMSGSIZE)
            send_pdu = pdu.UnnumberedInformation""", """            if len(message) > self.send_miu + 1:
                raise err.Error(errno.EMSGSIZE)
            send_pdu = pdu.UnnumberedInformation""", 'C05-R2'),
    ('dlc-miu-overwritten-by-link-miu', 'nfc.llcp.llc', """        if isinstance(socket, tco.DataLinkConnection):
            return socket.send(message, flags)""", """        if isinstance(socket, tco.DataLinkConnection):
            socket.send_miu = self.cfg['send-miu']
            return socket.send(message, flags)""", 'C05-R2'),
    ('connect-miu-raised-to-link-miu', 'nfc.llcp.llc', """        if socket.send_miu > self.cfg['send-miu']:
            log.warning("reducing outbound miu to not exceed the link miu")""", """        if socket.send_miu < self.cfg['send-miu']:
            log.warning("reducing outbound miu to not exceed the link miu")""", 'C05-R2'),
    ('ns-check-dropped', T, """            elif rcvd_pdu.ns != self.recv_cnt:
                frmr = pdu.FrameReject.from_pdu(rcvd_pdu, flags="S", dlc=self)
""", "", 'C05-R3'),
    ('frmr-does-not-return', T, """                log.debug("enqueued frame reject pdu")
                return
""", """                log.debug("enqueued frame reject pdu")
""", 'C05-R3'),
    ('mod-15', T, 'self.recv_cnt = (self.recv_cnt + 1) % 16', 'self.recv_cnt = (self.recv_cnt + 1) % 15', 'C05-R4'),
    ('send-cnt-plus-2', T, 'self.send_cnt = (self.send_cnt + 1) % 16', 'self.send_cnt = (self.send_cnt + 2) % 16', 'C05-R4'),
    ('slots-formula', T, 'return (self.send_win - self.send_cnt + self.send_ack) % 16',
     'return (self.send_win - self.send_cnt + self.send_ack) % 15', 'C05-R4'),
    ('slots-sign', T, 'return (self.recv_win - self.recv_cnt + self.recv_ack) % 16',
     'return (self.recv_win + self.recv_cnt - self.recv_ack) % 16', 'C05-R4'),
    ('acks-formula', T, 'acks = (rcvd_pdu.nr - self.send_ack) % 16', 'acks = (rcvd_pdu.nr - self.send_ack) & 7', 'C05-R4'),
    ('confs-not-reset', T, """                    self.log("voluntary ack " + str(self))
                    self.recv_ack = (self.recv_ack + self.recv_confs) % 16
                    self.recv_confs = 0
""", """                    self.log("voluntary ack " + str(self))
                    self.recv_ack = (self.recv_ack + self.recv_confs) % 16
""", 'C05-R4'),
    ('unlocked-recv-cnt', T, """            with self.lock:
                # V(R) := V(R) + 1 mod 16
                self.recv_cnt = (self.recv_cnt + 1) % 16
""", """            if True:
                # V(R) := V(R) + 1 mod 16
                self.recv_cnt = (self.recv_cnt + 1) % 16
""", 'C05-R5'),
    ('condition-own-lock', T, 'self.send_token = threading.Condition(self.lock)', 'self.send_token = threading.Condition()', 'C05-R5'),
    ('wait-if-instead-of-while', T, 'while self.send_window_slots == 0 and self.state.ESTABLISHED:',
     'if self.send_window_slots == 0 and self.state.ESTABLISHED:', 'C05-R'),
    ('lifo-recv', T, """            try:
                return self.recv_queue.popleft()
            except IndexError:""", """            try:
                return self.recv_queue.pop()
            except IndexError:""", 'C05-R7'),
    ('no-token-notify', T, """                    self.acks_ready.notify_all()
                    self.send_token.notify()
""", """                    self.acks_ready.notify_all()
""", 'C05-R6'),
]
