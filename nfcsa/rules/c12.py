# -*- coding: utf-8 -*-
"""C12 -- ISO-DEP exchanges each APDU exactly once or reports a tag error (structural clauses)."""
import ast

from ..model import norm, head, walk_no_nested, AnalysisError, FuncInfo, enclosing_stmt, ancestors, live, last_live
from ..cfg import cfg_of
from ..resolve import Resolver, Ctx
from ..escape import Escape, fmt_chain, items_sorted
from ..q import (find, match, const, try_const, only_via, tests, stmt_nodes, one, fmt, cfg_node_for, linear, calls,
                 lower_bound_at)
from ..core import key
from .c09 import BOUNDARIES

# reader/writer mode: BrokenLinkError is only produced by the target-mode entry of the drivers (C13-R2)
TAG_BOUNDARIES = dict(BOUNDARIES)
TAG_BOUNDARIES['nfc.clf.ContactlessFrontend.exchange'] = ['nfc.clf.TimeoutError', 'nfc.clf.TransmissionError',
                                                          'nfc.clf.ProtocolError', 'OSError']

ISO = 'nfc.tag.tt4.IsoDepInitiator'
EXPLANATION = (
    'R1 block budget: miu = fsc - 3 (PCB + 2 byte EDC), the I-block loop slices command[offset:offset+miu] with stride miu '
    '(partition) and the chaining flag is computed from what remains; FSC table and clamp to the device limit; R2 every '
    'block-number toggle is modulo 2 and reachable only after the received block number was compared with the local one '
    '(failing branch raises); the PCB constants of I / R(ACK) / R(NAK) / S(WTX) blocks are evaluated against ISO/IEC 14443-4; '
    'R3 every RF exchange of the APDU path lies in a try whose handlers map Transmission/Timeout/Protocol errors to '
    'Type4TagCommandError with the matching code, and on an error an R(NAK)/R(ACK) is sent -- never the I-block again; the '
    'exception-escape analysis bounds what leaves send_apdu/transceive; R4 every cycle of the retry loops passes a retry '
    'counter test, the WTX loop is bounded; R5 every read of data[0]/data[1] after an exchange is guarded by a length '
    'test.  At-most-once execution by the card needs a card model and is not decided.')


def rule_budget(report, prog):
    init = prog.func(ISO + '.__init__')
    report.check(bool(find(init.node, 'self.miu = fsc - 3')), 'C12-R1', key(init.qname, 'miu = fsc - 3'), init.loc(),
                 'ISO-DEP information field budget is not FSC - 3')
    f = prog.func(ISO + '.exchange')
    loops = [l for l in walk_no_nested(f.node) if isinstance(l, ast.For) and norm(l.iter).startswith('range(0, len(command)')]
    okk = len(loops) == 1 and norm(loops[0].iter) == 'range(0, len(command), self.miu)'
    report.check(okk, 'C12-R1', key(f.qname, 'I-block loop stride = miu'), f.loc(), 'I-block loop stride changed')
    if loops:
        sl = [norm(s) for s in ast.walk(loops[0]) if isinstance(s, ast.Subscript) and norm(s.value) == 'command']
        report.check(sl and set(sl) == {'command[offset:offset + self.miu]'}, 'C12-R1',
                     key(f.qname, 'every I-block carries command[offset:offset+miu]'), f.loc(loops[0]), 'I-block slices: %s' % sorted(set(sl)))
        report.check(bool(find(loops[0], 'more = len(command) - offset > self.miu')), 'C12-R1',
                     key(f.qname, 'chaining flag = bytes remain beyond this block'), f.loc(loops[0]), 'chaining flag computation changed')
        pf = find(loops[0], "pfb = pack('B', (2, 18)[more] | self.pni)")
        report.check(len(pf) == 1, 'C12-R1', key(f.qname, 'PCB = I-block (02h) | chaining (10h) | block number'), f.loc(loops[0]),
                     'I-block PCB construction changed')
    for q in ('nfc.tag.tt4.Type4ATag.__init__', 'nfc.tag.tt4.Type4BTag.__init__'):
        g = prog.func(q)
        tab = [try_const(b['T']) for n, b in find(g.node, 'fsc = $T[fsci]')]
        okk = tab == [(16, 24, 32, 40, 48, 64, 96, 128, 256)]
        report.check(okk, 'C12-R1', key(q, 'FSCI -> FSC table of ISO/IEC 14443-4'), g.loc(), 'FSC table is %r' % tab)
        cl = any(isinstance(i, ast.If) and norm(i.test) == 'fsci > 8' and any(norm(s) == 'fsci = 8' for s in i.body) for i in walk_no_nested(g.node))
        report.check(cl, 'C12-R1', key(q, 'RFU FSCI clamped to 8 before indexing'), g.loc(), 'FSCI clamp missing (IndexError / wrong size)')
        cl = any(isinstance(i, ast.If) and norm(i.test) == 'fsc > self.clf.max_send_data_size' and
                 any(norm(s) == 'fsc = self.clf.max_send_data_size' for s in i.body) for i in walk_no_nested(g.node))
        report.check(cl, 'C12-R1', key(q, 'FSC clamped to what the device can send'), g.loc(), 'FSC is not limited to the device frame size')
        # the card's frame size is what the FSCI table gives: afterwards fsc is only ever lowered (assigned under a `fsc > X` test
        # to X, or min(fsc, ...)); nothing else the card sends may raise it
        tabn = [n for n, b in find(g.node, 'fsc = $T[fsci]')]
        raised = []
        for st in walk_no_nested(g.node):
            tgts = []
            if isinstance(st, ast.Assign):
                tgts = [t for t in st.targets if norm(t) == 'fsc']
            elif isinstance(st, ast.AugAssign) and norm(st.target) == 'fsc':
                tgts = [st.target]
            if not tgts or st in tabn:
                continue
            par = getattr(st, '_parent', None)
            clamp = isinstance(st, ast.Assign) and isinstance(par, ast.If) and st in par.body and norm(par.test) in (
                'fsc > ' + norm(st.value), norm(st.value) + ' < fsc')
            mn = isinstance(st, ast.Assign) and isinstance(st.value, ast.Call) and norm(st.value.func) == 'min' and \
                any(norm(a) == 'fsc' for a in st.value.args)
            if not (clamp or mn):
                raised.append(st)
        report.check(not raised, 'C12-R1', key(q, 'FSC from the FSCI table is only ever lowered'), g.loc(raised[0]) if raised else g.loc(),
                     '`%s` can make the frame size larger than the FSC the card announced: blocks the card cannot buffer are sent'
                     % (norm(raised[0]) if raised else ''))
        report.check(bool(find(g.node, 'self._dep = IsoDepInitiator(clf, fsc, fwt)')), 'C12-R1', key(q, 'ISO-DEP created with the negotiated FSC/FWT'),
                     g.loc(), 'IsoDepInitiator construction changed')
        # every constant bound to fsci is a valid table index, and a default used when the ATS omits T0 / TB(1) is the ISO/IEC 14443-4
        # default (FSCI 2 -> 32 byte, FWI 4): a larger default makes the reader send blocks the card cannot buffer
        for st in walk_no_nested(g.node):
            if isinstance(st, ast.Assign) and len(st.targets) == 1:
                tg, val = st.targets[0], st.value
                pairs = list(zip(tg.elts, val.elts)) if isinstance(tg, ast.Tuple) and isinstance(val, ast.Tuple) and len(tg.elts) == len(val.elts) else [(tg, val)]
                for x, v in pairs:
                    c = try_const(v)
                    if norm(x) == 'fsci' and isinstance(c, int):
                        report.check(c in (2, 8), 'C12-R1', key(q, 'constant FSCI is the protocol default 2 or the RFU clamp 8', st), g.loc(st),
                                     'fsci is set to the constant %d: without TA/T0 in the ATS the card can only be assumed to buffer FSC 32 (FSCI 2)' % c)
        fw = find(g.node, 'fwt = 4096 / 13560000.0 * 2 ** fwti')
        report.check(len(fw) == 1, 'C12-R1', key(q, 'FWT = 4096/fc * 2^FWI'), g.loc(), 'FWT formula changed')


def rule_block_number(report, prog):
    f = prog.func(ISO + '.exchange')
    cfg = cfg_of(f)
    n = 0
    edges = [(t, 'false') for e, t in cfg.test_nodes.items() if norm(e) == 'data[0] & 1 != self.pni']
    for node in cfg.nodes:
        if node.kind == 'stmt' and isinstance(node.ast, ast.Assign) and norm(node.ast.targets[0]) == 'self.pni':
            n += 1
            okm = norm(node.ast.value) in ('(self.pni + 1) % 2', 'self.pni ^ 1')
            report.check(okm, 'C12-R2', key(f.qname, 'block number toggles modulo 2', node.ast), f.loc(node.ast),
                         'block number update %s is not a modulo-2 toggle' % norm(node.ast))
            okk, p = only_via(cfg, node, edges, ps=False) if edges else (False, None)
            report.check(okk, 'C12-R2', key(f.qname, 'toggle only after the received block number matched', node.ast), f.loc(node.ast),
                         'the block number is toggled without checking the block number of the response', fmt(cfg, p))
    report.floor('C12-R2', n, 3)
    # the block whose number was checked is the block that is classified and consumed: between the passed check and the toggle the
    # received block is not replaced (a check placed before the S(WTX) loop tests the WTX request, not the answer that follows it)
    from ..q import assign_nodes
    rebinds = [a for a in assign_nodes(cfg, 'data') if a.kind == 'stmt' and isinstance(a.ast, ast.Assign) and 'self.clf.exchange(' in norm(a.ast.value)]
    for t, lab in edges:
        after = cfg.reachable(t, avoid_edges=[(t, 'true')])
        for node in cfg.nodes:
            if node.kind == 'stmt' and isinstance(node.ast, ast.Assign) and norm(node.ast.targets[0]) == 'self.pni' and node in after:
                # a re-bind of data on a path check -> toggle that does not pass the check again
                bad = [a for a in rebinds if a in after and node in cfg.reachable(a, avoid_nodes=[x for x, _ in edges])]
                report.check(not bad, 'C12-R2', key(f.qname, 'no new block is received between the block number check and the toggle', t.ast, node.ast),
                             f.loc(bad[0].ast) if bad else f.loc(node.ast),
                             'a block received by `%s` is accepted without its own block number check (the check ran on the previous block)'
                             % (norm(bad[0].ast) if bad else ''))
    # ... and every block that passed the check is answered by a toggle before the next block is sent or exchange() returns
    # (ISO/IEC 14443-4 rule B): otherwise the next command carries the number of the block the card has already seen, and the
    # card's retransmission of that old block is taken for the new answer
    toggles = [node for node in cfg.nodes if node.kind == 'stmt' and isinstance(node.ast, ast.Assign) and norm(node.ast.targets[0]) == 'self.pni']
    sends = [node for node in cfg.nodes if node.ast is not None and node.kind in ('stmt', 'test') and not isinstance(node.ast, (ast.FunctionDef, ast.ClassDef))
             and any(isinstance(c, ast.Call) and norm(c.func) == 'self.clf.exchange' for c in walk_no_nested(node.ast))]
    for t, lab in edges:
        starts = [nxt for nxt, l2 in t.succ if l2 == 'false']
        bad = None
        for s0 in starts:
            reach = cfg.reachable(s0, avoid_nodes=toggles, labels_excluded=('exc',)) if s0 not in toggles else set()
            if cfg.exit in reach:
                bad = 'exchange() returns'
            elif any(x in reach for x in sends):
                bad = 'the next block is sent'
        report.check(bad is None, 'C12-R2', key(f.qname, 'every accepted block toggles the block number before the next transmission / return', t.ast),
                     f.loc(t.ast), 'after a block with the expected number was accepted %s without toggling the block number' % bad)
    for t, lab in edges:
        okk = isinstance(t.owner, ast.If) and any(isinstance(x, ast.Raise) and 'PROTOCOL_ERROR' in norm(x) for x in t.owner.body)
        report.check(okk, 'C12-R2', key(f.qname, 'wrong block number raises PROTOCOL_ERROR', t.ast), f.loc(t.ast),
                     'a wrong block number is not reported as Type4TagCommandError(PROTOCOL_ERROR)')
    # PCB constants (ISO/IEC 14443-4): I 000x001n, R(ACK) 1010001n, R(NAK) 1011001n, S(WTX) 1111x010
    consts_ = sorted(set(norm(e) for e in ast.walk(f.node) if isinstance(e, ast.BinOp) and isinstance(e.op, ast.BitOr)
                         and isinstance(e.left, ast.Constant) and 'self.pni' in norm(e.right)))
    report.check(set(consts_) == {'162 | self.pni', '178 | self.pni', '162 | ~self.pni & 1'}, 'C12-R2',
                 key(f.qname, 'R(ACK)=A2h|n, R(NAK)=B2h|n, retransmit request R(ACK) with the other number'), f.loc(),
                 'R-block constants changed: %s' % consts_)
    # (polarity does not matter here: `x == K` on the accepting branch and `x != K` as a refusing guard classify the same way; the
    # branch that each test guards is decided by the CFG rules above)
    masks = sorted(set(norm(e).replace(' != ', ' == ') for e in ast.walk(f.node) if isinstance(e, ast.Compare) and 'data[0] &' in norm(e.left)))
    want = {'data[0] & 254 == 242', 'data[0] & 1 == self.pni', 'data[0] & 254 == 162', 'data[0] & 238 == 2'}
    report.check(set(masks) == want, 'C12-R2', key(f.qname, 'response classification masks (WTX F2h, ACK A2h, I-block 02h)'), f.loc(),
                 'response classification changed: %s' % masks)
    # only I-blocks carry response data: every statement that takes data[1:] into the response lies behind the I-block test of the
    # block just received (an S(WTX) or R block received while the response is chained must not be appended)
    inf_edges = []
    for e, t in cfg.test_nodes.items():
        if isinstance(e, ast.Compare) and norm(e.left) == 'data[0] & 238' and try_const(e.comparators[0]) == 2:
            inf_edges.append((t, 'true' if isinstance(e.ops[0], ast.Eq) else 'false'))
    takes = [node for node in cfg.nodes if node.kind == 'stmt' and isinstance(node.ast, (ast.Assign, ast.AugAssign)) and
             'data[1:]' in norm(node.ast.value) and norm(node.ast.targets[0] if isinstance(node.ast, ast.Assign) else node.ast.target) == 'response']
    for node in takes:
        okk = bool(inf_edges)
        if okk:
            # ... of the block just received: no exchange between the passed test and the append
            for rb in rebinds:
                if node in cfg.reachable(rb, avoid_edges=inf_edges):
                    okk = False
        report.check(okk, 'C12-R2', key(f.qname, 'only an I-block contributes response data', node.ast), f.loc(node.ast),
                     '`%s` can run for a block that was not tested to be an I-block: an S(WTX) request or R block received during response '
                     'chaining is appended to the response' % norm(node.ast))
    report.floor('C12-R2 response data', len(takes), 2)
    # response reassembly: first INF sets, chained blocks append in order
    okk = bool(find(f.node, 'response = data[1:]')) and bool(find(f.node, 'response += data[1:]')) and \
        any(isinstance(l, ast.While) and norm(l.test) == 'data[0] & 16' for l in walk_no_nested(f.node))
    report.check(okk, 'C12-R2', key(f.qname, 'chained response blocks appended in order while the chaining bit is set'), f.loc(),
                 'response reassembly changed')


def rule_once(report, prog):
    """R6: one APDU is handed to the ISO-DEP layer exactly once: no second transceive() / exchange() of the same command above the
    block protocol (the card would execute a state changing APDU twice); recovery belongs to the R-block retransmission rules."""
    for q, callee in (('nfc.tag.tt4.Type4Tag.send_apdu', 'self.transceive'), ('nfc.tag.tt4.Type4Tag.transceive', 'self._dep.exchange')):
        f = prog.func(q)
        cs = [c for c in walk_no_nested(f.node) if isinstance(c, ast.Call) and norm(c.func) == callee]
        in_loop = [c for c in cs if any(isinstance(a, (ast.For, ast.While)) for a in ancestors(c))]
        in_handler = [c for c in cs if any(isinstance(a, ast.ExceptHandler) for a in ancestors(c))]
        report.check(len(cs) == 1 and not in_loop and not in_handler, 'C12-R6', key(q, 'the command is issued exactly once', callee), f.loc(cs[-1]) if cs else f.loc(),
                     '%s calls %s %d times (%d in a loop, %d in an exception handler): an APDU can be executed twice by the card'
                     % (q, callee, len(cs), len(in_loop), len(in_handler)))


def _handler_map(t):
    out = {}
    for h in t.handlers:
        if h.type is None:
            continue
        codes = [norm(r.exc.args[0]) for r in ast.walk(h) if isinstance(r, ast.Raise) and isinstance(r.exc, ast.Call)
                 and norm(r.exc.func) == 'Type4TagCommandError' and r.exc.args]
        out[norm(h.type)] = sorted(set(codes))
    return out


def rule_error_mapping(report, prog, res):
    f = prog.func(ISO + '.exchange')
    want = {'nfc.clf.TransmissionError': ['nfc.tag.RECEIVE_ERROR'], 'nfc.clf.TimeoutError': ['nfc.tag.TIMEOUT_ERROR'],
            'nfc.clf.ProtocolError': ['nfc.tag.PROTOCOL_ERROR']}
    n = 0
    for c in ast.walk(f.node):
        if isinstance(c, ast.Call) and norm(c.func) == 'self.clf.exchange':
            st = enclosing_stmt(c)
            # the presence check (command is None) is a separate documented path
            if any(isinstance(a, ast.If) and norm(a.test) == 'command is None' for a in ancestors(c)):
                continue
            n += 1
            tr = [a for a in ancestors(c) if isinstance(a, ast.Try) and any(x is st or any(y is st for y in ast.walk(x)) for x in a.body)]
            hm = _handler_map(tr[0]) if tr else {}
            report.check(hm == want, 'C12-R3', key(f.qname, 'RF exchange inside the error mapping', st), f.loc(c),
                         'the exchange `%s` is not inside a try that maps Transmission/Timeout/Protocol errors to Type4TagCommandError: a raw '
                         'nfc.clf.CommunicationError reaches the application' % norm(st), detail=str(hm))
    report.floor('C12-R3', n, 3)
    # on an error the retry sends R(NAK) / R(ACK), never the I-block again
    for t in [t for t in walk_no_nested(f.node) if isinstance(t, ast.Try)]:
        for h in t.handlers:
            if h.type is not None and norm(h.type) in ('nfc.clf.TransmissionError', 'nfc.clf.TimeoutError'):
                asg = [norm(s.value) for s in ast.walk(h) if isinstance(s, ast.Assign) and norm(s.targets[0]) == 'data']
                gives_up = not asg and isinstance(last_live(h.body), ast.Raise)      # a handler that only maps the error retransmits nothing
                okk = gives_up or asg in (['bytearray([178 | self.pni])'], ['bytearray([162 | self.pni])'])
                report.check(okk, 'C12-R3', key(f.qname, 'after %s the retry sends an R-block, not the I-block' % norm(h.type), h.type),
                             f.loc(h), 'error recovery retransmits %s (an I-block sent twice can be executed twice)' % asg)
    # retransmission of the I-block only on R(ACK) with the other block number
    rt = [i for i in walk_no_nested(f.node) if isinstance(i, ast.If) and norm(i.test) == 'data[0] == 162 | ~self.pni & 1']
    okk = len(rt) == 1 and any(norm(s) == 'data = pfb + command[offset:offset + self.miu]' for s in rt[0].body)
    report.check(okk, 'C12-R3', key(f.qname, 'I-block is retransmitted only on R(ACK) with the other block number'), f.loc(),
                 'I-block retransmission condition changed')
    # what can leave IsoDepInitiator.exchange, keyed by the statement it leaves through
    c = prog.cls(ISO)
    g = prog.lookup(c, 'exchange')
    esc = Escape(prog, res, boundaries=TAG_BOUNDARIES, split_entry=True)
    r = esc.esc(g, Ctx(c))
    for it in items_sorted(r):
        if it.entry == 'self.clf.exchange(data, timeout)' and it.origin == 'boundary':
            continue        # presence check path (command is None): raw errors are the documented interface to _is_present
        okk = prog.exc_is_sub(it.exc, 'nfc.tag.TagCommandError') or it.exc == 'OSError'
        report.check(okk, 'C12-R3', key(g.qname, 'via ' + (it.entry or '?'), '%s raised in %s' % (it.exc, it.site_func), it.site_text), g.loc(),
                     '%s can leave IsoDepInitiator.exchange through `%s` (raised in %s: %s)' % (it.exc, it.entry, it.site_func, it.site_text),
                     fmt_chain(it))
    ip = prog.func('nfc.tag.tt4.Type4Tag._is_present')
    okk = any(h.type is not None and norm(h.type) == 'nfc.clf.CommunicationError' for t in walk_no_nested(ip.node) if isinstance(t, ast.Try) for h in t.handlers)
    report.check(okk, 'C12-R3', key(ip.qname, 'presence check maps CommunicationError to False'), ip.loc(), 'presence check no longer catches CommunicationError')
    # send_apdu / transceive add only the documented errors on top
    for q in ('send_apdu', 'transceive'):
        tc = prog.cls('nfc.tag.tt4.Type4ATag')
        g2 = prog.lookup(tc, q)
        esc2 = Escape(prog, res, boundaries=dict(TAG_BOUNDARIES, **{ISO + '.exchange': []}))
        r2 = esc2.esc(g2, Ctx(tc))
        for it in items_sorted(r2):
            okk = prog.exc_is_sub(it.exc, 'nfc.tag.TagCommandError') or \
                (it.exc == 'ValueError' and it.site_func == 'nfc.tag.tt4.Type4Tag.send_apdu')
            report.check(okk, 'C12-R3', key(g2.qname, '%s raised in %s is a documented error' % (it.exc, it.site_func), it.site_text), g2.loc(),
                         '%s can leave Type4Tag.%s (raised in %s: %s)' % (it.exc, q, it.site_func, it.site_text), fmt_chain(it))


def rule_bounded(report, prog):
    f = prog.func(ISO + '.exchange')
    cfg = cfg_of(f)
    n = 0
    for lp in walk_no_nested(f.node):
        if isinstance(lp, ast.For) and norm(lp.iter).startswith('itertools.count('):
            n += 1
            head_ = [x for x in cfg.nodes if x.kind == 'for' and x.ast is lp][0]
            counter = [t for e, t in cfg.test_nodes.items() if isinstance(e, ast.Compare) and norm(e.left) == norm(lp.target)
                       and 'n_retry' in norm(e.comparators[0]) and any(a is lp for a in ancestors(e))]
            # every cycle body -> head must pass a counter test: head unreachable from itself via 'body' edge avoiding counters
            body_succ = [m for m, l in head_.succ if l == 'body']
            inside = set(cfg.nodes_in(lp)) | {head_}
            outside = [x for x in cfg.nodes if x not in inside]
            cyc = set()
            for m in body_succ:
                cyc |= cfg.reachable(m, avoid_nodes=counter + outside)
            okk = head_ not in cyc
            wit = []
            if not okk:
                p = cfg.path(body_succ[0], head_, avoid_nodes=counter + outside)
                wit = fmt(cfg, p)
            report.check(okk, 'C12-R4', key(f.qname, 'every cycle of the retry loop passes the retry counter test', 'loop %d' % n),
                         f.loc(lp), 'a cycle of the retry loop (itertools.count) passes no test of the counter against the retry budget: '
                         'a card that keeps answering R(ACK) with the other block number keeps the reader retransmitting forever', wit)
        elif isinstance(lp, ast.While) and 'data[0]' in norm(lp.test) and '242' in norm(lp.test):
            n += 1
            bounded = any(isinstance(e, ast.Compare) and any(isinstance(x, ast.Name) and x.id in ('i', 'n', 'count', 'wtx_count', 'deadline')
                                                             for x in ast.walk(e)) for e in ast.walk(lp))
            report.check(bounded, 'C12-R4', key(f.qname, 'waiting time extension loop is bounded'), f.loc(lp),
                         'the S(WTX) loop has no bound: a card that keeps requesting waiting time extensions keeps the reader in the loop forever')
    report.floor('C12-R4', n, 3)
    init = prog.func(ISO + '.__init__')
    okk = bool(find(init.node, 'self.n_retry_ack = min(int(1 / self.fwt), 5)')) and bool(find(init.node, 'self.n_retry_nak = self.n_retry_ack'))
    report.check(okk, 'C12-R4', key(init.qname, 'retry budget derived from FWT, at most 5'), init.loc(), 'retry budget changed')


def rule_empty(report, prog):
    f = prog.func(ISO + '.exchange')
    cfg = cfg_of(f)
    exch = [cfg_node_for(cfg, c) for c in ast.walk(f.node) if isinstance(c, ast.Call) and norm(c.func) == 'self.clf.exchange'
            and not any(isinstance(a, ast.If) and norm(a.test) == 'command is None' for a in ancestors(c))]
    guards = [(t, 'false') for e, t in cfg.test_nodes.items() if norm(e) == 'len(data) == 0']
    read_tests = [(e, t) for e, t in cfg.test_nodes.items()
                  if any(isinstance(x, ast.Subscript) and norm(x.value) == 'data' and isinstance(try_const(x.slice), int) for x in ast.walk(e))]
    n = 0
    for x in exch:
        if x is None:
            continue
        n += 1
        bad = [e for e, t in read_tests
               if t in cfg.reachable(x, avoid_edges=guards, avoid_nodes=[y for y in exch if y is not x], labels_excluded=('exc',))]
        report.check(not bad, 'C12-R5', key(f.qname, 'response bytes read only after a length test', x.ast), f.loc(x.ast),
                     'the response of `%s` is indexed (%s) without a test for an empty frame: an empty response raises IndexError '
                     'instead of Type4TagCommandError' % (norm(x.ast)[:60], ', '.join(sorted(set(norm(b) for b in bad)))[:120]))
    report.floor('C12-R5', n, 3)
    # every constant index into a received block is covered by a proven length (the buffer dataflow of nfcsa/buf.py)
    from .. import buf
    from ..buf import FROM, names_for
    for v in names_for(f, FROM('self.clf.exchange')):
        buf.check(report, prog, f, v, 'C12-R5', 'ISO-DEP block')


def rule_activation_parameters(report, prog):
    """R1 (activation): the frame size and frame waiting time handed to the ISO-DEP layer are the ones the card announced: the
    activation code of both tag types is folded by the checker for every FSCI / FWI pair (Type 4A: ATS with and without TA(1),
    Type 4B: SENSB_RES protocol info) and must give FSC = table[min(FSCI, 8)] and FWT = 4096/fc * 2^FWI (RFU FWI 15 -> 4)."""
    from ..q import fold_lenient
    table = (16, 24, 32, 40, 48, 64, 96, 128, 256)
    for q, kind in (('nfc.tag.tt4.Type4ATag.__init__', 'A'), ('nfc.tag.tt4.Type4BTag.__init__', 'B')):
        f = prog.func(q)
        bad = []
        folded = 0
        for fsci in range(16):
            for fwi in range(16):
                variants = []
                if kind == 'B':
                    sb = bytearray(12)
                    sb[0] = 0x50
                    sb[10] = (fsci << 4) | 1
                    sb[11] = (fwi << 4) | 0x05
                    variants.append(({'target.sensb_res': sb}, ()))
                else:
                    for ta in (True, False):
                        t0 = fsci | 0x60 | (0x10 if ta else 0)
                        ats = bytearray([0, t0] + ([0x00] if ta else []) + [(fwi << 4) | 2, 0x02])
                        ats[0] = len(ats)
                        variants.append(({'rats_res': ats}, ('rats_res',)))
                for env0, seeds in variants:
                    env = dict(env0)
                    env.update({'self.clf.max_send_data_size': 290, 'self.clf.max_recv_data_size': 290})
                    stopped = fold_lenient(f.node.body, env, seeds=seeds,
                                           stop=lambda st: isinstance(st, ast.Assign) and norm(st.targets[0]) == 'self._dep')
                    folded += 1
                    want_fsc = table[min(fsci, 8)]
                    want_fwt = 4096 / 13.56E6 * 2 ** (fwi if fwi <= 14 else 4)
                    got_fsc, got_fwt = env.get('fsc'), env.get('fwt')
                    if not stopped or got_fsc is None or got_fwt is None:
                        bad.append('cannot fold the activation parameters (FSCI %d, FWI %d)' % (fsci, fwi))
                    elif got_fsc != want_fsc or abs(got_fwt - want_fwt) > 1e-12:
                        bad.append('FSCI %d / FWI %d announced: FSC %s, FWT %.6f handed to ISO-DEP instead of FSC %d, FWT %.6f'
                                   % (fsci, fwi, got_fsc, got_fwt, want_fsc, want_fwt))
            if bad and bad[-1].startswith('cannot'):
                break
        report.check(not bad, 'C12-R1', key(q, 'FSC / FWT handed to ISO-DEP are the announced FSCI / FWI'), f.loc(),
                     '%s: %s' % (q, '; '.join(bad[:2])), detail='%d parameter sets folded' % folded)


def run(report, prog, tier):
    res = Resolver(prog)
    rule_budget(report, prog)
    rule_activation_parameters(report, prog)
    rule_block_number(report, prog)
    rule_error_mapping(report, prog, res)
    rule_bounded(report, prog)
    rule_empty(report, prog)
    rule_once(report, prog)
    # ISO-DEP blocks are protected by the chip's CRC check: no driver routes an ISO-DEP capable target through the Type 2 path
    from .c14 import rule_crc_routing
    rule_crc_routing(report, prog, rule='C12-R7')
    # block level recovery rests on how the drivers classify what the chip reports: a damaged block has to surface as TransmissionError
    # (answered with R(NAK)), not as ProtocolError (which ends the exchange): the mapping obligations of C13-R2, reported as C12-R8
    from . import c13
    report.run_as({'C13-R2': 'C12-R8'}, c13.rule_mapping, prog)
    # ... and below the block layer the frontend hands each block to the driver once (C04-R6), reported as C12-R6
    from . import c04
    report.run_as({'C04-R6': 'C12-R6'}, c04.rule_frontend_once, prog)
    report.trusted += ['ISO/IEC 14443-4 block formats (PCB values), FSCI table', 'clf.exchange raises only CommunicationError subclasses or IOError (C13)']
    report.assumptions += ['the card model (at-most-once execution) is out of reach of a static rule']


from .. import triage   # noqa: E402

def _isodep_loop_runs(f):
    """IsoDepInitiator.exchange binds `data` in a loop over range(0, len(command), self.miu): it runs at least once for a non-empty command."""
    return any(isinstance(l, ast.For) and norm(l.iter) == 'range(0, len(command), self.miu)' for l in walk_no_nested(f.node))


def _apdu_has_header(f):
    """send_apdu starts the command with the four header bytes and only appends to it."""
    st = [s for s in walk_no_nested(f.node) if isinstance(s, ast.Assign) and norm(s.targets[0]) == 'apdu']
    return bool(st) and norm(st[0].value) == 'bytearray([cla, ins, p1, p2])' and \
        all(norm(s.value).startswith('self.transceive(') for s in st[1:])


ISODEP_EMPTY_REASON = ('the read follows the block loop `for offset in range(0, len(command), self.miu)`, which binds and length-checks data on every '
                       'iteration; it is skipped only for an empty command, and send_apdu always sends the four header bytes (an empty command is an '
                       'argument error of an application calling transceive() directly, not something a tag can cause)')
ISODEP_EMPTY_ANCHORS = [('nfc.tag.tt4.IsoDepInitiator.exchange', _isodep_loop_runs), ('nfc.tag.tt4.Type4Tag.send_apdu', _apdu_has_header)]


triage.add('C12', 'C12-R5', key(ISO + '.exchange', 'data is long enough for', 'data[0] in `while data[0] & 16`'), ISODEP_EMPTY_REASON, ISODEP_EMPTY_ANCHORS)


T4 = 'nfc.tag.tt4'
MUTANTS = [
    ('t4b-fsci-fwi-swapped', T4, "fsci, fwti = target.sensb_res[10] >> 4, target.sensb_res[11] >> 4", "fsci, fwti = target.sensb_res[11] >> 4, target.sensb_res[10] >> 4", 'C12-R1'),
    ('t4a-tb-index-ignores-ta', T4, "tb_index = 2 + (rats_res[1] >> 4 & 1)  # TB(1) follows TA(1)", "tb_index = 2  # TB(1)", 'C12-R1'),
    ('fsc-raised-after-table', T4, """            log.warning("FWI with RFU value in SENSB_RES")
            fwti = 4

        fsc = (16, 24, 32, 40, 48, 64, 96, 128, 256)[fsci]
""", """            log.warning("FWI with RFU value in SENSB_RES")
            fwti = 4

        fsc = (16, 24, 32, 40, 48, 64, 96, 128, 256)[fsci]
        fsc = max(fsc, 64)
""", 'C12-R1'),
    ('last-chained-block-not-toggled', T4, """            response = response + data[1:]
            self.pni = (self.pni + 1) % 2
""", """            response = response + data[1:]
            if data[0] & 0b00010000:
                self.pni = (self.pni + 1) % 2
""", 'C12-R2'),
    ('miu-fsc-minus-2', T4, "self.miu = fsc - 3  # account for 1 byte PCB and 2 byte EDC", "self.miu = fsc - 2", 'C12-R1'),
    ('slice-wider-than-stride', T4, """            pfb = pack('B', (0x02, 0x12)[more] | self.pni)
            data = pfb + command[offset:offset+self.miu]""", """            pfb = pack('B', (0x02, 0x12)[more] | self.pni)
            data = pfb + command[offset:offset+self.miu+1]""", 'C12-R1'),
    ('more-flag-ge', T4, "more = len(command) - offset > self.miu", "more = len(command) - offset >= self.miu", 'C12-R1'),
    ('fsc-table', T4, """            log.warning("FWI with RFU value in RATS_RES")
            fwti = 4

        fsc = (16, 24, 32, 40, 48, 64, 96, 128, 256)[fsci]""", """            log.warning("FWI with RFU value in RATS_RES")
            fwti = 4

        fsc = (16, 24, 32, 40, 48, 64, 96, 128, 512)[fsci]""", 'C12-R1'),
    ('ats-default-fsci', T4, "        fsci, fwti = 2, 4  # default values if T0 or TB(1) are not sent", "        fsci, fwti = 9, 4  # default values if T0 or TB(1) are not sent", 'C12-R1'),
    ('block-number-unchecked', T4, """            if data[0] & 0x01 != self.pni:
                log.warning("ISO-DEP protocol error: block number")
                raise Type4TagCommandError(nfc.tag.PROTOCOL_ERROR)
""", "", 'C12-R2'),
    ('toggle-mod-4', T4, """                if data[0] & 0b11111110 == 0b10100010:  # ACK
                    self.pni = (self.pni + 1) % 2""", """                if data[0] & 0b11111110 == 0b10100010:  # ACK
                    self.pni = (self.pni + 1) % 4""", 'C12-R2'),
    ('rnak-constant', T4, """                    if i <= self.n_retry_nak:
                        log.warning("ISO-DEP transmission error (#%d)" % i)
                        data = bytearray([0xB2 | self.pni])""", """                    if i <= self.n_retry_nak:
                        log.warning("ISO-DEP transmission error (#%d)" % i)
                        data = bytearray([0xB3 | self.pni])""", 'C12-R'),
    ('retransmit-iblock-on-timeout', T4, """                    if i <= self.n_retry_nak:
                        log.warning("ISO-DEP timeout error (#%d)" % i)
                        data = bytearray([0xB2 | self.pni])""", """                    if i <= self.n_retry_nak:
                        log.warning("ISO-DEP timeout error (#%d)" % i)
                        data = pfb + command[offset:offset+self.miu]""", 'C12-R3'),
    ('timeout-code-swapped', T4, """                        log.error("ISO-DEP unrecoverable timeout error")
                        raise Type4TagCommandError(nfc.tag.TIMEOUT_ERROR)
                except nfc.clf.ProtocolError:
                    log.error("ISO-DEP unrecoverable protocol error")
                    raise Type4TagCommandError(nfc.tag.PROTOCOL_ERROR)

            while data[0] & 0b11111110 == 0b11110010:  # WTX""", """                        log.error("ISO-DEP unrecoverable timeout error")
                        raise Type4TagCommandError(nfc.tag.RECEIVE_ERROR)
                except nfc.clf.ProtocolError:
                    log.error("ISO-DEP unrecoverable protocol error")
                    raise Type4TagCommandError(nfc.tag.PROTOCOL_ERROR)

            while data[0] & 0b11111110 == 0b11110010:  # WTX""", 'C12-R3'),
    ('protocol-handler-dropped', T4, """                except nfc.clf.ProtocolError:
                    log.error("ISO-DEP unrecoverable protocol error")
                    raise Type4TagCommandError(nfc.tag.PROTOCOL_ERROR)

            if data[0] & 0b11101110 != 0x02:  # INF""", """
            if data[0] & 0b11101110 != 0x02:  # INF""", 'C12-R3'),
    ('chained-block-not-classified', T4, """            if data[0] & 0b11101110 != 0x02:  # INF
                log.error("ISO-DEP protocol error: expected inf")
                raise Type4TagCommandError(nfc.tag.PROTOCOL_ERROR)

            if data[0] & 0x01 != self.pni:
                log.error("ISO-DEP protocol error: block number")""", """            if data[0] & 0x01 != self.pni:
                log.error("ISO-DEP protocol error: block number")""", 'C12-R2'),
    ('ack-retry-unbounded', T4, """                    if i <= self.n_retry_ack:
                        log.warning("ISO-DEP timeout error (#%d)" % i)
                        data = bytearray([0xA2 | self.pni])
                    else:
                        log.error("ISO-DEP unrecoverable timeout error")
                        raise Type4TagCommandError(nfc.tag.TIMEOUT_ERROR)""", """                    log.warning("ISO-DEP timeout error (#%d)" % i)
                    data = bytearray([0xA2 | self.pni])""", 'C12-R'),
    ('empty-response-unchecked', T4, """                    data = self.clf.exchange(data, timeout)
                    if len(data) == 0:
                        raise nfc.clf.TransmissionError
                    break
                except nfc.clf.TransmissionError:
                    if i <= self.n_retry_ack:""", """                    data = self.clf.exchange(data, timeout)
                    break
                except nfc.clf.TransmissionError:
                    if i <= self.n_retry_ack:""", 'C12-R5'),
    ('send-apdu-foreign-error', T4, """        if not apdu or len(apdu) < 2:
            raise Type4TagCommandError(nfc.tag.PROTOCOL_ERROR)""", """        if not apdu or len(apdu) < 2:
            raise RuntimeError("short apdu")""", 'C12-R3'),
    ('response-prepended', T4, "            response = response + data[1:]", "            response = data[1:] + response", 'C12-R2'),
    ('wtx-timeout-unmapped', T4, """                except nfc.clf.TimeoutError:
                    raise Type4TagCommandError(nfc.tag.TIMEOUT_ERROR)
                except nfc.clf.TransmissionError:
                    raise Type4TagCommandError(nfc.tag.RECEIVE_ERROR)
                except nfc.clf.ProtocolError:
                    raise Type4TagCommandError(nfc.tag.PROTOCOL_ERROR)
                if len(data) == 0:""", """                except nfc.clf.TransmissionError:
                    raise Type4TagCommandError(nfc.tag.RECEIVE_ERROR)
                except nfc.clf.ProtocolError:
                    raise Type4TagCommandError(nfc.tag.PROTOCOL_ERROR)
                if len(data) == 0:""", 'C12-R3'),
    ('wtx-wtxm-length-untested', T4, """                if len(data) < 2:
                    log.error("ISO-DEP protocol error: missing WTXM")
                    raise Type4TagCommandError(nfc.tag.PROTOCOL_ERROR)
""", "", 'C12-R5'),
    ('apdu-reissued-after-receive-error', T4, """        apdu = self.transceive(apdu)

        if not apdu or len(apdu) < 2:""", """        try:
            rsp = self.transceive(apdu)
        except Type4TagCommandError as error:
            if error.errno != nfc.tag.RECEIVE_ERROR:
                raise
            rsp = self.transceive(apdu)
        apdu = rsp

        if not apdu or len(apdu) < 2:""", 'C12-R6'),
    ('block-number-check-before-wtx', T4, [("""            while data[0] & 0b11111110 == 0b11110010:  # WTX
                log.debug("ISO-DEP waiting time extension")
                if len(data) < 2:""", """            if data[0] & 0x01 != self.pni:
                log.warning("ISO-DEP protocol error: block number")
                raise Type4TagCommandError(nfc.tag.PROTOCOL_ERROR)

            while data[0] & 0b11111110 == 0b11110010:  # WTX
                log.debug("ISO-DEP waiting time extension")
                if len(data) < 2:"""), ("""                if len(data) == 0:
                    raise Type4TagCommandError(nfc.tag.RECEIVE_ERROR)

            if data[0] & 0x01 != self.pni:
                log.warning("ISO-DEP protocol error: block number")
                raise Type4TagCommandError(nfc.tag.PROTOCOL_ERROR)
""", """                if len(data) == 0:
                    raise Type4TagCommandError(nfc.tag.RECEIVE_ERROR)
""")], None, 'C12-R2'),
]

EXPLANATION += ' Round 5: driver error classification (C13-R2) and the single driver hand-over of the frontend are obligations of this check too.'
