# -*- coding: utf-8 -*-
"""C15 -- the frontend never lets two threads drive the device at once."""
import ast

from ..model import norm, head, ancestors, walk_no_nested, enclosing_stmt, FuncInfo, AnalysisError
from ..cfg import cfg_of
from ..lock import LockSets
from ..core import key

FRONTEND = 'nfc.clf.ContactlessFrontend'
LEVEL = 'proof'
EXPLANATION = (
    'Lexical lock-set analysis (E5) over every function and closure of ContactlessFrontend: '
    'each syntactic use of self.device is classified (driver call, call through a local alias, '
    'closure containing a driver call, store, value use); every driver call must execute with '
    'self.lock held (R1), must be dominated inside its locked region by a device-is-None test '
    '(R2, CFG reachability with the passing edge removed), stores must be locked (R3), no other '
    'module calls through clf.device (R4), the lock is a plain Lock and no locked region re-enters '
    'a method that takes it (R5).')


def class_functions(prog, cls):
    out = []
    for f in prog.functions.values():
        if f.owner_class is cls:
            out.append(f)
    return sorted(out, key=lambda f: f.qname)


def is_self_attr(n, attr):
    return isinstance(n, ast.Attribute) and n.attr == attr and isinstance(n.value, ast.Name) \
        and n.value.id == 'self'


def device_none_tests(cfg, attr='device'):
    """Edges (node, label) on which `self.device` is known to be usable."""
    edges = []
    for expr, n in cfg.test_nodes.items():
        if isinstance(expr, ast.Compare) and len(expr.ops) == 1 and is_self_attr(expr.left, attr) \
                and isinstance(expr.comparators[0], ast.Constant) and expr.comparators[0].value is None:
            if isinstance(expr.ops[0], ast.Is):
                edges.append((n, 'false'))
            elif isinstance(expr.ops[0], ast.IsNot):
                edges.append((n, 'true'))
        elif is_self_attr(expr, attr):
            edges.append((n, 'true'))
    return edges


def check_frontend(report, prog, cls_qname, lock_attr='lock', dev_attr='device', floor=None):
    cls = prog.cls(cls_qname)
    lock_text = 'self.' + lock_attr
    ls = LockSets(prog, cls, {lock_text: lock_attr})
    funcs = class_functions(prog, cls)
    driver_sites = []       # (func, call node, description)
    value_uses = 0
    closures_with_driver = {}

    # ---- classify every occurrence of self.device
    for f in funcs:
        aliases = {}        # local name -> attr node (x = self.device.m)
        for n in walk_no_nested(f.node):
            if not is_self_attr(n, dev_attr):
                continue
            par = getattr(n, '_parent', None)
            if isinstance(n.ctx, ast.Store):
                held = ls.held_at(f, n)
                okk = lock_attr in held or f.name == '__init__'
                report.check(okk, 'C15-R3', key(f.qname, 'store', enclosing_stmt(n)), f.loc(n),
                             'self.%s assigned without holding self.%s' % (dev_attr, lock_attr))
                continue
            if isinstance(par, ast.Attribute) and par.value is n:
                gp = getattr(par, '_parent', None)
                if isinstance(gp, ast.Call) and gp.func is par:
                    driver_sites.append((f, gp, 'self.%s.%s()' % (dev_attr, par.attr)))
                    continue
                if isinstance(gp, ast.Assign) and gp.value is par and len(gp.targets) == 1 \
                        and isinstance(gp.targets[0], ast.Name):
                    aliases.setdefault(gp.targets[0].id, []).append(par)
                    continue
                report.fail('C15-R1', key(f.qname, 'unclassified', enclosing_stmt(n)), f.loc(n),
                            'unclassified use of self.%s.%s (neither a call nor a local alias)' % (dev_attr, par.attr))
                continue
            # value uses: None tests, truthiness, bool(), formatting / logging arguments
            if isinstance(par, ast.Compare) or isinstance(par, (ast.If, ast.While, ast.BoolOp, ast.UnaryOp, ast.IfExp)):
                value_uses += 1
                continue
            if isinstance(par, ast.Call) and n in par.args and norm(par.func) in ('bool',):
                value_uses += 1
                continue
            if isinstance(par, ast.Call) and (n in par.args) and isinstance(par.func, ast.Attribute) \
                    and par.func.attr in ('format', 'info', 'debug', 'error', 'warning'):
                value_uses += 1
                continue
            if isinstance(par, ast.keyword) and isinstance(getattr(par, '_parent', None), ast.Call) \
                    and norm(par._parent.func).endswith('.format'):
                value_uses += 1
                continue
            report.fail('C15-R1', key(f.qname, 'unclassified', enclosing_stmt(n)), f.loc(n),
                        'unclassified use of self.%s' % dev_attr)
        # calls through aliases
        for name, srcs in aliases.items():
            used = False
            for n in walk_no_nested(f.node):
                if isinstance(n, ast.Name) and n.id == name and isinstance(n.ctx, ast.Load):
                    par = getattr(n, '_parent', None)
                    if isinstance(par, ast.Call) and par.func is n:
                        driver_sites.append((f, par, '%s() alias of %s' % (name, '/'.join(sorted(set(norm(s) for s in srcs))))))
                        used = True
                    else:
                        report.fail('C15-R1', key(f.qname, 'alias-escape', name), f.loc(n),
                                    'alias %s of a driver method escapes (not a direct call)' % name)
            for s in srcs:
                # the load of the bound method itself must also see a live device: treat as site for R2
                driver_sites.append((f, s, 'load %s' % norm(s)))
        # module-level driver constructor in open(): device.connect(path)
        for n in walk_no_nested(f.node):
            if isinstance(n, ast.Call):
                r = prog.resolve_expr(f.module, n.func, scope=f) if isinstance(n.func, (ast.Attribute, ast.Name)) else None
                if r and r[0] == 'func' and r[1].qname == 'nfc.clf.device.connect':
                    driver_sites.append((f, n, 'device.connect()'))

    # ---- R1: lock held at every driver site
    for f, call, desc in driver_sites:
        held = ls.held_at(f, call)
        k = key(f.qname, desc)
        if f.parent is not None:
            closures_with_driver.setdefault(f, []).append(call)
        report.check(lock_attr in held, 'C15-R1', k, f.loc(call),
                     'driver call %s in %s executes without self.%s held' % (desc, f.qname, lock_attr),
                     witness=['locks held: %s' % sorted(held)])
    for closure, n in ls.escapes:
        report.fail('C15-R1', key(closure.qname, 'closure-escape'), closure.loc(n),
                    'closure %s contains a driver call and is used other than by direct call' % closure.name)
    if floor is not None:
        report.floor('C15-R1', len(driver_sites), floor)

    # ---- R2: inside the locked region a None test dominates the driver call
    region_sites = []
    for f, call, desc in driver_sites:
        if desc == 'device.connect()':
            continue
        if f.parent is not None:
            # closure: the obligation sits at the closure's call sites in the parent
            parent = f.parent
            for n in ast.walk(parent.node):
                if isinstance(n, ast.Call) and isinstance(n.func, ast.Name) and n.func.id == f.name:
                    region_sites.append((parent, n, 'call of closure %s' % f.name))
        else:
            region_sites.append((f, call, desc))
    seen = set()
    for f, node, desc in region_sites:
        if (f, id(node)) in seen:
            continue
        seen.add((f, id(node)))
        withs = [a for a in ancestors(node) if isinstance(a, ast.With)
                 and any(norm(i.context_expr) == lock_text for i in a.items)]
        if not withs:
            continue    # already an R1 failure
        w = withs[0]
        cfg = cfg_of(f)
        wn = cfg.node_of(w)
        st = enclosing_stmt(node)
        target = cfg.node_of(st)
        if target is None:
            # statement is a compound header (if/while test): use test nodes inside
            cands = [n for n in cfg.nodes if n.ast is not None and any(x is node for x in ast.walk(n.ast))]
            target = cands[0] if cands else None
        if wn is None or target is None:
            raise AnalysisError('C15-R2: cannot locate CFG nodes for %s' % f.loc(node))
        pass_edges = [e for e in device_none_tests(cfg, dev_attr)
                      if any(a is w for a in ancestors(e[0].ast))]
        reach = cfg.reachable(wn, avoid_edges=pass_edges)
        k = key(f.qname, desc, 'device-is-None test dominates')
        okk = target not in reach and bool(pass_edges)
        wit = []
        if not okk:
            pth = cfg.path(wn, target, avoid_edges=pass_edges)
            if pth:
                wit = [cfg.fmt_path(pth)]
        report.check(okk, 'C15-R2', k, f.loc(node),
                     'driver use %s is reachable inside the locked region without a '
                     '`self.%s is None` test (device may have been closed by another thread)' % (desc, dev_attr),
                     witness=wit)

    # ---- R5: plain Lock; no re-entry from a locked region
    init = prog.lookup(cls, '__init__')
    lock_ctor = None
    if isinstance(init, FuncInfo):
        for n in walk_no_nested(init.node):
            if isinstance(n, ast.Assign) and any(is_self_attr(t, lock_attr) for t in n.targets):
                lock_ctor = norm(n.value)
    report.check(lock_ctor == 'threading.Lock()', 'C15-R5', key(cls.qname, 'lock constructor'),
                 init.loc() if isinstance(init, FuncInfo) else cls_qname,
                 'self.%s is created as %r, expected threading.Lock()' % (lock_attr, lock_ctor))
    takes = set()
    for f in funcs:
        if f.parent is None and any(isinstance(n, ast.With) and any(norm(i.context_expr) == lock_text for i in n.items)
                                    for n in ast.walk(f.node)):
            takes.add(f.name)
    # transitive: methods calling lock-taking methods on self
    changed = True
    calls = {}
    for f in funcs:
        if f.parent is None:
            names = set()
            for n in ast.walk(f.node):
                if isinstance(n, ast.Attribute) and isinstance(n.value, ast.Name) and n.value.id == 'self':
                    names.add(n.attr)
            calls[f.name] = names
    while changed:
        changed = False
        for name, ns in calls.items():
            if name not in takes and ns & takes:
                takes.add(name)
                changed = True
    n_regions = 0
    for f in funcs:
        for w in ast.walk(f.node):
            if isinstance(w, ast.With) and any(norm(i.context_expr) == lock_text for i in w.items):
                n_regions += 1
                bad = []
                for st in w.body:
                    for n in ast.walk(st):
                        if isinstance(n, ast.Attribute) and isinstance(n.value, ast.Name) \
                                and n.value.id == 'self' and n.attr in takes and isinstance(n.ctx, ast.Load):
                            m = prog.lookup(cls, n.attr)
                            if isinstance(m, FuncInfo):
                                bad.append(n)
                report.check(not bad, 'C15-R5', key(f.qname, 'locked region', 'no re-entry'), f.loc(w),
                             'locked region calls %s which takes the non-reentrant lock again' %
                             ', '.join(sorted(set('self.' + b.attr for b in bad))))
    report.stats.update({'frontend_functions': len(funcs), 'driver_sites': len(driver_sites),
                         'value_uses_of_device': value_uses, 'locked_regions': n_regions})
    return driver_sites


def check_foreign(report, prog, cls_qname, dev_attr='device'):
    """R4: nobody outside the frontend class calls through <clf>.device."""
    classes = [prog.cls(q) for q in ([cls_qname] if isinstance(cls_qname, str) else cls_qname)]
    n_scanned = 0
    hits = []
    for m in prog.modules.values():
        for n in ast.walk(m.tree):
            if isinstance(n, ast.Call) and isinstance(n.func, ast.Attribute) \
                    and isinstance(n.func.value, ast.Attribute) and n.func.value.attr == dev_attr:
                n_scanned += 1
                # static module reference (nfc.clf.device.X())?
                r = prog.resolve_expr(m, n.func.value)
                if r is not None and r[0] in ('module', 'ext'):
                    continue
                # inside the frontend class: covered by R1
                owner = None
                for a in ancestors(n):
                    if isinstance(a, ast.ClassDef):
                        owner = getattr(a, '_info', None)
                        break
                if owner in classes:
                    continue
                hits.append((m, n))
    for m, n in hits:
        report.fail('C15-R4', key(m.name, n.func), '%s:%d' % (m.relpath, n.lineno),
                    'driver method called through %s outside ContactlessFrontend (bypasses the lock)' % norm(n.func))
    if not hits:
        report.ok('C15-R4', key('all modules', 'no foreign <x>.%s.<m>() call' % dev_attr),
                  detail='%d candidate call expressions scanned' % n_scanned)
    return hits


def rule_lock_identity(report, prog, cls_qname):
    """R6: mutual exclusion needs one lock: the frontend's lock object is created in __init__ and never replaced -- a thread that
    took the old object and a thread that takes the new one exclude nobody."""
    cls = prog.cls(cls_qname)
    writers = []
    for fn in prog.functions.values():
        if fn.owner_class is cls:
            for st in walk_no_nested(fn.node):
                tg = st.targets if isinstance(st, ast.Assign) else [st.target] if isinstance(st, (ast.AugAssign, ast.AnnAssign)) else \
                    st.targets if isinstance(st, ast.Delete) else []
                for t in tg:
                    for x in ast.walk(t):
                        if isinstance(x, ast.Attribute) and norm(x) == 'self.lock':
                            writers.append((fn, st))
    bad = [(fn, st) for fn, st in writers if fn.name != '__init__']
    report.check(bool(writers) and not bad, 'C15-R6', key(cls_qname, 'the lock object is created once, in __init__'),
                 bad[0][0].loc(bad[0][1]) if bad else cls_qname,
                 '%s replaces self.lock (`%s`): threads holding the previous lock object are no longer excluded'
                 % (bad[0][0].qname if bad else '', norm(bad[0][1]) if bad else ''))


def run(report, prog, tier):
    check_frontend(report, prog, FRONTEND, floor=18)
    check_foreign(report, prog, FRONTEND)
    rule_lock_identity(report, prog, FRONTEND)
    # canary: the rule must separate the fixture twins
    from ..core import Report
    from ..fixtures import fixture_program
    fp = fixture_program('c15')
    good, bad = Report('C15'), Report('C15')
    check_frontend(good, fp, 'nfc.clf.GoodFrontend')
    check_frontend(bad, fp, 'nfc.clf.BadFrontend')
    rules_bad = sorted(set(f.rule for f in bad.failures))
    report.canary('C15 fixture twins', not good.failures and rules_bad == ['C15-R1', 'C15-R2', 'C15-R3', 'C15-R5'])
    foreign = Report('C15')
    report.canary('C15-R4 fixture', len(check_foreign(foreign, fp, ['nfc.clf.GoodFrontend', 'nfc.clf.BadFrontend'])) == 1)
    report.trusted += ['Python `with` statement semantics (lock released on every exit)',
                       'threading.Lock mutual exclusion',
                       'ast of /repo/src/nfc/clf/__init__.py is the program that runs']
    report.assumptions += ['applications do not reach into clf.device themselves',
                           'user callbacks passed to connect() are opaque']


CLF = 'nfc.clf'
MUTANTS = [
    ('open-installs-a-fresh-lock', 'nfc.clf', "        self.close()\n\n        # Acquire the lock and search for a device on *path*", "        self.lock = threading.Lock()\n        self.close()\n\n        # Acquire the lock and search for a device on *path*", 'C15-R6'),
    ('max-send-size-lock-free-alias', CLF, """        with self.lock:
            if self.device is None:
                raise IOError(errno.ENODEV, os.strerror(errno.ENODEV))
            else:
                return self.device.get_max_send_data_size(self.target)""", """        dev = self.device
        if dev is None:
            raise IOError(errno.ENODEV, os.strerror(errno.ENODEV))
        return dev.get_max_send_data_size(self.target)""", 'C15-R'),
    ('max-recv-size-unlocked', CLF, """        with self.lock:
            if self.device is None:
                raise IOError(errno.ENODEV, os.strerror(errno.ENODEV))
            else:
                return self.device.get_max_recv_data_size(self.target)""", """        if True:
            if self.device is None:
                raise IOError(errno.ENODEV, os.strerror(errno.ENODEV))
            else:
                return self.device.get_max_recv_data_size(self.target)""", 'C15-R1'),
    ('close-nonblocking-acquire', CLF, """        with self.lock:
            if self.device is not None:
                try:
                    self.device.close()
                except IOError:
                    pass
                self.device = None""", """        locked = self.lock.acquire(False)
        try:
            if self.device is not None:
                try:
                    self.device.close()
                except IOError:
                    pass
                self.device = None
        finally:
            if locked:
                self.lock.release()""", 'C15-R'),
    ('open-assigns-device-unlocked', CLF, """        with self.lock:
            log.info("searching for reader on path " + path)
            self.device = device.connect(path)""", """        self.device = device.connect(path)
        with self.lock:
            log.info("searching for reader on path " + path)""", 'C15-R3'),
    ('sense-mute-after-lock', CLF, """                if len(targets) > 0:
                    self.device.mute()  # deactivate the rf field
                if i < options.get('iterations', 1) - 1:
                    elapsed = time.time() - started
                    time.sleep(max(0, options.get('interval', 0.1)-elapsed))""", """                if i < options.get('iterations', 1) - 1:
                    elapsed = time.time() - started
                    time.sleep(max(0, options.get('interval', 0.1)-elapsed))
        if len(targets) > 0:
            self.device.mute()  # deactivate the rf field""", 'C15-R1'),
    ('exchange-none-test-dropped', CLF, """        with self.lock:
            if self.device is None:
                raise IOError(errno.ENODEV, os.strerror(errno.ENODEV))

            log.debug(">>> %s timeout=%s", print_data(send_data), str(timeout))""", """        with self.lock:
            log.debug(">>> %s timeout=%s", print_data(send_data), str(timeout))""", 'C15-R2'),
    ('exchange-call-outside-lock', CLF, """            send_time = time.time()
            rcvd_data = exchange(self.target, send_data, timeout)
            recv_time = time.time() - send_time

            log.debug("<<< %s %.3fs", print_data(rcvd_data), recv_time)
            return rcvd_data""", """        send_time = time.time()
        rcvd_data = exchange(self.target, send_data, timeout)
        recv_time = time.time() - send_time
        log.debug("<<< %s %.3fs", print_data(rcvd_data), recv_time)
        return rcvd_data""", 'C15-R1'),
    ('led-call-unlocked', CLF, """                        with self.lock:
                            if self.device is not None:
                                self.device.turn_off_led_and_buzzer()""", """                        if self.device is not None:
                            self.device.turn_off_led_and_buzzer()""", 'C15-R1'),
    ('reentrant-lock', CLF, "        self.lock = threading.Lock()", "        self.lock = threading.RLock()", 'C15-R5'),
    ('locked-region-calls-public-method', CLF, """        with self.lock:
            log.info("searching for reader on path " + path)
            self.device = device.connect(path)""", """        with self.lock:
            self.close()
            log.info("searching for reader on path " + path)
            self.device = device.connect(path)""", 'C15-R5'),
    ('foreign-driver-call', 'nfc.tag.tt4', """        log.debug("send RATS command to activate the Type 4A Tag")
""", """        log.debug("send RATS command to activate the Type 4A Tag")
        self.clf.device.mute()
""", 'C15-R4'),
    ('listen-closure-escapes-lock', CLF, """        with self.lock:
            if self.device is None:
                raise IOError(errno.ENODEV, os.strerror(errno.ENODEV))

            self.target = None  # forget captured target
            self.device.mute()  # deactivate the rf field

            info = "listen %.3f seconds for %s\"""", """        if target.brty == '106X':
            return listen_tta(target, timeout)
        with self.lock:
            if self.device is None:
                raise IOError(errno.ENODEV, os.strerror(errno.ENODEV))

            self.target = None  # forget captured target
            self.device.mute()  # deactivate the rf field

            info = "listen %.3f seconds for %s\"""", 'C15-R1'),
]
