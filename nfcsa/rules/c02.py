# -*- coding: utf-8 -*-
"""C02 -- an interrupted NDEF write never leaves a corrupt message on the tag (write-phase ordering)."""
import ast

from ..model import norm, head, walk_no_nested, AnalysisError, FuncInfo, enclosing_stmt, ancestors, live
from ..cfg import cfg_of
from ..q import (find, match, const, try_const, only_via, tests, stmt_nodes, one, fmt, cfg_node_for, linear, calls)
from ..core import key

EXPLANATION = ('R6 effect rule: no write command is reachable in the resolved call graph from any _read_ndef_data (readers never remove in-progress marks).  ' +
    'Typestate over the CFG of every NDEF write routine.  Type 1/2: the length byte is zeroed and flushed before any data '
    'store, data and terminator are flushed before any length store, every length store is flushed before the function '
    'returns, and the commit byte (the first length byte) is flushed on its own after the extended length bytes are on the '
    'tag; the write-back visits units in ascending address order and writes only units that differ.  Type 3: the first '
    'command is the attribute write with WriteFlag=0Fh, data block writes lie between it and the final attribute write that '
    'carries Ln and WriteFlag=00h in one block.  Type 4: the writer and UPDATE BINARY folded to their command sequence for a grid of '
    'NLEN sizes, MLc values and message lengths and replayed on a file holding an older message: after every proper prefix of '
    'the sequence NLEN is zero, after the whole sequence it is the message length.  What a reader sees for a concrete image '
    'after cut k needs a tag model and is not decided.')


def classify_t12(cfg, f):
    ev = {'Z': [], 'F': [], 'D': [], 'C': [], 'X': []}
    for n in cfg.nodes:
        if n.kind != 'stmt' or n.ast is None:
            continue
        s = norm(n.ast)
        if s == 'tag_memory.synchronize()':
            ev['F'].append(n)
        elif isinstance(n.ast, ast.Assign) and isinstance(n.ast.targets[0], ast.Subscript) \
                and norm(n.ast.targets[0].value) == 'tag_memory':
            idx = n.ast.targets[0].slice
            it = norm(idx)
            if it == 'offset + 1':
                if try_const(n.ast.value) == 0:
                    # the zeroing store is the one that precedes the data loop
                    ev['Z'].append(n)
                else:
                    ev['C'].append(n)
            elif isinstance(idx, ast.Slice) and norm(idx.lower) == 'offset + 2':
                ev['X'].append(n)
            else:
                ev['D'].append(n)
    return ev


def rule_t12(report, prog):
    for q in ('nfc.tag.tt1.Type1Tag.NDEF._write_ndef_data', 'nfc.tag.tt2.Type2Tag.NDEF._write_ndef_data'):
        f = prog.func(q)
        cfg = cfg_of(f)
        ev = classify_t12(cfg, f)
        if not ev['F'] or not ev['D']:
            report.fail('C02-R1', key(q, 'write phases recognised'), f.loc(), 'write routine no longer has flush / data stores')
            continue
        # a zeroing store exists and dominates every data store
        z_ok = len(ev['Z']) >= 1 and all(any(cfg.dominates(z, d) for z in ev['Z']) for d in ev['D'])
        report.check(z_ok, 'C02-R1', key(q, 'length byte zeroed before any data is stored'), f.loc(),
                     'data bytes can be stored while the old length is still in place')
        # flush between Z and D
        for z in ev['Z']:
            bad = [d for d in ev['D'] if d in cfg.reachable(z, avoid_nodes=ev['F'])]
            report.check(not bad, 'C02-R1', key(q, 'zero length flushed before data stores'), f.loc(z.ast),
                         'the zero length is not written to the tag before new data is stored: a cut leaves the old length with new data',
                         fmt(cfg, cfg.path(z, bad[0], avoid_nodes=ev['F'])) if bad else [])
        # flush between D and any length store
        for c in ev['C'] + ev['X']:
            bad = [d for d in ev['D'] if c in cfg.reachable(d, avoid_nodes=ev['F'])]
            report.check(not bad, 'C02-R1', key(q, 'data flushed before the length store', c.ast), f.loc(c.ast),
                         'the new length can reach the tag before all data bytes: a cut leaves a non-zero length over old data')
        # every length store is followed by a flush before return
        for c in ev['C'] + ev['X']:
            okk = cfg.exit not in cfg.reachable(c, avoid_nodes=ev['F'], labels_excluded=('exc',))
            report.check(okk, 'C02-R1', key(q, 'length store is flushed before return', c.ast), f.loc(c.ast),
                         'a length store is never written to the tag')
        # the zero value is a literal 0 at offset+1 of the NDEF TLV (same offset variable as the commit)
        # (reaching definitions: at the zeroing store and at every length store the `offset` in the subscript was last loaded from
        # the TLV offset, however often it is reloaded)
        defs = [n_ for n_ in cfg.nodes if n_.kind == 'stmt' and isinstance(n_.ast, (ast.Assign, ast.AugAssign)) and
                any(isinstance(x, ast.Name) and x.id == 'offset' and isinstance(x.ctx, ast.Store) for x in ast.walk(n_.ast))]
        bad_defs = []
        for st_ in ev['Z'] + ev['C'] + ev['X']:
            reaching = [d for d in defs if st_ in cfg.reachable(d, avoid_nodes=[x for x in defs if x is not d]) and d is not st_]
            if not reaching or any(not (isinstance(d.ast, ast.Assign) and norm(d.ast.value) == 'self._ndef_tlv_offset') for d in reaching):
                bad_defs.append((st_, reaching))
        report.check(not bad_defs and bool(ev['Z']), 'C02-R1', key(q, 'zeroing and commit address the same TLV'), f.loc(),
                     'the length store `%s` uses an offset last bound by %s, not by the TLV offset' % (
                         norm(bad_defs[0][0].ast) if bad_defs else '', [norm(d.ast) for d in bad_defs[0][1]] if bad_defs else []))
        # commit byte alone: between the extended length store X and the commit-byte store of 0xFF there must be a flush,
        # with X first (so that the tag shows length 0 until the single commit byte lands)
        for x in ev['X']:
            cs = [c for c in ev['C'] if try_const(c.ast.value) == 0xFF]
            for c in cs:
                together = (x in cfg.reachable(c, avoid_nodes=ev['F'])) or (c in cfg.reachable(x, avoid_nodes=ev['F']))
                order_ok = c in cfg.reachable(x) and x not in cfg.reachable(c)
                okk = (not together) and order_ok
                mode = 'marker and length in one flush' if together else 'marker flushed before the length bytes'
                base = key(q, 'commit byte FF is flushed alone after the 16-bit length is on the tag')
                report.check(okk, 'C02-R2', base if okk else key(base, mode), f.loc(c.ast),
                             ('the marker byte FFh and the 16-bit length are stored in the same flush (marker first): the flush writes '
                              'units in ascending order and the TLV offset need not be aligned, so a cut between two units leaves '
                              'L=FFh followed by stale length bytes -- a non-zero length that is neither old nor new') if together else
                             ('the marker byte FFh is written to the tag before the 16-bit length: a cut between the two flushes leaves L=FFh followed '
                              'by the old length bytes -- a non-zero length over new data'))


def rule_writeback(report, prog):
    f = prog.func('nfc.tag.tt2.Type2TagMemoryReader._write_to_tag')
    okk = any(isinstance(l, ast.For) and norm(l.iter) == 'range(0, stop, 4)' and norm(l.target) == 'index' for l in walk_no_nested(f.node))
    report.check(okk, 'C02-R3', key(f.qname, 'pages written in ascending order, stride 4'), f.loc(), 'Type 2 write-back order changed')
    cfg = cfg_of(f)
    w = [n for n in cfg.nodes if n.kind == 'stmt' and n.ast is not None and 'self._tag.write(' in norm(n.ast)]
    e = [(t, 'true') for ee, t in cfg.test_nodes.items() if norm(ee) == 'data != self._data_from_tag[index:index + 4]']
    okk = len(w) == 1 and bool(e) and only_via(cfg, w[0], e)[0] and bool(find(f.node, 'data = self._data_in_cache[index:index + 4]')) \
        and bool(find(f.node, 'self._tag.write(index >> 2, data)'))
    report.check(okk, 'C02-R3', key(f.qname, 'only pages whose cached content differs are written, page = index/4'), f.loc(),
                 'Type 2 write-back no longer writes exactly the changed pages')
    report.check(bool(find(f.node, 'self._data_from_tag[index:index + 4] = data')), 'C02-R3',
                 key(f.qname, 'tag image updated after a successful write'), f.loc(), 'tag image is not updated after the write')
    g = prog.func('nfc.tag.tt1.Type1TagMemoryReader._write_to_tag')
    loops = [norm(l.iter) for l in walk_no_nested(g.node) if isinstance(l, ast.For)]
    report.check(sorted(loops) == ['range(0, stop)', 'range(0, stop, 8)'], 'C02-R3', key(g.qname, 'blocks / bytes written in ascending order'),
                 g.loc(), 'Type 1 write-back order changed: %s' % loops)
    cfg = cfg_of(g)
    for call, cmp_ in (('self._tag.write_block(', 'data != self._data_from_tag[i:i + 8]'), ('self._tag.write_byte(', 'data != self._data_from_tag[i]')):
        w = [n for n in cfg.nodes if n.kind == 'stmt' and n.ast is not None and call in norm(n.ast)]
        e = [(t, 'true') for ee, t in cfg.test_nodes.items() if norm(ee) == cmp_]
        okk = len(w) == 1 and bool(e) and only_via(cfg, w[0], e, ps=False)[0]
        report.check(okk, 'C02-R3', key(g.qname, 'only changed units are written', call), g.loc(), 'Type 1 write-back writes unchanged units')
    report.check(bool(find(g.node, 'self._tag.write_block(i // 8, data)')) and bool(find(g.node, 'self._tag.write_byte(i, data)')), 'C02-R3',
                 key(g.qname, 'unit address = byte index / unit size'), g.loc(), 'Type 1 write-back addresses changed')
    for q in ('nfc.tag.tt1.Type1TagMemoryReader.synchronize', 'nfc.tag.tt2.Type2TagMemoryReader.synchronize'):
        s = prog.func(q)
        report.check(bool(find(s.node, 'self._write_to_tag(stop=len(self))')), 'C02-R3', key(q, 'synchronize writes the whole image range'),
                     s.loc(), 'synchronize no longer covers the image')


def rule_tlv_phases(report, prog, rule='C02-R1'):
    """Type 1 / Type 2 writers folded over layouts x message lengths (rules/tlvmodel.py) with every image handed to synchronize()
    recorded: all but the last announce an empty message, the last one holds the whole message and its length, nothing is left
    unflushed, and a non-empty message needs at least two flushes (value before length)."""
    from . import tlvmodel
    for kind in ('tt1', 'tt2'):
        f = prog.func('nfc.tag.%s.Type%sTag.NDEF._write_ndef_data' % (kind, kind[2]))
        v = tlvmodel.phase_verdicts(prog, kind)
        fold_bad = [p_ for p_ in tlvmodel.verdicts(prog)[kind][0] if 'cannot fold' in p_ or 'raises' in p_]
        report.check(not v and not fold_bad, rule, key(f.qname, 'folded writer: every flush before the last announces an empty message, the last holds message and length'),
                     f.loc(), '; '.join((v + fold_bad)[:2]), detail='%d (layout, message length) points folded' % tlvmodel.verdicts(prog)[kind][1])


def rule_t3(report, prog):
    f = prog.func('nfc.tag.tt3.Type3Tag.NDEF._write_ndef_data')
    cfg = cfg_of(f)
    aw = [n for n in cfg.nodes if n.kind == 'stmt' and n.ast is not None and norm(n.ast) == 'self._write_attribute_data(attributes)']
    dw = [n for n in cfg.nodes if n.kind == 'stmt' and n.ast is not None and 'self._tag.write_to_ndef_service(' in norm(n.ast)]
    if len(aw) != 2 or len(dw) != 1:
        report.fail('C02-R4', key(f.qname, 'attribute / data write phases'), f.loc(),
                    'Type 3 write phases changed: %d attribute writes, %d data writes' % (len(aw), len(dw)))
        return
    first, last = sorted(aw, key=lambda n: n.id)
    set_on = [n for n in cfg.nodes if n.kind == 'stmt' and n.ast is not None and norm(n.ast) == "attributes['writef'] = 15"]
    set_off = [n for n in cfg.nodes if n.kind == 'stmt' and n.ast is not None and norm(n.ast) == "attributes['writef'] = 0"]
    set_ln = [n for n in cfg.nodes if n.kind == 'stmt' and n.ast is not None and norm(n.ast) == "attributes['ln'] = len(data)"]
    okk = len(set_on) == 1 and cfg.dominates(set_on[0], first) and cfg.dominates(first, dw[0]) and \
        first not in cfg.reachable(set_off[0] if set_off else first)
    report.check(okk, 'C02-R4', key(f.qname, 'WriteFlag=0Fh is written before any data block'), f.loc(),
                 'data blocks can be written before the attribute block announces a write in progress')
    okk = len(set_off) == 1 and len(set_ln) == 1 and cfg.dominates(set_off[0], last) and cfg.dominates(set_ln[0], last) and \
        cfg.dominates(dw[0], last) is False and last in cfg.reachable(dw[0]) and cfg.exit not in cfg.reachable(dw[0], avoid_nodes=[last], labels_excluded=('exc',))
    report.check(okk, 'C02-R4', key(f.qname, 'Ln and WriteFlag=00h are written together, after all data blocks'), f.loc(),
                 'the final attribute write does not carry the new length and the cleared write flag after the data')
    # the new length is not part of the first attribute write
    okk = set_ln and first not in cfg.reachable(set_ln[0])
    report.check(bool(okk), 'C02-R4', key(f.qname, 'new Ln is not announced with the WriteFlag=0Fh block'), f.loc(),
                 'the new length is already written with the first attribute block')
    # one attribute block == one command: _write_attribute_data issues exactly one write of block 0
    g = prog.func('nfc.tag.tt3.Type3Tag.NDEF._write_attribute_data')
    ws = [c for c in ast.walk(g.node) if isinstance(c, ast.Call) and norm(c.func) == 'self._tag.write_to_ndef_service']
    report.check(len(ws) == 1 and [norm(a) for a in ws[0].args] == ['attribute_data', '0'], 'C02-R4',
                 key(g.qname, 'attribute data is one write of block 0'), g.loc(), 'attribute block is not written with a single command')
    # the writer folded over Nbw x message lengths (rules/t3model.py, block numbers below and above 255): when the final attribute
    # block commits the new length every block of the message has been written, in order, each exactly once -- otherwise the
    # committed message mixes old and new octets
    from . import t3model
    wv = t3model.write_verdicts(prog)
    report.check(not wv, 'C02-R4', key(f.qname, 'folded writer: every block of the message is written before Ln / WriteFlag=00h commit it'), f.loc(),
                 'the Type 3 writer commits a message whose blocks were not all written: %s' % '; '.join(wv[:2]),
                 detail='%d grid points folded' % len(t3model.WRITE_GRID))
    # readers treat WriteFlag != 0 as not readable
    r = prog.func('nfc.tag.tt3.Type3Tag.NDEF._read_attribute_data')
    report.check(bool(find(r.node, 'self._readable = writef == 0 and nbr > 0')), 'C02-R4', key(r.qname, 'WriteFlag != 0 means not readable'),
                 r.loc(), 'reader no longer honours the write flag')


def rule_t4(report, prog):
    # the writer and UPDATE BINARY folded over NLEN sizes x MLc values x message lengths (rules/t4model.py): the command sequence of
    # the source text, replayed on a file that holds an older message
    from . import t4model
    f = prog.func('nfc.tag.tt4.Type4Tag.NDEF._write_ndef_data')
    ub = prog.func('nfc.tag.tt4.Type4Tag.NDEF._update_binary')
    v = t4model.verdicts(prog)
    report.stats['t4_write_grid'] = len(t4model.GRID)
    report.check(not v['fold'], 'C02-R5', key(f.qname, 'writer folds to a command sequence'), f.loc(),
                 'Type 4 writer can no longer be folded to its UPDATE BINARY sequence (%s)' % '; '.join(v['fold'][:2]))
    report.check(not v['prefix'], 'C02-R5', key(f.qname, 'single command carries NLEN+data, else NLEN is zero until the last command'), f.loc(),
                 'an interrupted Type 4 write leaves a non-zero NLEN: %s' % '; '.join(v['prefix'][:2]),
                 detail='%d grid points' % len(t4model.GRID))
    report.check(not v['final'], 'C02-R5', key(f.qname, 'real NLEN is the last command'), f.loc(),
                 'the real NLEN is not in place after all commands: %s' % '; '.join(v['final'][:2]))
    w = prog.func('nfc.tag.tt4.Type4Tag.NDEF._wipe_ndef_data')
    wc = cfg_of(w)
    z = [n for n in wc.nodes if n.kind == 'stmt' and n.ast is not None and norm(n.ast) == 'self._update_binary(0, nlen)']
    lw = [n for n in wc.nodes if n.kind == 'stmt' and n.ast is not None and 'self._update_binary(offset, data[offset:])' in norm(n.ast)]
    okk = len(z) == 1 and len(lw) == 1 and wc.dominates(z[0], lw[0]) and bool(find(w.node, 'nlen = bytearray(pack(lfmt, 0))'))
    report.check(okk, 'C02-R5', key(w.qname, 'wipe zeroes NLEN before overwriting data'), w.loc(), 'wipe overwrites data before NLEN is zero')


WRITE_PRIMITIVES = ('.write_byte', '.write_block', '.write', '.write_without_encryption', '.write_to_ndef_service', '.write_without_mac',
                    '.write_with_mac', '._update_binary', '._write_attribute_data', '._write_to_tag', '.synchronize', '._write_ndef_data',
                    '.format', '.protect', '._format', '._protect')


def rule_read_is_pure(report, prog):
    """R6: reading never changes the tag.  The "in progress" marks an interrupted write leaves behind (zero length, WriteFlag, NLEN 0)
    protect a later reader only as long as no reader removes them: no command that writes tag memory is reachable, in the resolved
    call graph, from the NDEF detection / read routines of any tag class."""
    from ..resolve import Resolver, Ctx
    from ..callgraph import closure
    res = Resolver(prog)
    base = prog.cls('nfc.tag.Tag.NDEF')
    n = 0
    for c in sorted(prog.subclasses(base), key=lambda c: c.qname):
        f = c.methods.get('_read_ndef_data')
        if f is None:
            continue
        n += 1
        reach = closure(prog, res, f, Ctx(c))
        bad = sorted((q, chain) for q, (g, chain) in reach.items() if q.startswith('nfc.tag.') and q.endswith(WRITE_PRIMITIVES)
                     and '.Emulation' not in q and 'Emulation.' not in q)
        report.check(not bad, 'C02-R6', key(c.qname, 'no tag write is reachable from the read routine'), f.loc(),
                     '%s._read_ndef_data can reach the write command %s (via %s): a reader that modifies the tag can remove the mark an '
                     'interrupted write left and present the half-written area as a message' % (
                         c.qname, bad[0][0] if bad else '', ' -> '.join(bad[0][1][-3:]) if bad else ''),
                     detail='%d functions reachable' % len(reach))
    report.floor('C02-R6', n, 4)


def rule_first_ndef_tlv(report, prog):
    """R1 (reader side): the zero length that the writer puts on the tag first protects a later reader only if the reader stops at
    the first NDEF message TLV, empty or not: the `tlv_t == 3` branch of both TLV walks takes the value and leaves the loop
    unconditionally (bytes behind an empty NDEF TLV are remnants of older messages and must not be parsed as TLVs)."""
    from ..model import last_live
    for q in ('nfc.tag.tt1.Type1Tag.NDEF._read_ndef_data', 'nfc.tag.tt2.Type2Tag.NDEF._read_ndef_data'):
        f = prog.func(q)
        br = [i for i in ast.walk(f.node) if isinstance(i, ast.If) and isinstance(i.test, ast.Compare) and norm(i.test.left) == 'tlv_t'
              and isinstance(i.test.ops[0], ast.Eq) and try_const(i.test.comparators[0]) == 3]
        okk = len(br) == 1 and isinstance(last_live(br[0].body), ast.Break) and \
            any(isinstance(x, ast.Assign) and norm(x) == 'ndef = tlv_v' for x in live(br[0].body)) and \
            not any(isinstance(x, (ast.If, ast.While, ast.For, ast.Try)) for x in live(br[0].body))
        report.check(okk, 'C02-R1', key(q, 'the first NDEF message TLV ends the TLV walk'), f.loc(br[0]) if br else f.loc(),
                     '%s does not stop at the first NDEF message TLV: after an interrupted write (length still zero) the remnants behind it are '
                     'parsed and can be presented as a message' % q)


def run(report, prog, tier):
    rule_t12(report, prog)
    rule_first_ndef_tlv(report, prog)
    rule_writeback(report, prog)
    from .c01 import rule_tt2_memory_units, rule_image_flush
    rule_tt2_memory_units(report, prog, rule='C02-R3')
    rule_image_flush(report, prog, rule='C02-R3')
    rule_tlv_phases(report, prog)
    rule_t3(report, prog)
    rule_t4(report, prog)
    rule_read_is_pure(report, prog)
    report.trusted += ['a flush (synchronize) writes changed units in ascending address order, one command per unit; a cut falls between commands',
                       'a reader treats NDEF TLV length 0 / WriteFlag != 0 / NLEN 0 as empty or not readable']
    report.assumptions += ['the NDEF TLV offset is a run-time value and need not be aligned to the write unit']


MUTANTS = [
    ('tt2-first-flush-announces-length', 'nfc.tag.tt2', "            tag_memory[offset+1] = 0\n            tag_memory.synchronize()", "            tag_memory[offset+1] = min(len(data), 254)\n            tag_memory.synchronize()", 'C02-R1'),
    ('tt1-value-not-flushed-before-length', 'nfc.tag.tt1', "            # Write the new message data to the tag.\n            tag_memory.synchronize()\n", "", 'C02-R1'),
    ('tt2-reader-walks-past-empty-ndef-tlv', 'nfc.tag.tt2', """                elif tlv_t == 3:
                    ndef = tlv_v
                    break""", """                elif tlv_t == 3:
                    ndef = tlv_v
                    if tlv_l > 0:
                        break""", 'C02-R1'),
    ('tt2-flush-sector-select-conditional', 'nfc.tag.tt2', """                self._tag.sector_select(index >> 10)
                self._tag.write(index >> 2, data)""", """                if index >> 10:
                    self._tag.sector_select(index >> 10)
                self._tag.write(index >> 2, data)""", 'C02-R3'),
    ('tt3-reader-clears-write-flag', 'nfc.tag.tt3', """            if attributes['nbr'] == 0:
                log.debug("number of blocks for read is zero")""", """            if attributes['writef'] != 0:
                attributes['writef'] = 0
                self._write_attribute_data(attributes)
            if attributes['nbr'] == 0:
                log.debug("number of blocks for read is zero")""", 'C02-R6'),
    ('tt2-reader-repairs-terminator', 'nfc.tag.tt2', """        def _read_ndef_data(self):
            log.debug("read ndef data")
            tag_memory = Type2TagMemoryReader(self.tag)
""", """        def _read_ndef_data(self):
            log.debug("read ndef data")
            tag_memory = Type2TagMemoryReader(self.tag)
            tag_memory.synchronize()
""", 'C02-R6'),
    ('tt2-no-first-flush', 'nfc.tag.tt2', """            tag_memory[offset+1] = 0
            tag_memory.synchronize()
""", """            tag_memory[offset+1] = 0
""", 'C02-R1'),
    ('tt1-no-zeroing', 'nfc.tag.tt1', """            tag_memory[offset+1] = 0
            tag_memory.synchronize()
""", "", 'C02-R1'),
    ('tt2-length-before-data-flush', 'nfc.tag.tt2', """                tag_memory[offset] = 0xFE
            tag_memory.synchronize()
""", """                tag_memory[offset] = 0xFE
""", 'C02-R1'),
    ('tt1-no-final-flush', 'nfc.tag.tt1', """                tag_memory[offset+2:offset+4] = pack(">H", len(data))
            tag_memory.synchronize()
""", """                tag_memory[offset+2:offset+4] = pack(">H", len(data))
""", 'C02-R1'),
    ('tt2-length-first', 'nfc.tag.tt2', """            # Set the ndef message tlv length to 0.
            tag_memory[offset+1] = 0
            tag_memory.synchronize()
""", """            # Set the ndef message tlv length to 0.
            tag_memory[offset+1] = len(data) & 0xFE
            tag_memory.synchronize()
""", 'C02-R1'),
    ('tt2-writeback-descending', 'nfc.tag.tt2', """        index = 0
        while index < stop:
            data = self._data_in_cache[index:index+4]""", """        index = ((stop - 1) >> 2) << 2
        while index >= 0:
            data = self._data_in_cache[index:index+4]""", 'C02-R3'),
    ('tt2-writeback-all-pages', 'nfc.tag.tt2', "            if data != self._data_from_tag[index:index+4]:\n", "            if True:\n", 'C02-R3'),
    ('tt1-writeback-page-addr', 'nfc.tag.tt1', "self._tag.write_block(i//8, data)", "self._tag.write_block(i//4, data)", 'C02-R3'),
    ('tt3-no-writeflag', 'nfc.tag.tt3', """            attributes['writef'] = 0x0F
            self._write_attribute_data(attributes)
""", """            attributes['writef'] = 0x0F
""", 'C02-R4'),
    ('tt3-ln-with-first-attribute', 'nfc.tag.tt3', """            attributes['writef'] = 0x0F
            self._write_attribute_data(attributes)
""", """            attributes['writef'] = 0x0F
            attributes['ln'] = len(data)
            self._write_attribute_data(attributes)
""", 'C02-R4'),
    ('tt3-writeflag-cleared-early', 'nfc.tag.tt3', """            attributes['writef'] = 0x00
            self._write_attribute_data(attributes)
            return True""", """            return True""", 'C02-R4'),
    ('tt3-reader-ignores-writeflag', 'nfc.tag.tt3', "self._readable = writef == 0 and nbr > 0", "self._readable = nbr > 0", 'C02-R4'),
    ('tt4-real-nlen-first', 'nfc.tag.tt4', "                data = bytearray(len(nlen)) + data\n", "                data = bytearray(nlen) + data\n", 'C02-R5'),
    ('tt4-nlen-before-data', 'nfc.tag.tt4', """            offset = 0
            while offset < len(data):
                offset += self._update_binary(offset, data[offset:])

            if nlen:
                self._update_binary(0, nlen)""", """            offset = 0
            if nlen:
                self._update_binary(0, nlen)
            while offset < len(data):
                offset += self._update_binary(offset, data[offset:])""", 'C02-R5'),
    ('tt4-wipe-before-zero', 'nfc.tag.tt4', """            nlen = bytearray(pack(lfmt, 0))
            self._update_binary(0, nlen)
            offset = self._nlen_size""", """            nlen = bytearray(pack(lfmt, 0))
            offset = self._nlen_size""", 'C02-R5'),
]

EXPLANATION += ' Round 5: memory image flush folded (what was stored reaches the tag); the folded Type 3 writer commits Ln only after every block was written (block numbers above 255 included).'
