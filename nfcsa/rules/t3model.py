# -*- coding: utf-8 -*-
"""Type 3 Tag NDEF data reader / writer, folded.

`_read_ndef_data` and `_write_ndef_data` are folded by the checker's own evaluator (nfcsa.q.fold_block) for a grid of Nbr / Nbw values
and message lengths with the tag commands modelled (attribute block access, Read / Write Without Encryption of the NDEF service): the
result per grid point is the command sequence of the source text.  The rule states that the block lists partition 1..ceil(len/16) in
order, with at most N blocks per command and no command or response frame longer than the 255 octets its length octet can announce, and that what is read / written is the message.  Nothing of the repository is
imported or executed."""
import ast

from ..q import fold_block, NotConst

READ_GRID = [(nbr, ln) for nbr in (1, 4, 15, 20) for ln in (0, 1, 16, 17, 100, 240, 241, 500)] + [(nbr, ln) for nbr in (12, 15, 20) for ln in (4081, 4320, 4784)]
WRITE_GRID = [(nbw, ln) for nbw in (1, 4, 13, 20) for ln in (0, 1, 16, 17, 100, 208, 209, 300)] + \
    [(nbw, ln) for nbw in (7, 12, 13, 15, 20) for ln in (4081, 4150, 4320, 4784)]        # block numbers above 255 take three octets in the block list


def _body(f):
    b = list(f.node.body)
    return b[1:] if b and isinstance(b[0], ast.Expr) and isinstance(b[0].value, ast.Constant) else b


def _block(k):
    return bytes((k * 16 + j * 3) & 0xFF for j in range(16))


def _partition(cmds, ln, per_cmd, write=False):
    blocks = [b for c in cmds for b in c]
    want = list(range(1, 1 + (ln + 15) // 16))
    if blocks != want:
        return 'blocks addressed %s, the message occupies %s' % (_short(blocks), _short(want))
    if any(len(c) == 0 or len(c) > per_cmd for c in cmds):
        return 'a command addresses %s blocks (limit %d)' % (sorted(set(len(c) for c in cmds)), per_cmd)
    for c in cmds:
        # JIS X 6319-4 frame: LEN octet (<= 255) counts itself, the command code, IDm, one service (1 + 2), the block count and the block
        # list (two octets per block number below 256, three above); a write command carries 16 octets per block, a read response
        # LEN, code, IDm, two status flags, the block count and 16 octets per block
        cmd_len = 1 + 1 + 8 + 1 + 2 + 1 + sum(2 if b < 256 else 3 for b in c) + (16 * len(c) if write else 0)
        rsp_len = 1 + 1 + 8 + 2 + (0 if write else 1 + 16 * len(c))
        if cmd_len > 255 or rsp_len > 255:
            return 'the command for blocks %s needs a frame of %d octets (response %d), a frame holds 255' % (_short(c), cmd_len, rsp_len)
    return None


def _short(lst):
    return str(lst) if len(lst) < 8 else '[%s, ..., %s] (%d)' % (', '.join(map(str, lst[:3])), lst[-1], len(lst))


def read_verdicts(prog):
    memo = prog.__dict__.setdefault('_t3model', {})
    if 'read' not in memo:
        memo['read'] = _read_verdicts(prog)
    return memo['read']


def write_verdicts(prog):
    memo = prog.__dict__.setdefault('_t3model', {})
    if 'write' not in memo:
        memo['write'] = _write_verdicts(prog)
    return memo['write']


def _read_verdicts(prog):
    f = prog.func('nfc.tag.tt3.Type3Tag.NDEF._read_ndef_data')
    bad = []
    for nbr, ln in READ_GRID:
        cmds = []

        def read(*blocks):
            cmds.append(list(blocks))
            return bytearray(b''.join(_block(k) for k in blocks))
        attrs = {'ver': 0x10, 'nbr': nbr, 'nbw': 13 if nbr < 13 else 1, 'nmaxb': 300, 'writef': 0, 'rwflag': 1, 'ln': ln}
        env = {'self.tag.sys': 0x12FC, 'self._capacity': 4800,
               '__calls__': {'self._read_attribute_data': lambda: dict(attrs), 'self.tag.read_from_ndef_service': read,
                             'self._tag.read_from_ndef_service': read}}
        where = 'Nbr %d, Ln %d' % (nbr, ln)
        try:
            r = fold_block(_body(f), env)
        except (NotConst, IndexError, TypeError, ValueError, KeyError) as e:
            bad.append('%s: cannot fold (%s)' % (where, e))
            continue
        mem = b''.join(_block(k) for k in range(1, 301))
        why = _partition(cmds, ln, nbr)
        if why is None and (r[0] != 'return' or r[1] is None or bytes(r[1]) != mem[:ln]):
            why = 'returns %s' % (('%d bytes' % len(r[1])) if r[0] == 'return' and r[1] is not None else str(r))
        if why:
            bad.append('%s: %s' % (where, why))
    return bad


def _write_verdicts(prog):
    f = prog.func('nfc.tag.tt3.Type3Tag.NDEF._write_ndef_data')
    bad = []
    for nbw, ln in WRITE_GRID:
        seq = []
        msg = bytes((i * 11 + 1) & 0xFF for i in range(ln))
        attrs = {'ver': 0x10, 'nbr': 15 if nbw < 13 else 1, 'nbw': nbw, 'nmaxb': 300, 'writef': 0, 'rwflag': 1, 'ln': 7}
        env = {'data': bytearray(msg), 'self._capacity': 4800,
               '__calls__': {'self._read_attribute_data': lambda: dict(attrs),
                             'self._write_attribute_data': lambda a: seq.append(('attr', dict(a))),
                             'self._tag.write_to_ndef_service': lambda d, *blocks: seq.append(('data', bytes(d), list(blocks))),
                             'self.tag.write_to_ndef_service': lambda d, *blocks: seq.append(('data', bytes(d), list(blocks)))}}
        where = 'Nbw %d, %d byte message' % (nbw, ln)
        try:
            r = fold_block(_body(f), env)
        except (NotConst, IndexError, TypeError, ValueError, KeyError) as e:
            bad.append('%s: cannot fold (%s)' % (where, e))
            continue
        data_cmds = [s for s in seq if s[0] == 'data']
        why = _partition([s[2] for s in data_cmds], ln, nbw, write=True)
        if why is None and any(len(s[1]) != 16 * len(s[2]) for s in data_cmds):
            why = 'a command carries %s bytes for %s blocks' % ([len(s[1]) for s in data_cmds][:3], [len(s[2]) for s in data_cmds][:3])
        if why is None and b''.join(s[1] for s in data_cmds) != msg + bytes(-ln % 16):
            why = 'the blocks written are not the message padded with zeros'
        if why is None and not (len(seq) >= 2 and seq[0][0] == 'attr' and seq[-1][0] == 'attr' and all(s[0] == 'data' for s in seq[1:-1])
                                and seq[0][1].get('writef') == 0x0F and seq[-1][1].get('writef') == 0 and seq[-1][1].get('ln') == ln
                                and seq[0][1].get('ln') == 7):
            why = 'attribute writes %s do not bracket the data (WriteFlag 0Fh + old Ln first, 00h + new Ln last)' % (
                [(s[1].get('writef'), s[1].get('ln')) for s in seq if s[0] == 'attr'],)
        if why is None and r != ('return', True):
            why = 'returns %r' % (r,)
        if why:
            bad.append('%s: %s' % (where, why))
    return bad


def zero_stride(prog):
    """The reader folded for tags whose attribute block holds extreme values (Nbr, Nbw, Nmaxb of 0 or 255, with and without a message
    that fits): None when every such tag is read or refused without an exception and a tag with Nbr = 0 is refused without a block
    command, else what happens (a ValueError of range() with step 0 is the typical defect)."""
    f = prog.func('nfc.tag.tt3.Type3Tag.NDEF._read_ndef_data')
    for nbr in (0, 1, 255):
        for nbw in (0, 1, 255):
            for nmaxb in (0, 40, 255):
                for ln in sorted(set((0, min(40, nmaxb * 16)))):
                    cmds = []
                    attrs = {'ver': 0x10, 'nbr': nbr, 'nbw': nbw, 'nmaxb': nmaxb, 'writef': 0, 'rwflag': 1, 'ln': ln}

                    def read(*blocks):
                        cmds.append(list(blocks))
                        return bytearray(b''.join(_block(k) for k in blocks))
                    env = {'self.tag.sys': 0x12FC, 'self._capacity': nmaxb * 16,
                           '__calls__': {'self._read_attribute_data': lambda: dict(attrs), 'self.tag.read_from_ndef_service': read,
                                         'self._tag.read_from_ndef_service': read}}
                    where = 'Nbr %d, Nbw %d, Nmaxb %d, Ln %d' % (nbr, nbw, nmaxb, ln)
                    try:
                        r = fold_block(_body(f), env)
                    except NotConst as e:
                        return 'cannot fold (%s)' % e
                    except (ValueError, ZeroDivisionError, IndexError, TypeError, KeyError) as e:
                        return '%s: raises %s: %s' % (where, type(e).__name__, e)
                    if nbr == 0 and (r != ('return', None) or cmds):
                        return '%s: returns %r after %d block commands' % (where, r[1] if r[0] == 'return' else r, len(cmds))
    return None
