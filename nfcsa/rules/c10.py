# -*- coding: utf-8 -*-
"""C10 -- nothing sent on an LLCP link exceeds the peer's announced MIU (structural clauses)."""
import ast

from ..model import norm, head, walk_no_nested, AnalysisError, FuncInfo, enclosing_stmt, ancestors
from ..cfg import cfg_of
from ..resolve import Resolver, Ctx
from ..symlen import LenEval, show
from ..q import (find, match, try_const, only_via, tests, stmt_nodes, one, fmt, cfg_node_for, le_edge, edges_where,
                 lower_bound_at, linear, calls)
from ..core import key
from . import c11, c05

LLC = 'nfc.llcp.llc.LogicalLinkController'
SD = 'nfc.llcp.llc.ServiceDiscovery'
SAP = 'nfc.llcp.llc.ServiceAccessPoint'
TCO = 'nfc.llcp.tco.TransmissionControlObject'
EXPLANATION = (
    'R1 every subtraction from the MIU budget in ServiceDiscovery.dequeue is dominated by a guard that proves the '
    'budget covers the cost (CFG lower-bound analysis), and the per-item costs equal the per-item terms of '
    'ServiceNameLookup.__len__ (symlen); R2 __len__ == len(encode()) for all 15 PDU classes (shared with C11-R1) because '
    'collect() budgets with len(); R3 the aggregation budget in collect() is recomputed after every append with a '
    'constant >= the largest PDU header, every dequeue in the aggregation phase happens with a non-negative budget; '
    'R4 every dequeue implementation returns a PDU only on the branch where its information field was compared with '
    'miu_size (raw access points pass None by design); R5 EMSGSIZE gates dominate PDU creation and the link MIU is copied '
    'into the socket before the test.  Transparency of aggregation on the receiving side is not decided here.')


def rule_sd_budget(report, prog, res):
    f = prog.func(SD + '.dequeue')
    cfg = cfg_of(f)
    subs = [n for n in cfg.nodes if n.kind == 'stmt' and isinstance(n.ast, ast.AugAssign)
            and isinstance(n.ast.op, ast.Sub) and norm(n.ast.target) == 'miu_size']
    report.floor('C10-R1', len(subs), 2)
    costs = {}
    for n in subs:
        E = n.ast.value
        c = try_const(E)
        # the statement that consumes the budget is the append of the entry in the same block
        blk = getattr(n.ast, '_parent')
        body = None
        for fld in ('body', 'orelse', 'finalbody'):
            if any(x is n.ast for x in getattr(blk, fld, []) or []):
                body = getattr(blk, fld)
        appends = [s for s in (body or []) if isinstance(s, ast.Expr) and isinstance(s.value, ast.Call)
                   and norm(s.value.func).startswith('send_pdu.') and norm(s.value.func).endswith('.append')]
        which = norm(appends[0].value.func).split('.')[1] if appends else '?'
        costs[which] = E
        tgt = cfg.node_of(appends[0]) if appends else n
        if isinstance(c, int):
            have = lower_bound_at(cfg, 'miu_size', tgt, default=None)
            okk = have is not None and have >= c
            report.check(okk, 'C10-R1', key(f.qname, 'budget covers the cost before it is spent', n.ast), f.loc(n.ast),
                         'an entry costing %d bytes is added while only miu_size >= %s is established: the batched SNL PDU '
                         'overshoots the remote MIU (e.g. 33 answers at MIU 130)' % (c, have),
                         detail='need %d have %s' % (c, have))
        else:
            edges = edges_where(cfg, lambda e: le_edge(e, norm(E), 'miu_size'))
            okk, p = only_via(cfg, tgt, edges)
            report.check(okk, 'C10-R1', key(f.qname, 'budget covers the cost before it is spent', n.ast), f.loc(n.ast),
                         'an entry costing %s is added without the guard %s <= miu_size' % (norm(E), norm(E)), fmt(cfg, p))
    # per-item costs equal the terms of ServiceNameLookup.__len__
    le = LenEval(prog, res)
    snl = prog.cls('nfc.llcp.pdu.ServiceNameLookup')
    ln = prog.lookup(snl, '__len__')
    ret = [x for x in walk_no_nested(ln.node) if isinstance(x, ast.Return)][0]
    form = le.intform(ret.value, ln, Ctx(snl))
    per_res = form.get(('len', 'self.sdres'))
    per_req = None
    for k, v in form.items():
        if k[0] == 'sum' and k[1] == 'self.sdreq':
            sub = dict(k[2])
            # 3*len(iter) is split off by summed(): constant part sits in ('len','self.sdreq')
            per_req = (form.get(('len', 'self.sdreq'), 0), sub)
    got_res = try_const(costs.get('sdres')) if 'sdres' in costs else None
    report.check(got_res == per_res, 'C10-R1', key(f.qname, 'SDRES cost == per-item length in ServiceNameLookup.__len__'),
                 f.loc(), 'dequeue charges %r bytes per SDRES entry but the PDU grows by %r' % (got_res, per_res))
    if 'sdreq' in costs and per_req is not None:
        lin = linear(costs['sdreq'])
        okk = lin.get('1') == per_req[0] and lin.get('len(name)') == 1 and per_req[1] == {('len', '_v[1]'): 1}
        report.check(okk, 'C10-R1', key(f.qname, 'SDREQ cost == per-item length in ServiceNameLookup.__len__'), f.loc(),
                     'dequeue charges %s per SDREQ entry but the PDU grows by %d + %s' % (norm(costs['sdreq']), per_req[0], show(per_req[1])))
    else:
        report.fail('C10-R1', key(f.qname, 'SDREQ cost == per-item length in ServiceNameLookup.__len__'), f.loc(),
                    'SDREQ cost expression not found')
    # the DM queue of the discovery SAP is only served with budget left
    dm = [n for n in cfg.nodes if n.kind == 'stmt' and isinstance(n.ast, ast.Return) and 'self.dmpdu.popleft()' in norm(n.ast)]
    if dm:
        have = lower_bound_at(cfg, 'miu_size', dm[0])
        report.check(have is not None and have >= 1, 'C10-R1', key(f.qname, 'DM PDU only with budget >= 1'), f.loc(dm[0].ast),
                     'a DM PDU (1 byte information field) is returned without budget')


def rule_collect(report, prog, res):
    f = prog.func(LLC + '.collect')
    cfg = cfg_of(f)
    budgets = [(n, b) for n, b in find(f.node, 'miu_size = $E')]
    agg = [(n, b) for n, b in budgets if 'len(agf_pdu)' in norm(b['E'])]
    report.floor('C10-R3', len(agg), 3)
    hs = []
    for c in c11.pdu_classes(prog):
        h = prog.lookup(c, 'header_size')
        if isinstance(h, tuple):
            hs.append(try_const(h[2]))
    maxhs = max(x for x in hs if isinstance(x, int))
    for n, b in agg:
        lin = linear(b['E'])
        okk = lin.get("self.cfg['send-miu']") == 1 and lin.get('len(agf_pdu)') == -1 and -lin.get('1', 0) >= maxhs \
            and set(lin) == {"self.cfg['send-miu']", 'len(agf_pdu)', '1'}
        report.check(okk, 'C10-R3', key(f.qname, 'aggregation budget = send-miu - len(agf) - max header', n), f.loc(n),
                     'aggregation budget %s is not send-miu - len(agf_pdu) - k with k >= %d (largest PDU header)' % (norm(b['E']), maxhs))
    first = [(n, b) for n, b in budgets if n not in [a for a, _ in agg]]
    report.check(len(first) == 1 and norm(first[0][1]['E']) in ("self.cfg['send-miu']",), 'C10-R3',
                 key(f.qname, 'first PDU budget is the link MIU'), f.loc(),
                 'budget for the first PDU is not the remote link MIU')
    # after every append to the aggregate the budget is recomputed before the next dequeue
    appends = [n for n in cfg.nodes if n.kind == 'stmt' and n.ast is not None and norm(n.ast).startswith('agf_pdu.append(')]
    report.floor('C10-R3 appends', len(appends), 2)
    recompute = [cfg.node_of(n) for n, b in agg]
    deq = [cfg_node_for(cfg, c) for c in calls(f.node, attr='dequeue')] + [cfg_node_for(cfg, c) for c in calls(f.node, attr='sendack')]
    for a in appends:
        bad = None
        for d in deq:
            if d in cfg.reachable(a, avoid_nodes=recompute) and d is not a:
                bad = d
        report.check(bad is None, 'C10-R3', key(f.qname, 'budget recomputed after append', a.ast), f.loc(a.ast),
                     'after %s another PDU can be dequeued with the stale budget' % norm(a.ast),
                     fmt(cfg, cfg.path(a, bad, avoid_nodes=recompute)) if bad else [])
    # every dequeue / sendack of the aggregation phase runs with a proven non-negative budget
    agg_first = min((cfg.node_of(n) for n, b in agg), key=lambda x: x.id)
    n_sites = 0
    for c in calls(f.node, attr='dequeue') + calls(f.node, attr='sendack'):
        node = cfg_node_for(cfg, c)
        if not (node in cfg.reachable(agg_first) and node is not agg_first):
            continue
        n_sites += 1
        have = lower_bound_at(cfg, 'miu_size', node)
        report.check(have is not None and have >= 0, 'C10-R3',
                     key(f.qname, 'aggregation-phase %s with budget >= 0' % c.func.attr, c), f.loc(c),
                     'collect() calls %s while the remaining budget may already be negative (first PDU nearly fills the MIU): '
                     'a SAP that answers without looking at the budget (pending DM PDU, empty SNL PDU) is appended beyond the '
                     'remote link MIU' % norm(c), detail='bound %s' % have)
    report.floor('C10-R3 sites', n_sites, 2)
    report.stats['collect_budget_nonneg'] = not any(
        f2.rule == 'C10-R3' and 'with budget >= 0' in f2.key for f2 in report.failures)
    # a first PDU that fills the MIU is returned un-aggregated
    t = tests(cfg, 'len(send_pdu) - send_pdu.header_size >= miu_size')
    report.check(len(t) == 1, 'C10-R3', key(f.qname, 'full first PDU is sent alone'), f.loc(),
                 'test for a first PDU that already fills the link MIU is missing')
    # aggregation result: single PDU un-wrapped
    report.check(bool(find(f.node, 'return agf_pdu if agf_pdu.count > 1 else agf_pdu.first')), 'C10-R3',
                 key(f.qname, 'single PDU is not wrapped'), f.loc(), 'aggregate with one PDU is not unwrapped')


def rule_dequeue(report, prog, res):
    # base implementation
    f = prog.func(TCO + '.dequeue')
    cfg = cfg_of(f)
    rets = [n for n in cfg.nodes if n.kind == 'stmt' and isinstance(n.ast, ast.Return) and norm(n.ast) == 'return send_pdu']
    if len(rets) != 1:
        raise AnalysisError('C10-R4: TCO.dequeue return shape changed')
    size_expr = None
    edges = []
    for expr, tn in cfg.test_nodes.items():
        if isinstance(expr, ast.Compare) and norm(expr.comparators[0]) == 'miu_size' and isinstance(expr.ops[0], ast.Gt):
            size_expr = expr.left
            edges.append((tn, 'false'))
        if isinstance(expr, ast.Compare) and norm(expr.left) == 'miu_size' and isinstance(expr.ops[0], ast.IsNot) \
                and norm(expr.comparators[0]) == 'None':
            edges.append((tn, 'false'))
    okk, p = only_via(cfg, rets[0], edges) if edges else (False, None)
    report.check(okk and size_expr is not None, 'C10-R4', key(f.qname, 'PDU returned only if its information field fits miu_size'),
                 f.loc(rets[0].ast), 'TransmissionControlObject.dequeue can return a PDU without comparing it with miu_size', fmt(cfg, p))
    if size_expr is not None:
        report.check(norm(size_expr) == 'pdu_size - send_pdu.header_size', 'C10-R4',
                     key(f.qname, 'compared quantity is the information field'), f.loc(),
                     'compared quantity %s is not len - header_size' % norm(size_expr))
    # the requeue puts the PDU back at the head
    report.check(bool(find(f.node, 'self.send_queue.appendleft(send_pdu)')), 'C10-R4', key(f.qname, 'oversize PDU is requeued'),
                 f.loc(), 'an oversize PDU is dropped instead of requeued')
    # icv_size is added for UI / I only
    report.check(bool(find(f.node, 'pdu_size = len(send_pdu) + icv_size')), 'C10-R4', key(f.qname, 'ICV counted for UI/I'),
                 f.loc(), 'the integrity check value is not counted against the budget')
    # subclasses pass the budget through (RawAccessPoint passes None by design)
    for q, want in (('nfc.llcp.tco.LogicalDataLink', ['miu_size', 'icv_size']),
                    ('nfc.llcp.tco.DataLinkConnection', ['miu_size', 'icv_size', 'notify=False'])):
        m = prog.func(q + '.dequeue')
        cs = [c for c in calls(m.node, attr='dequeue')]
        got = [norm(a) for a in cs[0].args] + ['%s=%s' % (k.arg, norm(k.value)) for k in cs[0].keywords] if cs else None
        report.check(got == want, 'C10-R4', key(m.qname, 'budget passed to the base dequeue'), m.loc(),
                     '%s passes %r to the base dequeue instead of %r' % (m.qname, got, want))
    m = prog.func('nfc.llcp.tco.RawAccessPoint.dequeue')
    cs = calls(m.node, attr='dequeue')
    got = ['%s=%s' % (k.arg, norm(k.value)) for k in cs[0].keywords]
    report.ok('C10-R4', key(m.qname, 'raw access point bypasses the limit by design'), m.loc(), detail=str(got))
    # DataLinkConnection.dequeue: acknowledgement PDUs carry no information field (header only)
    m = prog.func('nfc.llcp.tco.DataLinkConnection.dequeue')
    acks = [r for r in walk_no_nested(m.node) if isinstance(r, ast.Return) and norm(r.value).startswith('ACK(')]
    report.check(len(acks) == 2, 'C10-R4', key(m.qname, 'only RR/RNR are returned without size test'), m.loc(),
                 'DataLinkConnection.dequeue returns %d PDUs without passing the base size test' % len(acks))
    # ServiceAccessPoint.dequeue
    m = prog.func(SAP + '.dequeue')
    mc = cfg_of(m)
    cs = calls(m.node, attr='dequeue')
    okk = len(cs) == 1 and [norm(a) for a in cs[0].args] == ['miu_size', 'icv_size']
    report.check(okk, 'C10-R4', key(m.qname, 'budget passed to the sockets'), m.loc(), 'SAP.dequeue does not pass the budget on')
    for r in [n for n in mc.nodes if n.kind == 'stmt' and isinstance(n.ast, ast.Return) and 'send_list.popleft()' in norm(n.ast)]:
        have = lower_bound_at(mc, 'miu_size', r)
        if have is None and report.stats.get('collect_budget_nonneg'):
            have = 0        # every call site in collect() passes a proven non-negative budget (C10-R3)
        elif have is None:
            report.note('C10-R4 %s: depends on the C10-R3 failure (callers may pass a negative budget)' % m.qname)
            continue
        report.check(have is not None and have >= 0, 'C10-R4',
                     key(m.qname, 'queued DM PDU returned only with budget', r.ast), m.loc(r.ast),
                     'ServiceAccessPoint.dequeue returns a queued DM PDU without looking at miu_size: with a negative aggregation '
                     'budget the aggregate exceeds the remote MIU')
    # ServiceDiscovery.dequeue returns the SNL PDU only if something fitted
    m = prog.func(SD + '.dequeue')
    mc = cfg_of(m)
    r = [n for n in mc.nodes if n.kind == 'stmt' and isinstance(n.ast, ast.Return) and norm(n.ast) == 'return send_pdu']
    if r:
        have = lower_bound_at(mc, 'miu_size', r[0])
        if have is None and report.stats.get('collect_budget_nonneg'):
            have = 0
        guarded = any(isinstance(a, ast.If) and ('send_pdu.sdres' in norm(a.test) or 'send_pdu.sdreq' in norm(a.test) or 'len(send_pdu)' in norm(a.test))
                      for a in ancestors(r[0].ast))
        report.check(guarded or (have is not None and have >= 0), 'C10-R4',
                     key(m.qname, 'SNL PDU returned only with budget / content', r[0].ast), m.loc(r[0].ast),
                     'ServiceDiscovery.dequeue returns an SNL PDU even when nothing fitted the budget (2 bytes + length field '
                     'appended beyond the remote MIU when the budget is negative)')


def rule_gates(report, prog, res):
    c05.rule_miu(report, prog)
    # rename the rule ids recorded by the shared rule
    if 'C05-R2' in report.obligations:
        report.obligations['C10-R5'] = report.obligations.pop('C05-R2')
        for f in report.failures:
            if f.rule == 'C05-R2':
                f.rule = 'C10-R5'
        for s in report.samples:
            if s.get('rule') == 'C05-R2':
                s['rule'] = 'C10-R5'
    f = prog.func(LLC + '.sendto')
    cfg = cfg_of(f)
    for text in ('socket.send(message, flags)', 'socket.sendto(message, dest, flags)'):
        rets = [n for n in cfg.nodes if n.kind == 'stmt' and isinstance(n.ast, ast.Return) and text in norm(n.ast)]
        sets = [n for n in cfg.nodes if n.kind == 'stmt' and norm(n.ast) == "socket.send_miu = self.cfg['send-miu']"]
        for r in rets:
            # only for raw / logical data link branches (connection sockets take the MIU from CONNECT/CC)
            if 'DataLinkConnection' in ' '.join(norm(a.test) for a in ancestors(r.ast) if isinstance(a, ast.If)):
                continue
            okk = any(cfg.dominates(s, r) for s in sets)
            report.check(okk, 'C10-R5', key(f.qname, 'link MIU copied into the socket before the size test', r.ast), f.loc(r.ast),
                         'llc.sendto calls %s without first setting socket.send_miu to the remote link MIU' % text)
    # connection sockets: send_miu clamped to the link MIU in connect() and accept()
    for q in ('connect', 'accept'):
        m = prog.func(LLC + '.' + q)
        okk = any(isinstance(e, ast.Compare) and "self.cfg['send-miu']" in norm(e) and 'send_miu' in norm(e) for e in ast.walk(m.node)) \
            and any("send_miu = self.cfg['send-miu']" in norm(s) for s in walk_no_nested(m.node) if isinstance(s, ast.Assign))
        report.check(okk, 'C10-R5', key(m.qname, 'connection MIU clamped to the link MIU'), m.loc(),
                     'llc.%s does not clamp the connection send MIU to the link MIU' % q)



def rule_agf_iteration(report, prog, res):
    """R7: a received aggregate is walked more than once (dispatch() logs its PDUs, then dispatches them): every walk must see all
    PDUs, so AggregatedFrame.__iter__ hands out a fresh iterator -- returning the frame itself makes the second walk empty and the
    aggregated PDUs are silently dropped."""
    agf = prog.cls('nfc.llcp.pdu.AggregatedFrame')
    it = agf.methods.get('__iter__')
    rets = [norm(r.value) for r in walk_no_nested(it.node) if isinstance(r, ast.Return) and r.value is not None] if it is not None else []
    fresh = bool(rets) and all(r != 'self' for r in rets) and all(('(' in r) for r in rets)
    report.check(fresh, 'C10-R7', key(agf.qname, '__iter__ returns a new iterator on every call'), it.loc() if it is not None else agf.qname,
                 'AggregatedFrame.__iter__ returns %s: the frame can be walked only once' % rets)
    d = prog.func('nfc.llcp.llc.LogicalLinkController.dispatch')
    loops = [l for l in ast.walk(d.node) if isinstance(l, ast.For) and norm(l.iter) == 'rcvd_pdu']
    disp = [l for l in loops if any(isinstance(c, ast.Call) and norm(c.func) == 'self.dispatch' for c in ast.walk(l))]
    report.check(len(disp) == 1, 'C10-R7', key(d.qname, 'every PDU of a received aggregate is dispatched'), d.loc(),
                 'dispatch() no longer walks the received aggregate to dispatch its PDUs')

def run(report, prog, tier):
    res = Resolver(prog)
    rule_sd_budget(report, prog, res)
    c11.rule_len(report, prog, res, rule='C10-R2')
    rule_collect(report, prog, res)
    rule_dequeue(report, prog, res)
    rule_gates(report, prog, res)
    rule_agf_iteration(report, prog, res)
    c11.rule_agf_members(report, prog, rule='C10-R7')
    c11.agf_retract(report, prog)
    from . import c05
    c05.rule_miu_writes(report, prog, rule='C10-R6')
    report.trusted += ['struct.calcsize semantics', 'len(x.encode()) == len(x) induction for aggregated PDUs']
    report.assumptions += ['raw access point sockets bypass the limit by design (named in the property)']


L = 'nfc.llcp.llc'
T = 'nfc.llcp.tco'
P = 'nfc.llcp.pdu'
MUTANTS = [
    ('sdres-loop-any-budget', L, 'while miu_size >= 4:', 'while miu_size > 0:', 'C10-R1'),
    ('sdres-cost-3', L, """                        send_pdu.sdres.append(self.sdres.popleft())
                        miu_size -= 4""", """                        send_pdu.sdres.append(self.sdres.popleft())
                        miu_size -= 3""", 'C10-R1'),
    ('sdreq-guard-off-by-one', L, 'if 3 + len(name) > miu_size:', 'if 2 + len(name) > miu_size:', 'C10-R1'),
    ('sdreq-guard-dropped', L, """                    if 3 + len(name) > miu_size:
                        self.sdreq.rotate(-1)
                    else:
                        send_pdu.sdreq.append(self.sdreq.popleft())
                        self.sent[tid] = name
                        miu_size -= 3 + len(name)""", """                    if True:
                        send_pdu.sdreq.append(self.sdreq.popleft())
                        self.sent[tid] = name
                        miu_size -= 3 + len(name)""", 'C10-R1'),
    ('agg-budget-minus-2', L, """                        agf_pdu.append(send_pdu)
                        miu_size = self.cfg["send-miu"] - len(agf_pdu) - 3
                        if miu_size < 0:
                            break
                if miu_size < 0 or deq_none:""", """                        agf_pdu.append(send_pdu)
                        miu_size = self.cfg["send-miu"] - len(agf_pdu) - 2
                        if miu_size < 0:
                            break
                if miu_size < 0 or deq_none:""", 'C10-R3'),
    ('agg-loop-unguarded', L, 'while miu_size >= 0:', 'while True:', 'C10-R3'),
    ('agg-no-recompute', L, """                        agf_pdu.append(send_pdu)
                        miu_size = self.cfg["send-miu"] - len(agf_pdu) - 3
                        if miu_size < 0:
                            break
                if miu_size < 0 or deq_none:""", """                        agf_pdu.append(send_pdu)
                if miu_size < 0 or deq_none:""", 'C10-R3'),
    ('agg-ack-no-break', L, """                            agf_pdu.append(send_pdu)
                            miu_size = self.cfg["send-miu"] - len(agf_pdu) - 3
                            if miu_size < 0:
                                break
""", """                            agf_pdu.append(send_pdu)
                            miu_size = self.cfg["send-miu"] - len(agf_pdu) - 3
""", 'C10-R3'),
    ('dequeue-compare-slack', T, 'pdu_size - send_pdu.header_size > miu_size)):', 'pdu_size - send_pdu.header_size > miu_size + 2)):', 'C10-R4'),
    ('dequeue-whole-length', T, 'pdu_size - send_pdu.header_size > miu_size)):', 'pdu_size - 2 * send_pdu.header_size > miu_size)):', 'C10-R4'),
    ('dequeue-icv-ignored', T, 'pdu_size = len(send_pdu) + icv_size', 'pdu_size = len(send_pdu)', 'C10-R4'),
    ('ldl-dequeue-unlimited', T, 'return super(LogicalDataLink, self).dequeue(miu_size, icv_size)',
     'return super(LogicalDataLink, self).dequeue(None, icv_size)', 'C10-R4'),
    ('i-pdu-len-short', P, 'return 3 + len(self.data)', 'return 2 + len(self.data)', 'C10-R2'),
    ('agf-len-without-length-field', P, 'return 2 + sum([2+len(pdu) for pdu in self._aggregate])',
     'return 2 + sum([len(pdu) for pdu in self._aggregate])', 'C10-R2'),
    ('snl-len-sdres-3', P, 'return 2 + (len(self.sdres) * 4) \\', 'return 2 + (len(self.sdres) * 3) \\', 'C10-R'),
    ('ldl-miu-not-copied', L, """                self.bind(socket)
            # FIXME: set socket send miu when activated
            socket.send_miu = self.cfg['send-miu']
            return socket.sendto(message, dest, flags)""", """                self.bind(socket)
            return socket.sendto(message, dest, flags)""", 'C10-R5'),
    ('connect-no-clamp', L, """        if socket.send_miu > self.cfg['send-miu']:
            log.warning("reducing outbound miu to not exceed the link miu")
            socket.send_miu = self.cfg['send-miu']""", """        pass""", 'C10-R5'),
    ('dlc-send-emsgsize-dropped', T, """            if len(message) > self.send_miu:
                raise err.Error(errno.EMSGSIZE)
            while""", """            while""", 'C10-R5'),
]
