# -*- coding: utf-8 -*-
"""C01 -- NDEF write then read round-trips on every tag type and layout (structural clauses)."""
import ast

from ..model import norm, head, walk_no_nested, AnalysisError, FuncInfo, ClassInfo, enclosing_stmt, ancestors, live
from ..cfg import cfg_of
from ..resolve import Resolver, Ctx
from ..q import (names_in, find, match, const, try_const, only_via, tests, stmt_nodes, one, fmt, cfg_node_for, linear, calls,
                 le_edge, edges_where)
from ..core import key

TAG = 'nfc.tag.Tag'
EXPLANATION = (
    'R1 the type specific write is reachable in the octets setter only after the writeable test and the capacity test '
    '(raise branches), and nothing that can talk to the tag precedes them (capacity is a plain attribute read in every NDEF '
    'class); R2 definite assignment: no variable that is only bound inside a loop is used after the loop on the '
    'zero-iteration path (CFG reachability with the loop-body edge removed) in any write/format/wipe routine; R3 the TLV '
    'length-format constants of writer and reader agree (threshold 255, marker 0xFF, big-endian 16 bit, value offset 2/4, '
    'advance 1/3) and the capacity adjustment never promises more than the writer can place, enumerated by the checker on '
    'the extracted constants for every raw size 0..65535; R4 every fragmenting loop of the Type 3/4 writers and readers '
    'covers the data exactly once: the Type 3 reader / writer and the Type 4 writer are folded by the checker with the tag commands '
    'modelled (rules/t3model.py, t4model.py) over grids of Nbr / Nbw / MLc / NLEN size x message length -- block lists partition '
    '1..ceil(len/16) with at most min(N, 15|13) blocks, the file ends up as NLEN + message; R5 the Type 3 attribute block writer '
    'folded for sample attributes produces the block of the specification and the reader folded on it returns the same attributes '
    '(and refuses a wrong checksum).  Equality of read-back octets for concrete memory images '
    'is not decided.')


def ndef_classes(prog):
    base = prog.cls(TAG + '.NDEF')
    return [c for c in prog.subclasses(base)]


def rule_gate(report, prog):
    f = prog.functions.get(TAG + '.NDEF.octets.setter')
    if f is None:
        raise AnalysisError('C01-R1: octets setter not found')
    cfg = cfg_of(f)
    w = [n for n in cfg.nodes if n.kind == 'stmt' and n.ast is not None and 'self._write_ndef_data(' in norm(n.ast)]
    if len(w) != 1:
        raise AnalysisError('C01-R1: write call not found in octets setter')
    e_wr = [(t, 'false') for e, t in cfg.test_nodes.items() if norm(e) == 'self._writeable'] + \
           [(t, 'true') for e, t in cfg.test_nodes.items() if norm(e) == 'self.is_writeable']
    # `if not self._writeable: raise` -> the test node holds `self._writeable` with swapped edges
    e_wr = [(t, 'true') for e, t in cfg.test_nodes.items() if norm(e) in ('self._writeable', 'self.is_writeable')]
    okk, p = only_via(cfg, w[0], e_wr)
    report.check(okk, 'C01-R1', key(f.qname, 'write only if the NDEF area is writeable'), f.loc(),
                 'the tag write is reachable for a read-only NDEF area', fmt(cfg, p))
    e_cap = edges_where(cfg, lambda e: le_edge(e, 'len(data)', 'self.capacity') or le_edge(e, 'len(data)', 'self._capacity'))
    okk, p = only_via(cfg, w[0], e_cap)
    report.check(okk, 'C01-R1', key(f.qname, 'write only if len(data) <= capacity'), f.loc(),
                 'data longer than the capacity is not rejected before the write', fmt(cfg, p))
    for t, lab in e_cap + e_wr:
        if isinstance(t.owner, ast.If):
            okk = any(isinstance(x, ast.Raise) for x in t.owner.body)
            report.check(okk, 'C01-R1', key(f.qname, 'failed gate raises', t.ast), f.loc(t.ast), 'gate does not raise')
    # the data compared is the data written
    okk = bool(find(f.node, 'data = bytearray(data)')) and bool(find(f.node, 'self._write_ndef_data(data)')) and \
        bool(find(f.node, 'self._data = data'))
    report.check(okk, 'C01-R1', key(f.qname, 'the checked octets are the octets written and remembered'), f.loc(),
                 'setter no longer writes / remembers the octets it checked')
    # nothing before the gates can reach the tag: calls before the write are bytearray()/len()/capacity only
    before = [c for c in calls(f.node) if cfg_node_for(cfg, c) is not None and cfg_node_for(cfg, c) is not w[0]
              and w[0] in cfg.reachable(cfg_node_for(cfg, c))]
    names = sorted(set(norm(c.func) for c in before if not norm(c.func).startswith(('log.', 'self.log.'))))
    report.check(set(names) <= {'bytearray', 'len', 'AttributeError', 'ValueError'}, 'C01-R1',
                 key(f.qname, 'no command can be sent before the gates'), f.loc(), 'calls before the write: %s' % names)
    for c in ndef_classes(prog):
        g = prog.lookup(c, 'capacity')
        okk = isinstance(g, FuncInfo) and g.kind == 'property' and [norm(s) for s in live(g.node.body) if not (isinstance(s, ast.Expr) and isinstance(s.value, ast.Constant))] == ['return self._capacity']
        report.check(okk, 'C01-R1', key(c.qname, 'capacity is a plain attribute read (no tag command)'), g.loc() if isinstance(g, FuncInfo) else c.qname,
                     'NDEF.capacity of %s does more than return self._capacity' % c.qname)


def unbound_uses(f, infeasible=None):
    """(variable, use node, loop) for variables bound only by a loop (target or body) and read after it on a path
    that skips the body."""
    cfg = cfg_of(f)
    out = []
    params = set(f.params)
    stores = {}
    for n in cfg.nodes:
        if n.ast is None:
            continue
        if n.kind == 'for':
            it = try_const(n.ast.iter)
            always = False
            try:
                always = it is not None and len(it) > 0
            except TypeError:
                always = False
            for x in ast.walk(n.ast.target):
                if isinstance(x, ast.Name):
                    # a loop over a constant non-empty sequence binds its target on every path
                    stores.setdefault(x.id, []).append((n, 'stmt' if always else 'for'))
        elif n.kind == 'stmt' and isinstance(n.ast, (ast.Assign, ast.AugAssign, ast.AnnAssign)):
            tg = n.ast.targets if isinstance(n.ast, ast.Assign) else [n.ast.target]
            for t in tg:
                for x in ast.walk(t):
                    if isinstance(x, ast.Name) and isinstance(x.ctx, ast.Store):
                        stores.setdefault(x.id, []).append((n, 'stmt'))
        elif n.kind == 'with':
            for it in n.ast.items:
                if it.optional_vars is not None:
                    for x in ast.walk(it.optional_vars):
                        if isinstance(x, ast.Name):
                            stores.setdefault(x.id, []).append((n, 'stmt'))
        elif n.kind == 'except' and n.ast.name:
            stores.setdefault(n.ast.name, []).append((n, 'stmt'))
        elif n.kind == 'stmt' and isinstance(n.ast, (ast.FunctionDef, ast.ClassDef)):
            stores.setdefault(n.ast.name, []).append((n, 'stmt'))
        elif n.kind == 'stmt' and isinstance(n.ast, (ast.Import, ast.ImportFrom)):
            for a in n.ast.names:
                stores.setdefault((a.asname or a.name).split('.')[0], []).append((n, 'stmt'))
    for var, defs in stores.items():
        if var in params:
            continue
        # a binding statement binds on its normal exit only: when it raises, the handler is entered with the name still unbound
        avoid_edges = [(n, 'body') for n, k in defs if k == 'for'] + \
                      [(n, lab) for n, k in defs if k == 'stmt' for m_, lab in n.succ if lab != 'exc']
        reach = cfg.reachable(cfg.entry, avoid_edges=avoid_edges + (infeasible(cfg) if infeasible else []))
        for n in cfg.nodes:
            if n not in reach or n.ast is None:
                continue
            exprs = []
            if n.kind == 'test':
                exprs = [n.ast]
            elif n.kind == 'stmt' and isinstance(n.ast, ast.stmt):
                if isinstance(n.ast, ast.AugAssign):
                    exprs = [n.ast.target, n.ast.value]
                elif isinstance(n.ast, (ast.FunctionDef, ast.ClassDef)):
                    exprs = []
                else:
                    exprs = [n.ast]
            elif n.kind == 'stmt':
                exprs = [n.ast]
            elif n.kind == 'for':
                exprs = []
            for e in exprs:
                for x in walk_no_nested(e):
                    if isinstance(x, ast.Name) and x.id == var and isinstance(x.ctx, ast.Load):
                        out.append((var, n, x))
    return out


def rule_unbound(report, prog):
    n = 0
    for c in prog.classes.values():
        if not c.module.name.startswith('nfc.tag'):
            continue
        for m in list(c.methods.values()):
            if m.name not in ('_write_ndef_data', '_format', '_wipe_ndef_data', '_read_ndef_data', '_write_to_tag',
                              '_read_from_tag', '_protect', '_write_attribute_data', '_read_attribute_data'):
                continue
            n += 1
            uses = unbound_uses(m)
            seen = set()
            for var, node, x in uses:
                if (var, node.id) in seen:
                    continue
                seen.add((var, node.id))
                report.fail('C01-R2', key(m.qname, 'variable bound on every path before use', var, enclosing_stmt(x) or x), m.loc(x),
                            '%s: `%s` is only bound inside a loop and is read at `%s` on the path where the loop body never runs '
                            '(UnboundLocalError, e.g. for an empty NDEF message)' % (m.qname, var, norm(enclosing_stmt(x) or x)[:70]))
            if not uses:
                report.ok('C01-R2', key(m.qname, 'every local is bound on every path before use'), m.loc())
    report.floor('C01-R2', n, 14)


def rule_tlv_format(report, prog):
    """Writer/reader agreement of the 1-byte / 3-byte NDEF TLV length format for Type 1 and Type 2."""
    res = {}
    for mod, tagcls in (('nfc.tag.tt1', 'Type1Tag'), ('nfc.tag.tt2', 'Type2Tag')):
        w = prog.func('%s.%s.NDEF._write_ndef_data' % (mod, tagcls))
        r = prog.func(mod + '.read_tlv')
        cap = prog.func(mod + '.get_capacity')
        rd = prog.func('%s.%s.NDEF._read_ndef_data' % (mod, tagcls))
        # writer
        thr = set()
        for e in ast.walk(w.node):
            if isinstance(e, ast.Compare) and norm(e.left) == 'len(data)' and isinstance(e.ops[0], ast.Lt):
                thr.add(try_const(e.comparators[0]))
        adv = [b for n_, b in find(w.node, 'offset += $A if len(data) < $T else $B')]
        marker = [try_const(b['V']) for n_, b in find(w.node, 'tag_memory[offset + 1] = $V') if try_const(b['V']) not in (0, None)]
        ext = [b for n_, b in find(w.node, "tag_memory[offset + 2:offset + 4] = pack($F, len(data))")]
        short = bool(find(w.node, 'tag_memory[offset + 1] = len(data)'))
        wspec = dict(threshold=thr, value_offset=(try_const(adv[0]['A']), try_const(adv[0]['B'])) if adv else None,
                     marker=marker, ext_fmt=try_const(ext[0]['F']) if ext else None, short=short)
        # reader
        rm = [try_const(e.comparators[0]) for e in ast.walk(r.node) if isinstance(e, ast.Compare) and norm(e.left) == 'tlv_l'
              and isinstance(e.ops[0], ast.Eq)]
        rf = [try_const(c.args[0]) for c in ast.walk(r.node) if isinstance(c, ast.Call) and norm(c.func) == 'unpack']
        rs = [norm(c.args[1]) for c in ast.walk(r.node) if isinstance(c, ast.Call) and norm(c.func) == 'unpack']
        radv = [b for n_, b in find(rd.node, 'offset += tlv_l + 1 + ($A if tlv_l < $T else $B)')]
        rspec = dict(marker=rm, ext_fmt=rf, ext_slice=rs, advance=(try_const(radv[0]['A']), try_const(radv[0]['T']), try_const(radv[0]['B'])) if radv else None)
        okk = wspec['threshold'] == {255} and wspec['value_offset'] == (2, 4) and wspec['marker'] == [255] and wspec['ext_fmt'] == '>H' \
            and wspec['short'] and rspec['marker'] == [255] and rspec['ext_fmt'] == ['>H'] and rspec['ext_slice'] == ['memory[offset:offset + 2]'] \
            and rspec['advance'] == (1, 255, 3)
        report.check(okk, 'C01-R3', key(mod, 'TLV length format: writer and reader agree'), w.loc(),
                     '%s: NDEF TLV length format differs between writer %r and reader %r' % (mod, wspec, rspec))
        # capacity adjustment
        adj = [b for n_, b in find(cap.node, 'capacity -= $A if capacity > $T else $B')]
        if not adj:
            report.fail('C01-R3', key(mod, 'capacity adjustment'), cap.loc(), 'capacity adjustment expression not found')
            continue
        A, T, B = try_const(adj[0]['A']), try_const(adj[0]['T']), try_const(adj[0]['B'])
        thr_v = 255
        bad = []
        for raw in range(0, 65536):
            capv = raw - (A if raw > T else B)
            if capv < 0:
                continue
            # longest message the writer can place in `raw` bytes: T byte + L (1 or 3) + value
            need = 1 + (1 if capv < thr_v else 3) + capv
            if need > raw:
                bad.append((raw, capv, need))
        report.check(not bad, 'C01-R3', key(mod, 'reported capacity fits the space for every raw size 0..65535'), cap.loc(),
                     '%s.get_capacity promises more than fits: (raw, capacity, needed) %s' % (mod, bad[:3]),
                     detail='65536 sizes enumerated with A=%s T=%s B=%s' % (A, T, B))
        res[mod] = (wspec, rspec, (A, T, B))
    if len(res) == 2:
        a, b = res['nfc.tag.tt1'], res['nfc.tag.tt2']
        report.check(repr(a) == repr(b), 'C01-R3', key('tt1 == tt2', 'sibling implementations agree on the TLV length format'),
                     'src/nfc/tag/tt1.py', 'tt1 and tt2 disagree: %r vs %r' % (a, b))


def rule_raw_capacity(report, prog, rule='C01-R3'):
    """Type 1 / Type 2 get_capacity(): the count the TLV adjustment starts from is the number of addresses from the NDEF TLV to
    the end of the data area that no Lock / Memory Control TLV reserves -- the statements in front of the adjustment are folded
    by the checker for a grid of layouts (area size, TLV offset, reserved sets inside, at the very end, outside the area) and
    compared with |[offset, end) - skip|.  A larger count lets the writer run past the data area or onto reserved bytes."""
    grid = []
    for size in (48, 64, 144, 496, 2040):
        for off in (0, 5, 12):
            for skip in (set(), {40, 41}, {size - 1}, {size + 8, size + 15}, {size + 16, size + 40}, {3, 4}, set(range(size - 4, size + 30))):
                grid.append((size, off, skip))
    for mod, end_of in (('nfc.tag.tt1', lambda p: p), ('nfc.tag.tt2', lambda p: p + 16)):
        cap = prog.func(mod + '.get_capacity')
        params = cap.params
        if len(params) != 3:
            raise AnalysisError('%s: %s.get_capacity signature changed' % (rule, mod))
        body = live(cap.node.body)
        adj = [i for i, s_ in enumerate(body) if isinstance(s_, ast.AugAssign) and norm(s_.target) == 'capacity']
        if not adj:
            raise AnalysisError('%s: %s.get_capacity: adjustment statement not found' % (rule, mod))
        pre = body[:adj[0]]
        bad = []
        folded = 0
        for size, o, skip in grid:
            base = 16 if mod == 'nfc.tag.tt2' else 0
            off = base + o
            env = {params[0]: size, params[1]: off, params[2]: frozenset(skip)}
            okk = True
            for s_ in pre:
                if isinstance(s_, ast.Assign) and len(s_.targets) == 1 and isinstance(s_.targets[0], ast.Name):
                    v = try_const(s_.value, env, default=NotImplemented)
                    if v is NotImplemented:
                        okk = False
                        break
                    env[s_.targets[0].id] = v
                else:
                    okk = False
                    break
            if not okk or not isinstance(env.get('capacity'), int):
                bad.append('cannot fold `%s`' % norm(s_)[:60])
                break
            folded += 1
            want = len(set(range(off, end_of(size))) - skip)
            if env['capacity'] != want:
                bad.append('area size %d, NDEF TLV at %d, reserved %s: counted %d usable bytes, there are %d'
                           % (size, off, sorted(skip)[:4], env['capacity'], want))
        report.check(not bad, rule, key(mod, 'usable byte count = addresses from the TLV to the end of the data area minus reserved ones'), cap.loc(),
                     '%s.get_capacity: %s' % (mod, '; '.join(bad[:2])), detail='%d layouts folded' % folded)


def rule_partition(report, prog):
    n = 0
    # Type 3 read / write block batching
    # reader and writer folded over Nbr / Nbw values x message lengths with the tag commands modelled (rules/t3model.py): the block
    # lists of the commands partition 1..ceil(len/16) in order with at most min(N, 15 | 13) blocks each, what is read back is the
    # message cut to Ln, what is written is the message padded to the block size between the two attribute writes
    from . import t3model
    for fn, verdicts, grid in (('_read_ndef_data', t3model.read_verdicts, t3model.READ_GRID), ('_write_ndef_data', t3model.write_verdicts, t3model.WRITE_GRID)):
        f = prog.func('nfc.tag.tt3.Type3Tag.NDEF.' + fn)
        n += 1
        bad = verdicts(prog)
        report.check(not bad, 'C01-R4', key(f.qname, 'blocks [i, min(i+N, last)) with stride N cover 1..last exactly once'), f.loc(),
                     'Type 3 block batching no longer partitions the block range: %s' % '; '.join(bad[:2]), detail='%d grid points folded' % len(grid))
        report.check(not bad, 'C01-R4', key(f.qname, 'last block = 1 + ceil(len / 16)'), f.loc(), 'block count formula changed: %s' % '; '.join(bad[:1]))
    f = prog.func('nfc.tag.tt3.Type3Tag.NDEF._write_ndef_data')
    report.check(not t3model.write_verdicts(prog), 'C01-R4', key(f.qname, 'Ln is the unpadded length, data padded to the block size afterwards'), f.loc(),
                 'length / padding order changed')
    f = prog.func('nfc.tag.tt3.Type3Tag.NDEF._read_ndef_data')
    report.check(not t3model.read_verdicts(prog), 'C01-R4', key(f.qname, 'padding stripped to Ln'), f.loc(),
                 'read data is not cut to the announced length')
    # Type 4
    from . import t4model
    rd = prog.func('nfc.tag.tt4.Type4Tag.NDEF._read_ndef_data')
    rp, rn = t4model.reader_offsets(prog)
    n += 1
    report.check(not rp, 'C01-R4', key(rd.qname, 'reads continue at nlen_size + bytes so far, remaining size'), rd.loc(),
                 'Type 4 reader folded against a file does not return the message: %s' % '; '.join(rp[:2]),
                 detail='folded for %d (NLEN width, capacity, announced length, MLe) points; the message must be the file content behind the length field' % rn)
    from . import t4model
    f = prog.func('nfc.tag.tt4.Type4Tag.NDEF._write_ndef_data')
    v = t4model.verdicts(prog)
    n += 1
    report.check(not v['fold'] and not v['final'], 'C01-R4', key(f.qname, 'next chunk starts where the previous one ended'), f.loc(),
                 'Type 4 write does not leave NLEN + message in the file: %s' % '; '.join((v['fold'] + v['final'])[:2]),
                 detail='folded over %d grid points' % len(t4model.GRID))
    for fn in ('_wipe_ndef_data',):
        f = prog.func('nfc.tag.tt4.Type4Tag.NDEF.' + fn)
        n += 1
        okk = any(isinstance(l, ast.While) and [norm(s) for s in live(l.body)] == ['offset += self._update_binary(offset, data[offset:])']
                  for l in walk_no_nested(f.node))
        report.check(okk, 'C01-R4', key(f.qname, 'next chunk starts where the previous one ended'), f.loc(),
                     'Type 4 write loop no longer advances by the chunk it wrote')
    ub = prog.func('nfc.tag.tt4.Type4Tag.NDEF._update_binary')
    okk = bool(find(ub.node, 'max_data = min(self._max_lc, len(data))')) and bool(find(ub.node, 'return max_data')) and \
        any(isinstance(c, ast.Call) and norm(c.func) == 'self.tag.send_apdu' and norm(c.args[-1]) == 'data[:max_data]' for c in ast.walk(ub.node)) and \
        bool(find(ub.node, "p1, p2 = pack('>H', offset)"))
    n += 1
    report.check(okk, 'C01-R4', key(ub.qname, 'sends data[:n] at offset and returns n'), ub.loc(), 'UPDATE BINARY chunk/return disagree')
    rb = prog.func('nfc.tag.tt4.Type4Tag.NDEF._read_binary')
    okk = bool(find(rb.node, 'max_data = min(self._max_le, size)')) and bool(find(rb.node, "p1, p2 = pack('>H', offset)"))
    n += 1
    report.check(okk, 'C01-R4', key(rb.qname, 'reads min(MLe, size) at offset'), rb.loc(), 'READ BINARY chunking changed')
    # NLEN handling in the writer
    w = prog.func('nfc.tag.tt4.Type4Tag.NDEF._write_ndef_data')
    okk = bool(find(w.node, 'nlen = bytearray(pack(lfmt, len(data)))')) and bool(find(w.node, "lfmt = '>I' if self._nlen_size == 4 else '>H'"))
    report.check(okk, 'C01-R4', key(w.qname, 'NLEN = len(data) in the size of the mapping version'), w.loc(), 'NLEN encoding changed')
    report.floor('C01-R4', n, 7)


def rule_attr(report, prog):
    r = prog.func('nfc.tag.tt3.Type3Tag.NDEF._read_attribute_data')
    w = prog.func('nfc.tag.tt3.Type3Tag.NDEF._write_attribute_data')
    # field offsets: writer and reader folded (checker's own evaluator) with the block commands modelled -- the writer produces the
    # attribute block of the specification and the reader gets the same attributes back from it
    from ..q import fold_block, NotConst
    import struct as _st

    def body_of(fn):
        b = list(fn.node.body)
        return b[1:] if b and isinstance(b[0], ast.Expr) and isinstance(b[0].value, ast.Constant) else b
    funcs = {'pack': _st.pack, 'unpack': _st.unpack} if any(
        isinstance(x, ast.ImportFrom) and x.module == 'struct' and {a.name for a in x.names} >= {'pack', 'unpack'} for x in prog.modules['nfc.tag.tt3'].tree.body) else {}
    okk = True
    reads = writes = None
    for attrs in ({'ver': 0x10, 'nbr': 4, 'nbw': 1, 'nmaxb': 0x0123, 'writef': 0, 'rwflag': 1, 'ln': 0x010203},
                  {'ver': 0x11, 'nbr': 15, 'nbw': 13, 'nmaxb': 0xFFFE, 'writef': 0x0F, 'rwflag': 0, 'ln': 0xFEDCBA},
                  {'ver': 0x10, 'nbr': 0, 'nbw': 0, 'nmaxb': 0, 'writef': 0, 'rwflag': 0, 'ln': 0}):
        sent = []
        env = {'attributes': dict(attrs), '__funcs__': funcs,
               '__calls__': {'self._tag.write_to_ndef_service': lambda d, *blocks: sent.append((bytes(d), blocks))}}
        try:
            fold_block(body_of(w), env)
        except (NotConst, IndexError, TypeError, ValueError, KeyError) as e:
            okk, writes = False, 'writer cannot be folded: %s' % e
            break
        spec = bytes([attrs['ver'], attrs['nbr'], attrs['nbw']]) + _st.pack('>H', attrs['nmaxb']) + bytes(4) + \
            bytes([attrs['writef'], attrs['rwflag']]) + _st.pack('>I', attrs['ln'])[1:]
        spec += _st.pack('>H', sum(spec))
        if sent != [(spec, (0,))]:
            okk, writes = False, 'writer sends %s, the attribute block for %r is %s' % ([(d.hex(), b) for d, b in sent], attrs, spec.hex())
            break
        for blk, want in ((spec, attrs), (spec[:5] + b'\x01' + spec[6:], None)):
            env = {'__funcs__': funcs, '__calls__': {'self._tag.read_from_ndef_service': lambda *blocks: bytearray(blk) if blocks == (0,) else None}}
            try:
                r_ = fold_block(body_of(r), env)
            except (NotConst, IndexError, TypeError, ValueError, KeyError) as e:
                okk, reads = False, 'reader cannot be folded: %s' % e
                break
            if r_ != ('return', want):
                okk, reads = False, 'reader gets %r from %s' % (r_[1], blk.hex())
                break
            if want is not None and (env.get('self._capacity'), env.get('self._writeable'), env.get('self._readable')) != (
                    attrs['nmaxb'] * 16, attrs['rwflag'] != 0 and attrs['nbw'] > 0, attrs['writef'] == 0 and attrs['nbr'] > 0):
                okk, reads = False, 'reader derives capacity/writeable/readable %r' % ((env.get('self._capacity'), env.get('self._writeable'), env.get('self._readable')),)
                break
        if not okk:
            break
    report.check(okk, 'C01-R5', key('nfc.tag.tt3', 'attribute checksum: sum of bytes 0..13, big endian at 14..15, reader == writer'), r.loc(),
                 'Type 3 attribute checksum / layout differs between reader and writer: %s' % (reads or writes))
    report.check(okk, 'C01-R5', key('nfc.tag.tt3', 'attribute block field offsets: reader == writer'), w.loc(),
                 'attribute block layout differs: reader %r writer %r' % (reads, writes))
    okk = bool(find(r.node, 'self._capacity = nmaxb * 16'))
    report.check(okk, 'C01-R5', key(r.qname, 'capacity = Nmaxb * 16'), r.loc(), 'Type 3 capacity formula changed')
    # the dictionary keys match the local names
    d = [x for x in ast.walk(r.node) if isinstance(x, ast.Dict)]
    okk = len(d) == 1 and {try_const(k): norm(v) for k, v in zip(d[0].keys, d[0].values)} == {
        'ver': 'ver', 'nbr': 'nbr', 'nbw': 'nbw', 'nmaxb': 'nmaxb', 'writef': 'writef', 'rwflag': 'rwflag', 'ln': 'length'}
    report.check(okk, 'C01-R5', key(r.qname, 'attribute dictionary maps each name to its field'), r.loc(), 'attribute dictionary changed')



def rule_emulation_limits(report, prog):
    """R5 (emulated Type 3 Tag): Read Without Encryption serves up to 15 blocks per command (the largest Nbr the attribute block
    can announce); the emulation refuses 16 and more, not fewer -- otherwise a reader that uses the announced Nbr gets status A2h."""
    f = prog.func('nfc.tag.tt3.Type3TagEmulation.read_without_encryption')
    tests_ = [i for i in walk_no_nested(f.node) if isinstance(i, ast.If) and 'len(service_block_list)' in norm(i.test) and
              any(isinstance(x, ast.Return) for x in i.body)]
    okk = len(tests_) == 1
    refused = []
    if okk:
        for n in range(0, 18):
            v = try_const(tests_[0].test, {'len(service_block_list)': n})
            if v is None:
                okk = False
                break
            if v:
                refused.append(n)
        okk = okk and refused == [16, 17]
    report.check(okk, 'C01-R5', key(f.qname, 'block count limit: 1..15 served, 16+ refused'), f.loc(tests_[0]) if tests_ else f.loc(),
                 'the emulated tag refuses read commands with %s blocks (expected: 16 and more)' % (refused or 'an unrecognised set of'))

def rule_tt4_layout(report, prog, rule='C01-R6'):
    """Type 4 Tag: for every control TLV tag the discovery accepts, the NLEN width it records is the width of the length
    field of that mapping (T=04h: 2 octets, T=06h: 4 octets, the struct format the reader/writer derive from it has that
    size) and the capacity it reports is the file size minus that width -- decided by folding the assigned expressions for
    each accepted tag over a set of file sizes (locals assigned from foldable expressions are followed)."""
    import struct
    d = prog.func('nfc.tag.tt4.Type4Tag.NDEF._discover_ndef')
    tags = None
    for i_ in walk_no_nested(d.node):
        if isinstance(i_, ast.If) and 'tag' in names_in(i_.test) and any(isinstance(x, ast.Return) for x in i_.body):
            acc = []
            for t in range(0, 256):
                for l in range(0, 10):
                    v = try_const(i_.test, {'tag': t, 'len(val)': l})
                    if v is None:
                        acc = None
                        break
                    if not v:
                        acc.append((t, l))
                if acc is None:
                    break
            if acc is not None and len(acc) < 20:
                tags = acc
    report.check(tags == [(4, 6), (6, 8)], rule, key(d.qname, 'accepted control TLV tags / value lengths are (4, 6) and (6, 8)'), d.loc(),
                 'accepted NDEF file control TLV set is %s' % (tags,))
    if not tags:
        return
    problems = []
    from . import t4model
    limit, limit_why = t4model.address_limit(prog)      # first file offset that READ / UPDATE BINARY as built here cannot address
    for tag, _ in tags:
        for mfs in (5, 64, 255, 256, 2048, 32767, 32768, 65535, 65536, 65537, 65540, 2 ** 17, 2 ** 32 - 1):
            env = {'tag': tag, 'mfs': mfs, 'mle': 255, 'mlc': 255, 'rf': 0, 'wf': 0}
            attrs = {}
            seen_unpack = False
            for s in walk_no_nested(d.node):
                if not isinstance(s, ast.Assign) or len(s.targets) != 1:
                    continue
                t = s.targets[0]
                if isinstance(t, ast.Tuple) and 'mfs' in [norm(e) for e in t.elts]:
                    seen_unpack = True
                    continue
                if not seen_unpack:
                    continue
                v = try_const(s.value, env)
                if isinstance(t, ast.Name) and v is not None and t.id not in ('tag', 'mfs'):
                    env[t.id] = v
                elif isinstance(t, ast.Attribute) and norm(t) in ('self._capacity', 'self._nlen_size'):
                    if norm(t) in attrs or v is None:
                        problems.append('%s assigned more than once or not foldable' % norm(t))
                    attrs[norm(t)] = v
                    env[norm(t)] = v
            want = {4: 2, 6: 4}[tag]
            if attrs.get('self._nlen_size') != want:
                problems.append('tag %d: NLEN width %r, expected %d' % (tag, attrs.get('self._nlen_size'), want))
            else:
                cap = attrs.get('self._capacity')
                usable = mfs if limit is None else min(mfs, limit)      # octets of the file this reader / writer can reach
                if not isinstance(cap, int) or cap > mfs - want:
                    problems.append('tag %d, file size %d: capacity %r, the file holds %d message octets behind the %d octet length field'
                                    % (tag, mfs, cap, mfs - want, want))
                elif cap > usable - want:
                    problems.append('tag %d, file size %d: capacity %r, but READ / UPDATE BINARY as built cannot address the file from offset %d on '
                                    '(%s): at most %d message octets are reachable' % (tag, mfs, cap, limit, limit_why, usable - want))
    report.check(not problems, rule, key(d.qname, 'capacity <= reachable file size - NLEN width, NLEN width 2 (T=04h) / 4 (T=06h)'), d.loc(),
                 '; '.join(sorted(set(problems))[:3]),
                 detail='folded for 13 file sizes per mapping; addressable offsets end at %s' % (limit,))
    n = 0
    for fn in ('_read_ndef_data', '_write_ndef_data', '_wipe_ndef_data'):
        f = prog.func('nfc.tag.tt4.Type4Tag.NDEF.' + fn)
        for s in walk_no_nested(f.node):
            if isinstance(s, ast.Assign) and norm(s.targets[0]) == 'lfmt':
                n += 1
                bad = [w for w in (2, 4) if not isinstance(try_const(s.value, {'self._nlen_size': w}), str)
                       or struct.calcsize(try_const(s.value, {'self._nlen_size': w})) != w
                       or not try_const(s.value, {'self._nlen_size': w}).startswith('>')]
                report.check(not bad, rule, key(f.qname, 'length field format is big-endian and as wide as the NLEN width'), f.loc(s),
                             'length field format for NLEN width %s is not a big-endian field of that width' % bad)
    report.floor(rule, n, 3)


def _shift_of(expr, defs, var):
    """expr as `var >> k` (after following single-assignment locals): returns k or None."""
    k = 0
    while True:
        if isinstance(expr, ast.Name) and expr.id == var:
            return k
        if isinstance(expr, ast.Name) and expr.id in defs:
            expr = defs[expr.id]
            continue
        if isinstance(expr, ast.BinOp) and isinstance(expr.op, ast.RShift) and isinstance(try_const(expr.right), int):
            k += try_const(expr.right)
            expr = expr.left
            continue
        if isinstance(expr, ast.BinOp) and isinstance(expr.op, ast.FloorDiv) and isinstance(try_const(expr.right), int) \
                and try_const(expr.right) > 0 and try_const(expr.right) & (try_const(expr.right) - 1) == 0:
            k += try_const(expr.right).bit_length() - 1
            expr = expr.left
            continue
        return None


def rule_image_flush(report, prog, rule='C01-R6'):
    """Type 1 / Type 2 memory image: `__init__`, a series of `__setitem__` stores (bytes, slices across page / block / sector
    boundaries) and the flush of synchronize() folded in one environment against a modelled tag (rules/imgmodel.py): afterwards the
    tag holds exactly the cache, and every command could be carried out (WRITE-E only below the limit Type1Tag.write_byte accepts, for
    static, Topaz-512 and other dynamic header ROM values)."""
    from . import imgmodel
    v = imgmodel.verdicts(prog)
    for kind in ('tt1', 'tt2'):
        f = prog.func('nfc.tag.%s.Type%sTagMemoryReader._write_to_tag' % (kind, kind[2]))
        problems, runs = v[kind]
        report.check(not problems, rule, key(f.qname, 'folded image: after stores and the flush the tag holds the cache, every command is one the tag can carry out'),
                     f.loc(), '; '.join(problems[:2]), detail='%d store series folded over %s' % (runs, [c[1:] for c in imgmodel.CASES if c[0] == kind]))


def rule_tt2_memory_units(report, prog, rule='C01-R6'):
    """Type 2 Tag memory image: both the loader and the flush address the tag from the byte index of the image: sector =
    index >> 10 (1 KiB sectors), page = index >> 2 (4 octet pages), index advances by exactly what one command moves (16
    read, 4 written) and the slices moved have that width."""
    n = 0
    for fn, cmd, stride in (('_read_from_tag', 'read', 16), ('_write_to_tag', 'write', 4)):
        f = prog.func('nfc.tag.tt2.Type2TagMemoryReader.' + fn)
        loops = [l for l in walk_no_nested(f.node) if isinstance(l, ast.For) and isinstance(l.iter, ast.Call) and norm(l.iter.func) == 'range'
                 and len(l.iter.args) == 3 and isinstance(l.target, ast.Name)]
        if len(loops) != 1:
            from . import imgmodel
            if fn == '_write_to_tag' and not any('cannot fold' in p_ for p_ in imgmodel.verdicts(prog)['tt2'][0]):
                n += 4      # the flush has another form: its addressing is decided by the folded image (rule_image_flush)
                continue
            report.deficits.append('%s: %s: single counting loop over the byte index not found' % (rule, f.qname))
            continue
        var = loops[0].target.id
        defs = {}
        for s in ast.walk(loops[0]):
            if isinstance(s, ast.Assign) and len(s.targets) == 1 and isinstance(s.targets[0], ast.Name) and s.targets[0].id != var:
                if s.targets[0].id in defs:
                    defs[s.targets[0].id] = None
                else:
                    defs[s.targets[0].id] = s.value
        defs = {k: v for k, v in defs.items() if v is not None}
        sel = [c for c in calls(loops[0]) if norm(c.func) == 'self._tag.sector_select']
        xfer = [c for c in calls(loops[0]) if norm(c.func) == 'self._tag.' + cmd]
        if len(sel) != 1 or len(xfer) != 1:
            report.deficits.append('%s: %s: sector_select / %s call not found' % (rule, f.qname, cmd))
            continue
        n += 1
        report.check(len(sel[0].args) == 1 and _shift_of(sel[0].args[0], defs, var) == 10, rule,
                     key(f.qname, 'sector = byte index >> 10'), f.loc(sel[0]),
                     'the sector selected before the %s is not the 1 KiB sector of the byte index (%s)' % (cmd, norm(sel[0])))
        n += 1
        report.check(len(xfer[0].args) >= 1 and _shift_of(xfer[0].args[0], defs, var) == 2, rule,
                     key(f.qname, 'page = byte index >> 2'), f.loc(xfer[0]),
                     'the page of the %s command is not the 4 octet page of the byte index (%s)' % (cmd, norm(xfer[0])))
        cfg = cfg_of(f)
        selnode, xnode = cfg_node_for(cfg, sel[0]), cfg_node_for(cfg, xfer[0])
        n += 1
        report.check(xnode not in cfg.reachable(cfg.entry, avoid_nodes=[selnode]), rule, key(f.qname, 'sector selected before every %s' % cmd), f.loc(xfer[0]),
                     'a %s command can be sent without selecting the sector of its page first' % cmd)
        n += 1
        report.check(try_const(loops[0].iter.args[2]) == stride and not any(isinstance(s, ast.Continue) for s in ast.walk(loops[0])), rule,
                     key(f.qname, 'index advances by %d per iteration' % stride), f.loc(loops[0]),
                     'loop stride is not the %d octets one %s command moves' % (stride, cmd))
    # the sector the tag object believes to be selected is the sector the tag has selected: the belief is updated only after the
    # SECTOR SELECT exchange can no longer fail (no command and no raise after the store), else a failed select followed by a retry
    # skips the command and page numbers are sent to the wrong sector
    ss = prog.func('nfc.tag.tt2.Type2Tag.sector_select')
    cfg = cfg_of(ss)
    stores = [x for x in cfg.nodes if x.kind == 'stmt' and isinstance(x.ast, ast.Assign) and any(norm(t) == 'self._current_sector' for t in x.ast.targets)]
    okk = len(stores) == 1
    for st_ in stores:
        after = cfg.reachable(st_)
        for x in after:
            if x is st_ or x.ast is None:
                continue
            if isinstance(x.ast, ast.Raise) or any(isinstance(c, ast.Call) and norm(c.func) in ('self.transceive', 'self.clf.exchange')
                                                   for c in (ast.walk(x.ast) if not isinstance(x.ast, (ast.FunctionDef, ast.ClassDef)) else [])):
                okk = False
    n += 1
    report.check(okk, rule, key(ss.qname, 'current sector recorded only after the select has succeeded'), ss.loc(stores[0].ast) if stores else ss.loc(),
                 'sector_select() records the new sector before the SECTOR SELECT exchange is through: after a failed select the next call '
                 'believes the sector is selected and sends page numbers to the old sector')
    report.floor(rule, n, 9)


def rule_t3_identity(report, prog, rule='C01-R7'):
    """Type 3 Tag: commands are addressed with the IDm of the *system* that was polled last.  Wherever a routine switches the tag
    object to another system code it takes IDm and PMm from the answer of that very polling command (a card with several systems
    answers each with its own IDm) -- the three are updated together, the polling first."""
    n = 0
    for q, f in sorted(prog.functions.items()):
        if not q.startswith(('nfc.tag.tt3.', 'nfc.tag.tt3_sony.')) or f.name == '__init__':
            continue
        stores = [st for st in walk_no_nested(f.node) if isinstance(st, ast.Assign) and any(
            isinstance(t, ast.Attribute) and t.attr == 'sys' for t in st.targets)]
        if not stores:
            continue
        cfg = cfg_of(f)
        for st in stores:
            n += 1
            obj = norm([t for t in st.targets if isinstance(t, ast.Attribute) and t.attr == 'sys'][0].value)
            polls = [a for a in walk_no_nested(f.node) if isinstance(a, ast.Assign) and isinstance(a.value, ast.Call) and
                     isinstance(a.value.func, ast.Attribute) and a.value.func.attr == 'polling' and isinstance(a.targets[0], ast.Tuple)
                     and len(a.targets[0].elts) == 2]
            okk = False
            for a in polls:
                t0, t1 = a.targets[0].elts
                direct = norm(t0) == obj + '.idm' and norm(t1) == obj + '.pmm'
                via = isinstance(t0, ast.Name) and isinstance(t1, ast.Name) and \
                    bool(find(f.node, '%s.idm = %s' % (obj, t0.id))) and bool(find(f.node, '%s.pmm = %s' % (obj, t1.id)))
                same_code = a.value.args and norm(a.value.args[0]) == norm(st.value)
                if (direct or via) and same_code and cfg.dominates(cfg.node_of(a), cfg.node_of(st)):
                    okk = True
            report.check(okk, rule, key(f.qname, 'system code, IDm and PMm are switched together from one polling answer', st), f.loc(st),
                         '%s sets %s.sys without taking IDm / PMm from the polling answer for that system: later commands carry the IDm of '
                         'another system and the card refuses them' % (f.qname, obj))
    report.floor(rule, n, 2)


def run(report, prog, tier):
    rule_emulation_limits(report, prog)
    rule_t3_identity(report, prog)
    rule_tt4_layout(report, prog)
    rule_tt2_memory_units(report, prog)
    rule_image_flush(report, prog)
    from .c03 import rule_tlv_writer, rule_skip_set_complete
    rule_tlv_writer(report, prog, rule='C01-R3')
    rule_skip_set_complete(report, prog, rule='C01-R3')
    from .c03 import rule_control_tlv_dispatch
    rule_control_tlv_dispatch(report, prog, rule='C01-R3')
    rule_gate(report, prog)
    rule_unbound(report, prog)
    rule_tlv_format(report, prog)
    rule_raw_capacity(report, prog)
    rule_partition(report, prog)
    rule_attr(report, prog)
    report.trusted += ['NFC Forum T1T/T2T: NDEF TLV with 1-byte length < 255 or FF + 16-bit big-endian length',
                       'NFC Forum T3T attribute block layout, T4T NLEN + READ/UPDATE BINARY']
    report.assumptions += ['memory images are well-formed as the property states; value-level round trip is not decided']


MUTANTS = [
    ('tt1-flush-block-write-only-for-topaz512', 'nfc.tag.tt1', "        if hr0 >> 4 == 1 and hr0 & 0x0F != 1:", "        if hr0 == 0x12:", 'C01-R6'),
    ('tt2-flush-skips-odd-pages', 'nfc.tag.tt2', "            index += 4\n", "            index += 8\n", 'C01-R6'),
    ('tt3-ndef-system-keeps-old-idm', 'nfc.tag.tt3', "                    self.tag.idm, self.tag.pmm = self._tag.polling(0x12FC)\n", "                    self._tag.polling(0x12FC)\n", 'C01-R7'),
    ('capacity-gate-dropped', 'nfc.tag', """            if len(data) > self.capacity:
                raise ValueError("data length exceeds tag capacity")
""", "", 'C01-R1'),
    ('capacity-gate-ge', 'nfc.tag', "if len(data) > self.capacity:", "if len(data) > self.capacity + 1:", 'C01-R1'),
    ('writeable-gate-dropped', 'nfc.tag', """            if not self._writeable:
                raise AttributeError("tag ndef area is not writeable")
""", "", 'C01-R1'),
    ('write-before-gate', 'nfc.tag', """            if len(data) > self.capacity:
                raise ValueError("data length exceeds tag capacity")
            self._write_ndef_data(data)""", """            self._write_ndef_data(data)
            if len(data) > self.capacity:
                raise ValueError("data length exceeds tag capacity")""", 'C01-R1'),
    ('tt2-terminator-from-loop-var', 'nfc.tag.tt2', "            offset = offset + len(data)\n", "            offset = offset + index + 1\n", 'C01-R2'),
    ('tt1-terminator-from-loop-var', 'nfc.tag.tt1', "            offset = offset + len(data)\n", "            offset = offset + i + 1\n", 'C01-R2'),
    ('tt2-writer-threshold-256', 'nfc.tag.tt2', """            if len(data) < 255:
                tag_memory[offset+1] = len(data)""", """            if len(data) < 256:
                tag_memory[offset+1] = len(data)""", 'C01-R3'),
    ('tt1-reader-advance', 'nfc.tag.tt1', "offset += tlv_l + 1 + (1 if tlv_l < 255 else 3)", "offset += tlv_l + 1 + (1 if tlv_l < 256 else 3)", 'C01-R3'),
    ('tt2-ext-length-little-endian', 'nfc.tag.tt2', 'tag_memory[offset+2:offset+4] = pack(">H", len(data))', 'tag_memory[offset+2:offset+4] = pack("<H", len(data))', 'C01-R3'),
    ('tt2-capacity-adjust', 'nfc.tag.tt2', "capacity -= 4 if capacity > 256 else 2", "capacity -= 2 if capacity > 256 else 2", 'C01-R3'),
    ('tt1-capacity-threshold', 'nfc.tag.tt1', "capacity -= 4 if capacity > 256 else 2", "capacity -= 4 if capacity > 260 else 2", 'C01-R3'),
    ('tt2-value-offset', 'nfc.tag.tt2', "offset += 2 if len(data) < 255 else 4", "offset += 2 if len(data) < 255 else 3", 'C01-R3'),
    ('tt3-write-stride', 'nfc.tag.tt3', "for i in range(1, last_block_number, nbw):", "for i in range(1, last_block_number, nbw + 1):", 'C01-R4'),
    ('tt3-read-stride-source', 'nfc.tag.tt3', "nbr = min(attributes['nbr'], 15)", "nbr = min(attributes['nbw'], 15)", 'C01-R4'),
    ('tt3-write-slice', 'nfc.tag.tt3', "block_data = data[(i-1)*16:(last_block-1)*16]", "block_data = data[(i-1)*16:last_block*16]", 'C01-R4'),
    ('tt3-read-last-block', 'nfc.tag.tt3', "last_block_number = 1 + (attributes['ln'] + 15) // 16", "last_block_number = 1 + attributes['ln'] // 16", 'C01-R4'),
    ('tt3-ln-padded', 'nfc.tag.tt3', """            attributes['ln'] = len(data)  # because we may need to pad zeros
            data = data + bytearray(-len(data) % 16)  # adjust to block size""", """            data = data + bytearray(-len(data) % 16)  # adjust to block size
            attributes['ln'] = len(data)  # because we may need to pad zeros""", 'C01-R4'),
    ('tt4-update-returns-len', 'nfc.tag.tt4', """            self.tag.send_apdu(0, 0xD6, p1, p2, data[:max_data])
            return max_data""", """            self.tag.send_apdu(0, 0xD6, p1, p2, data[:max_data])
            return len(data)""", 'C01-R4'),
    ('tt4-capacity-unclamped', 'nfc.tag.tt4', "self._capacity = min(mfs, 0x10000) - tag + 2", "self._capacity = mfs - tag + 2", 'C01-R6'),
    ('tt4-capacity-clamp-one-over', 'nfc.tag.tt4', "self._capacity = min(mfs, 0x10000) - tag + 2", "self._capacity = min(mfs, 0x10001) - tag + 2", 'C01-R6'),
    ('tt4-capacity-ignores-enlen', 'nfc.tag.tt4', "self._capacity = min(mfs, 0x10000) - tag + 2", "self._capacity = min(mfs, 0x10000) - 2", 'C01-R6'),
    ('tt4-nlen-width', 'nfc.tag.tt4', "self._nlen_size = tag - 2", "self._nlen_size = 2", 'C01-R6'),
    ('tt2-flush-sector-unit', 'nfc.tag.tt2', "                self._tag.sector_select(index >> 10)\n                self._tag.write(index >> 2, data)",
     "                self._tag.sector_select(index >> 12)\n                self._tag.write(index >> 2, data)", 'C01-R6'),
    ('tt2-load-page-unit', 'nfc.tag.tt2', "data = self._tag.read(index >> 2)", "data = self._tag.read(index >> 4)", 'C01-R6'),
    ('tt4-read-offset', 'nfc.tag.tt4', "offset = self._nlen_size + len(data)", "offset = len(data)", 'C01-R4'),
    ('tt3-checksum-range', 'nfc.tag.tt3', "attribute_data[14:16] = pack('>H', sum(attribute_data[0:14]))\n            self._tag.write_to_ndef_service", "attribute_data[14:16] = pack('>H', sum(attribute_data[0:13]))\n            self._tag.write_to_ndef_service", 'C01-R5'),
    ('tt3-nbw-offset', 'nfc.tag.tt3', "attribute_data[2] = attributes['nbw']", "attribute_data[2] = attributes['nbr']", 'C01-R5'),
    ('tt3-ln-field', 'nfc.tag.tt3', "attribute_data[11:14] = pack('>I', attributes['ln'])[1:4]", "attribute_data[11:14] = pack('>I', attributes['ln'])[0:3]", 'C01-R5'),
]

EXPLANATION += ' Round 5: the Type 1 / 2 memory image classes folded as objects (init, byte and slice stores across unit boundaries, flush) against a modelled tag that refuses what the real command refuses; the Type 1 / 2 TLV writers folded over layouts with reserved bytes in, up to and across the end of the data area; Type 4 capacity bounded by the offset READ / UPDATE BINARY as built can carry, reader folded with content; Type 3 commands within the frame budget.'
