# -*- coding: utf-8 -*-
"""C19 -- peer-to-peer activation negotiates limits both sides then obey (structural clauses)."""
import ast

from ..model import norm, head, walk_no_nested, AnalysisError, FuncInfo, enclosing_stmt, ancestors
from ..cfg import cfg_of
from ..resolve import Resolver, Ctx
from ..symlen import LenEval, show, Unsupported
from ..q import (find, match, const, try_const, only_via, tests, stmt_nodes, one, fmt, cfg_node_for, linear, calls, through_locals)
from ..core import key

LLC = 'nfc.llcp.llc.LogicalLinkController'
DEP = 'nfc.dep'
EXPLANATION = (
    'R1 provenance by def-use: the sending limits (LLCP send-miu, recv-lto, send-wks, send-lsc; NFC-DEP Initiator.miu, '
    'Target.miu) are assigned from the decode of what the peer announced (PAX in the general bytes, ATR_RES / ATR_REQ) and '
    'the announcements we send take the local options; R2 the LR / BRS / bit-rate tables, PP/PPI bit positions, option '
    'clamps, WT mask and the RWT formula are mutually consistent (evaluated by the checker over the whole option grid on '
    'the extracted expressions); R3 connect() forwards exactly the documented NFC-DEP options (the keyword dictionary folded for sample option sets, the role names folded to nfc.dep.Target / Initiator) and the link controller reads '
    'the documented LLCP options; R4 the NFC-DEP payload budget equals LR minus the overhead of the DEP PDU encoder '
    '(symlen) including the optional DID/NAD bytes the role can use.  That two live stacks agree after negotiating is not '
    'decided.')


def assigned_value(f, target_text):
    out = []
    for st in walk_no_nested(f.node):
        if isinstance(st, ast.Assign) and any(norm(t) == target_text for t in st.targets):
            out.append(st)
    return out


def rule_dep_miu(report, prog, rule='C19-R1'):
    """The NFC-DEP payload limit each role sends with derives from the length reduction the *peer* announced (ATR_RES / ATR_REQ)."""
    for q, src_var, dec in ((DEP + '.Initiator.activate', 'atr_res', 'ATR_RES'), (DEP + '.Target.activate', 'atr_req', 'ATR_REQ')):
        g = prog.func(q)
        sts = assigned_value(g, 'self.miu')
        okk = len(sts) == 1 and ('%s.lr' % src_var) in norm(sts[0].value) and 'self.lr' not in norm(sts[0].value)
        report.check(okk, rule, key(q, 'self.miu derives from the peer\'s %s.lr' % src_var), g.loc(sts[0]) if sts else g.loc(),
                     'NFC-DEP payload limit is not derived from the length reduction announced by the peer: %s' %
                     [norm(s.value) for s in sts])
        defs = assigned_value(g, src_var)
        srcs = sorted(set(norm(s.value) for s in defs))
        if dec == 'ATR_RES':
            okk = srcs == ['ATR_RES.decode(self.target.atr_res)', 'None', 'self.send_req_recv_res(atr_req, 1.0)'] or \
                srcs == ['ATR_RES.decode(self.target.atr_res)', 'self.send_req_recv_res(atr_req, 1.0)']
        else:
            okk = srcs == ['ATR_REQ.decode(target.atr_req)']
        # `atr_res = psl_res = None` is a chained assignment: collect separately
        if not okk and dec == 'ATR_RES':
            okk = set(srcs) <= {'ATR_RES.decode(self.target.atr_res)', 'None', 'self.send_req_recv_res(atr_req, 1.0)'} \
                and 'ATR_RES.decode(self.target.atr_res)' in srcs
        report.check(okk, rule, key(q, '%s is what the peer sent' % src_var), g.loc(),
                     '%s is assigned from %s' % (src_var, srcs))


def rule_provenance(report, prog):
    f = prog.func(LLC + '.activate')
    cfg = cfg_of(f)
    # the variables are identified by what creates them, not by their names
    def bound_from(prefix):
        return [st for st in walk_no_nested(f.node) if isinstance(st, ast.Assign) and len(st.targets) == 1 and isinstance(st.targets[0], ast.Name) and
                norm(st.value).startswith(prefix)]
    gb_names = sorted(set(st.targets[0].id for st in bound_from('mac.activate(')))
    GB = gb_names[0] if len(gb_names) == 1 else 'gb'
    sp = sorted(set(st.targets[0].id for st in bound_from('pdu.ParameterExchange(')))
    SEND = sp[0] if len(sp) == 1 else 'send_pax'
    rp = sorted(set(st.targets[0].id for st in bound_from('pdu.decode(')))
    RCVD = rp[0] if len(rp) == 1 else 'rcvd_pax'
    want = {"self.cfg['send-miu']": RCVD + '.miu', "self.cfg['recv-lto']": RCVD + '.lto',
            "self.cfg['send-wks']": RCVD + '.wks', "self.cfg['send-lsc']": RCVD + '.lsc'}
    for tgt, src in sorted(want.items()):
        sts = assigned_value(f, tgt)
        okk = len(sts) == 1 and norm(sts[0].value) == src
        report.check(okk, 'C19-R1', key(f.qname, '%s := %s' % (tgt, src.replace(RCVD, 'rcvd_pax'))), f.loc(sts[0]) if sts else f.loc(),
                     '%s is not taken from the peer\'s parameter exchange (%s): %s' % (
                         tgt, src, [norm(s.value) for s in sts]))
    # rcvd_pax is the decode of the general bytes returned by mac.activate
    d = assigned_value(f, RCVD)
    okk = len(d) == 1 and norm(d[0].value) == "pdu.decode(b'\\x00@' + bytes(%s[3:]))" % GB
    report.check(okk, 'C19-R1', key(f.qname, 'rcvd_pax = decode(PAX header + peer general bytes after the magic)'),
                 f.loc(d[0]) if d else f.loc(), 'rcvd_pax is %s' % [norm(x.value) for x in d])
    gbs = assigned_value(f, GB)
    srcs = sorted(norm(s.value) for s in gbs)
    okk = srcs == ["b'Ffm' + pdu.encode(%s)[2:]" % SEND, 'mac.activate(gbi=%s, **options)' % GB, 'mac.activate(gbt=%s, **options)' % GB]
    report.check(okk, 'C19-R1', key(f.qname, 'gb: ours goes in, the peer\'s comes back from mac.activate'), f.loc(),
                 'general bytes flow changed: %s' % srcs)
    if d and gbs:
        # the decode happens after the activation (uses the peer's bytes, not ours)
        dn = cfg.node_of(d[0])
        acts = [cfg.node_of(s) for s in gbs if 'mac.activate' in norm(s.value)]
        reach = cfg.reachable(cfg.entry, avoid_nodes=acts)
        report.check(dn not in reach, 'C19-R1', key(f.qname, 'PAX decoded from the bytes returned by mac.activate'), f.loc(d[0]),
                     'the received PAX can be decoded from our own general bytes')
        t = tests(cfg, "%s.startswith(b'Ffm')" % GB)
        report.check(bool(t), 'C19-R1', key(f.qname, 'LLCP magic number tested'), f.loc(), 'magic number test missing')
    # what we announce comes from the local options
    ann = {SEND + '.miu': "self.cfg['recv-miu']", SEND + '.lto': "self.cfg['send-lto']", SEND + '.lsc': "self.cfg['send-lsc']",
           SEND + '.wks': 'wks'}
    for tgt, src in sorted(ann.items()):
        sts = assigned_value(f, tgt)
        okk = len(sts) == 1 and norm(sts[0].value) == src
        report.check(okk, 'C19-R1', key(f.qname, 'announce %s := %s' % (tgt.replace(SEND, 'send_pax'), src)), f.loc(sts[0]) if sts else f.loc(),
                     'announced %s is %s' % (tgt, [norm(s.value) for s in sts]))
    # omitted-default agreement of the PAX we send (guards vs pdu defaults)
    defaults = {"self.cfg['recv-miu'] != 128": 'miu', "self.cfg['send-lto'] != 100": 'lto', "self.cfg['send-lsc'] != 0": 'lsc'}
    pax = prog.cls('nfc.llcp.pdu.ParameterExchange')
    for guard, prop in sorted(defaults.items()):
        g = [i for i in walk_no_nested(f.node) if isinstance(i, ast.If) and norm(i.test) == guard]
        get = prog.lookup(pax, prop)
        ret = [x for x in walk_no_nested(get.node) if isinstance(x, ast.Return)][0].value
        field = {'miu': 'self._miux', 'lto': 'self._lto', 'lsc': 'self._opt'}[prop]
        dflt = const(ret, {field: None})
        lit = try_const(g[0].test.comparators[0]) if g else None
        report.check(bool(g) and dflt == lit, 'C19-R1', key(f.qname, 'PAX %s omitted exactly for the decode default' % prop, guard),
                     f.loc(g[0]) if g else f.loc(),
                     'PAX %s is omitted when the option is %r but a receiver assumes %r' % (prop, lit, dflt))
    # LLC options
    init = prog.func(LLC + '.__init__')
    opts = {}
    for st in walk_no_nested(init.node):
        b = match(st, "self.cfg[$K] = options.get($O, $D)")
        if b is not None:
            opts[try_const(b['K'])] = (try_const(b['O']), try_const(b['D']))
    want = {'recv-miu': ('miu', 248), 'send-lto': ('lto', 500), 'send-lsc': ('lsc', 3), 'send-agf': ('agf', True),
            'llcp-sec': ('sec', True)}
    report.check(opts == want, 'C19-R3', key(init.qname, 'LLCP options miu/lto/lsc/agf/sec with documented defaults'), init.loc(),
                 'LogicalLinkController options changed: %r' % opts)
    rule_dep_miu(report, prog)
    g = prog.func(DEP + '.Initiator.activate')
    for tgt, src in (('self.gbt', 'atr_res.gb'),):
        sts = assigned_value(g, tgt)
        report.check(len(sts) == 1 and norm(sts[0].value) == src, 'C19-R1', key(g.qname, '%s := %s' % (tgt, src)), g.loc(),
                     '%s is %s' % (tgt, [norm(s.value) for s in sts]))
    g = prog.func(DEP + '.Target.activate')
    for tgt, src in (('self.gbi', 'atr_req.gb'),):
        sts = assigned_value(g, tgt)
        report.check(len(sts) == 1 and norm(sts[0].value) == src, 'C19-R1', key(g.qname, '%s := %s' % (tgt, src)), g.loc(),
                     '%s is %s' % (tgt, [norm(s.value) for s in sts]))


def rule_tables(report, prog):
    LR = (64, 128, 192, 254)
    # lr properties
    for q, field in ((DEP + '.ATR_REQ_RES.lr', 'self.pp'), (DEP + '.PSL_REQ.lr', 'self.fsl')):
        f = prog.func(q)
        ret = [x for x in walk_no_nested(f.node) if isinstance(x, ast.Return)][0].value
        bad = []
        for v in range(256):
            got = const(ret, {field: v})
            want = LR[(v >> 4) & 3] if field == 'self.pp' else LR[v & 3]
            if got != want:
                bad.append(v)
        report.check(not bad, 'C19-R2', key(q, 'LR table (64,128,192,254) indexed by the LR bits, all 256 byte values'), f.loc(),
                     '%s decodes the length reduction wrongly for byte values %s' % (q, bad[:5]))
    # PPI / PP construction: lr bits at 4..5, gb flag bit 1, nad flag bit 0
    fi = prog.func(DEP + '.Initiator.activate')
    ft = prog.func(DEP + '.Target.activate')
    lrprop = [x for x in walk_no_nested(prog.func(DEP + '.ATR_REQ_RES.lr').node) if isinstance(x, ast.Return)][0].value
    for f, var, lrvar, gbvar in ((fi, 'ppi', 'self.lri', 'self.gbi'), (ft, 'pp', 'lrt', 'gbt')):
        sts = assigned_value(f, var)
        if len(sts) != 1:
            report.fail('C19-R2', key(f.qname, 'PP byte construction'), f.loc(), 'PP byte assignment not found')
            continue
        bad = []
        for lr in range(4):
            for gb in (b'', b'x'):
                for nad in (None, 3):
                    v = const(sts[0].value, {lrvar: lr, gbvar: gb, 'self.nad': nad})
                    back = const(lrprop, {'self.pp': v})
                    if back != LR[lr] or bool(v & 2) != bool(gb) or bool(v & 1) != bool(nad):
                        bad.append((lr, gb, nad, v))
        report.check(not bad, 'C19-R2', key(f.qname, 'PP byte: LR bits read back by ATR_REQ_RES.lr, GB/NAD flags in bits 1/0'),
                     f.loc(sts[0]), 'PP construction %s is not read back correctly: %s' % (norm(sts[0].value), bad[:3]))
    # general bytes presence flag is what the decoders test
    for q in (DEP + '.ATR_REQ.decode', DEP + '.ATR_RES.decode'):
        f = prog.func(q)
        okk = any(norm(e) == 'pp & 2' for e in ast.walk(f.node) if isinstance(e, ast.BinOp))
        report.check(okk, 'C19-R2', key(q, 'general bytes present iff PP bit 1'), f.loc(), 'GB presence flag changed')
    # option clamps
    clamps = {(fi, 'self.brs'): ('brs', 2, 0, 2), (fi, 'self.lri'): ('lri', 3, 0, 3)}
    for (f, tgt), (opt, dflt, lo, hi) in sorted(clamps.items(), key=lambda x: x[0][1]):
        sts = assigned_value(f, tgt)
        okk = len(sts) == 1 and norm(sts[0].value) == "min(max(%d, options.get('%s', %d)), %d)" % (lo, opt, dflt, hi)
        report.check(okk, 'C19-R2', key(f.qname, 'option %s clamped to %d..%d, default %d' % (opt, lo, hi, dflt)), f.loc(),
                     'clamp of option %s changed: %s' % (opt, [norm(s.value) for s in sts]))
    for tgt, (opt, dflt, lo, hi) in (('lrt', ('lrt', 3, 0, 3)), ('rwt', ('rwt', 8, 0, 14))):
        sts = assigned_value(ft, tgt)
        okk = len(sts) == 1 and norm(sts[0].value) == "min(max(%d, options.get('%s', %d)), %d)" % (lo, opt, dflt, hi)
        report.check(okk, 'C19-R2', key(ft.qname, 'option %s clamped to %d..%d, default %d' % (opt, lo, hi, dflt)), ft.loc(),
                     'clamp of option %s changed: %s' % (opt, [norm(s.value) for s in sts]))
    # BRS table and bit-rate names
    psl = find(fi.node, 'psl_req = PSL_REQ(did, $T[self.brs], self.lri)')
    tab = try_const(psl[0][1]['T']) if psl else None
    report.check(tab == (0, 9, 18) and all(tab[i] == (i << 3 | i) for i in range(3)), 'C19-R2',
                 key(fi.qname, 'BRS byte = DSI<<3 | DRI for 106/212/424'), fi.loc(),
                 'PSL_REQ BRS table is %r' % (tab,))
    dsi = [x for x in walk_no_nested(prog.func(DEP + '.PSL_REQ.dsi').node) if isinstance(x, ast.Return)][0].value
    dri = [x for x in walk_no_nested(prog.func(DEP + '.PSL_REQ.dri').node) if isinstance(x, ast.Return)][0].value
    if tab:
        bad = [i for i in range(3) if const(dsi, {'self.brs': tab[i]}) != i or const(dri, {'self.brs': tab[i]}) != i]
        report.check(not bad, 'C19-R2', key(DEP + '.PSL_REQ', 'dsi/dri read back the BRS table'), fi.loc(),
                     'PSL_REQ.dsi/dri do not read back BRS for %s' % bad)
    names = [try_const(e) for e in ast.walk(fi.node) if isinstance(e, ast.Tuple) and try_const(e) in (('106A', '212F', '424F'), ('212F', '424F'))]
    report.check(('106A', '212F', '424F') in names and ('212F', '424F') in names, 'C19-R2',
                 key(fi.qname, 'bit-rate names in BRS order'), fi.loc(), 'bit-rate name tables changed: %r' % names)
    b = find(fi.node, "self.target.brty = ('212F', '424F')[$I]")
    report.check(len(b) == 1 and norm(b[0][1]['I']) == 'self.brs - 1', 'C19-R2', key(fi.qname, 'selected bit rate = name[brs]'),
                 fi.loc(), 'bit rate taken after PSL is %s' % (norm(b[0][0]) if b else None))
    t = [e for e in ast.walk(fi.node) if isinstance(e, ast.Compare) and norm(e) == "self.brs > ('106A', '212F', '424F').index(self.target.brty)"]
    report.check(len(t) == 1, 'C19-R2', key(fi.qname, 'PSL only to raise the bit rate'), fi.loc(), 'PSL condition changed')
    # waiting time
    wt = [x for x in walk_no_nested(prog.func(DEP + '.ATR_RES.wt').node) if isinstance(x, ast.Return)][0].value
    report.check(norm(wt) == 'self.to & 15', 'C19-R2', key(DEP + '.ATR_RES.wt', 'WT = TO & 0x0F'), fi.loc(), 'WT mask changed: %s' % norm(wt))
    r = assigned_value(fi, 'self.rwt')

    def same(expr, fnode, var, values, spec):
        # the expression folded for every value of the one quantity it depends on
        for e_ in (expr, through_locals(fnode, expr, as_node=True)):
            try:
                return all(abs(const(e_, {var: v}) - spec(v)) <= 1e-12 * spec(v) for v in values)
            except Exception:
                continue
        return False
    okk = len(r) == 1 and same(r[0].value, fi.node, 'atr_res.wt', range(16), lambda wt: 4096 / 13.56E6 * 2 ** min(wt, 14))
    report.check(okk, 'C19-R2', key(fi.qname, 'RWT = 4096/fc * 2^min(WT,14) from the peer\'s ATR_RES'), fi.loc(),
                 'initiator RWT formula changed: %s' % [norm(x.value) for x in r])
    r = assigned_value(ft, 'self.rwt')
    okk = len(r) == 1 and same(r[0].value, ft.node, 'rwt', range(15), lambda k: 4096 / 13.56E6 * 2 ** k)
    report.check(okk, 'C19-R2', key(ft.qname, 'RWT = 4096/fc * 2^rwt from the announced option'), ft.loc(),
                 'target RWT formula changed: %s' % [norm(x.value) for x in r])
    a = find(ft.node, 'atr_res = ATR_RES(nfcid3t, 0, 0, 0, rwt, pp, gbt)')
    report.check(len(a) == 1, 'C19-R2', key(ft.qname, 'ATR_RES announces TO=rwt, PP=pp, GB=gbt'), ft.loc(), 'ATR_RES construction changed')
    a = find(fi.node, 'atr_req = ATR_REQ(os.urandom(10), did, 0, 0, ppi, self.gbi)')
    report.check(len(a) == 1, 'C19-R2', key(fi.qname, 'ATR_REQ announces PP=ppi, GB=gbi'), fi.loc(), 'ATR_REQ construction changed')
    # field order writer/reader of ATR PDUs
    for cls, fields in (('ATR_REQ', ['did', 'bs', 'br', 'pp']), ('ATR_RES', ['did', 'bs', 'br', 'to', 'pp'])):
        enc = prog.func('%s.%s.encode' % (DEP, cls))
        dec = prog.func('%s.%s.decode' % (DEP, cls))
        ext = [c for c in ast.walk(enc.node) if isinstance(c, ast.Call) and norm(c.func) == 'data.extend']
        got = [norm(e).replace('self.', '') for e in ext[0].args[0].elts] if ext else None
        tup = [st for st in walk_no_nested(dec.node) if isinstance(st, ast.Assign) and isinstance(st.targets[0], ast.Tuple)]
        got2 = None
        lo = hi = None
        if tup:
            inner = tup[0].targets[0].elts[1]
            got2 = [norm(e) for e in inner.elts] if isinstance(inner, ast.Tuple) else None
            sl = tup[0].value.elts[1]
            lo, hi = try_const(sl.slice.lower), try_const(sl.slice.upper)
        okk = got == fields and got2 == fields and (lo, hi) == (12, 12 + len(fields))
        report.check(okk, 'C19-R2', key(DEP + '.' + cls, 'field order and offsets agree between encode and decode'), dec.loc(),
                     '%s encode writes %r, decode reads %r from [%r:%r]' % (cls, got, got2, lo, hi))


def rule_passthrough(report, prog):
    f = prog.func('nfc.clf.ContactlessFrontend._llcp_connect')
    # the keyword dictionary handed to llc.activate, folded for sample option dictionaries: the assignments of the function are
    # evaluated in source order (checker's own evaluator), then the ** argument of the activate call
    act = [c for c in ast.walk(f.node) if isinstance(c, ast.Call) and norm(c.func) == 'llc.activate']
    kw = [k.value for c in act for k in c.keywords if k.arg is None]
    mac = [norm(k.value) for c in act for k in c.keywords if k.arg == 'mac']

    def forwarded(options):
        env = {'options': dict(options)}

        def walk(stmts):
            for st in stmts:
                if isinstance(st, ast.Assign) and len(st.targets) == 1 and isinstance(st.targets[0], ast.Name):
                    try:
                        env[st.targets[0].id] = const(st.value, env)
                    except Exception:
                        env.pop(st.targets[0].id, None)
                for fld in ('body', 'orelse'):
                    if isinstance(getattr(st, fld, None), list) and not isinstance(st, (ast.FunctionDef, ast.ClassDef)):
                        walk(getattr(st, fld))
        walk(f.node.body)
        try:
            return const(kw[0], env) if len(kw) == 1 else None
        except Exception:
            return None
    dep = {'brs': 2, 'acm': False, 'rwt': 9, 'lrt': 4, 'lri': 1}
    other = {'role': None, 'lto': 500, 'miu': 128, 'on-connect': 0, 'on-release': 0, 'llc': 0, 'pni': 3, 'did': 7}
    t = forwarded(dict(dep, **other))
    report.check(t == dep, 'C19-R3', key(f.qname, 'forwards brs, acm, rwt, lrt, lri'), f.loc(),
                 'NFC-DEP options forwarded by connect(): %r' % (sorted(t) if isinstance(t, dict) else t))
    part = forwarded(dict(other, rwt=11, lri=2))
    okk = part == {'rwt': 11, 'lri': 2} and forwarded(other) == {} and len(act) == 1 and mac == ['DEP(clf=self)']
    report.check(okk, 'C19-R3', key(f.qname, 'options reach mac.activate unchanged'), f.loc(), 'option forwarding changed')
    g = prog.func(LLC + '.activate')
    okk = bool(find(g.node, 'gb = mac.activate(gbi=gb, **options)')) and bool(find(g.node, 'gb = mac.activate(gbt=gb, **options)'))
    report.check(okk, 'C19-R3', key(g.qname, 'options passed on to the MAC activation'), g.loc(), 'llc.activate no longer forwards options')
    # role dispatch: the eval() builds nfc.dep.Target / nfc.dep.Initiator from the literal tuple next to it
    roles = [try_const(x.iter) for x in walk_no_nested(f.node) if isinstance(x, ast.For)]
    # DEP = eval('nfc.dep.' + role.capitalize())  or  getattr(nfc.dep, role.capitalize()): folded for each role of the tuple
    dv = [s_.value for s_ in assigned_value(f, 'DEP')]
    names = []
    if len(dv) == 1 and isinstance(dv[0], ast.Call) and roles == [('target', 'initiator')]:
        for r in roles[0]:
            c_ = dv[0]
            if norm(c_.func) == 'eval' and len(c_.args) == 1:
                names.append(try_const(c_.args[0], {'role': r}))
            elif norm(c_.func) == 'getattr' and len(c_.args) == 2 and norm(c_.args[0]) == 'nfc.dep':
                names.append('nfc.dep.%s' % try_const(c_.args[1], {'role': r}))
    okk = names == ['nfc.dep.Target', 'nfc.dep.Initiator'] and all(n_ in prog.classes for n_ in names)
    report.check(okk, 'C19-R3', key(f.qname, 'role names resolve to nfc.dep.Target / nfc.dep.Initiator'), f.loc(),
                 'role dispatch changed')


def rule_driver_lr(report, prog, rule='C19-R4'):
    """A driver whose chip cannot move 254 byte frames rewrites the length reduction (LR, bits 5..4 of PPi / PPt) of the ATR it
    hands up.  Such a rewrite may only *lower* the value: for every PP octet the guard and the rewritten value are folded -- the new
    LR index is never above the one the peer (or the application) announced, else frames longer than announced are sent."""
    n = 0
    for q, f in sorted(prog.functions.items()):
        if not q.startswith('nfc.clf.'):
            continue
        for i in walk_no_nested(f.node):
            if not isinstance(i, ast.If):
                continue
            for st in i.body:
                if not (isinstance(st, ast.Assign) and isinstance(st.targets[0], ast.Subscript)):
                    continue
                b = match(st.value, '($X & 207) | $K')
                if b is None or not isinstance(try_const(b['K']), int):
                    continue
                src = norm(b['X'])
                n += 1
                bad = []
                for v in range(256):
                    t = try_const(i.test, {src: v}, default=NotImplemented)
                    if t is NotImplemented:
                        bad.append('cannot fold `%s`' % norm(i.test))
                        break
                    new = ((v & 0xCF) | try_const(b['K'])) if t else v
                    if (new >> 4) & 3 > (v >> 4) & 3:
                        bad.append('PP %02Xh (LR index %d) becomes %02Xh (LR index %d)' % (v, (v >> 4) & 3, new, (new >> 4) & 3))
                report.check(not bad, rule, key(q, 'the length reduction rewrite only lowers LR', st), f.loc(st),
                             '%s raises the announced length reduction: %s' % (q, '; '.join(bad[:2])))
    report.floor(rule + ' driver LR rewrites', n, 2)


def rule_psl_radio(report, prog, rule='C19-R2'):
    """After a PSL exchange both ends continue at the selected bit rate.  The RC-S380 target answers PSL_RES at the old rate, then
    programs the radio: the value handed to tg_set_rf() is the value reported upwards as the new bit rate (same variable, not
    re-bound in between), and it comes from the DSI of the PSL_REQ through the rate table."""
    f = next((g for q, g in prog.functions.items() if q.startswith('nfc.clf.rcs380.Device.listen_dep') and q.endswith('send_psl_res>')), None)
    if f is None:
        raise AnalysisError('%s: rcs380 send_psl_res not found' % rule)
    cfg = cfg_of(f)
    sets = [c for c in walk_no_nested(f.node) if isinstance(c, ast.Call) and norm(c.func) == 'self.chipset.tg_set_rf' and len(c.args) == 1]
    rets = [r for r in walk_no_nested(f.node) if isinstance(r, ast.Return) and isinstance(r.value, ast.Tuple) and r.value.elts]
    okk = len(sets) == 1 and len(rets) == 1 and isinstance(sets[0].args[0], ast.Name) and norm(rets[0].value.elts[0]) == sets[0].args[0].id
    if okk:
        v = sets[0].args[0].id
        binds = [cfg.node_of(a) for a in walk_no_nested(f.node) if isinstance(a, ast.Assign) and any(norm(t) == v for t in a.targets)]
        table = [a for a in walk_no_nested(f.node) if isinstance(a, ast.Assign) and any(norm(t) == v for t in a.targets)
                 and isinstance(a.value, ast.Subscript) and try_const(a.value.value) == ('106A', '212F', '424F') and norm(a.value.slice) == 'dsi']
        sn = cfg_node_for(cfg, sets[0])
        rn = cfg.node_of(rets[0])
        okk = len(table) == 1 and cfg.dominates(cfg.node_of(table[0]), sn) and cfg.dominates(sn, rn) and \
            not any(b_ is not cfg.node_of(table[0]) and b_ in cfg.reachable(cfg.node_of(table[0])) for b_ in binds)
    report.check(okk, rule, key(f.qname, 'the radio is programmed to the bit rate that is reported as selected'), f.loc(),
                 'send_psl_res: the value given to tg_set_rf() is not the rate from the DSI table that is returned as the new bit rate: the '
                 'target keeps listening at the old rate while the initiator continues at the new one')


def rule_budget(report, prog, res, rule='C19-R4'):
    le = LenEval(prog, res)
    cls = prog.cls(DEP + '.DEP_REQ_RES')
    form = le.func_length(prog.lookup(cls, 'encode'), Ctx(cls))
    const_ovh = form.get(('c',), 0)
    opt = {}
    for k, v in form.items():
        if k[0] == 'if':
            opt[k[1]] = dict(k[2]).get(('c',), 0)
    okk = const_ovh == 3 and opt == {'self.pfb.did': 1, 'self.pfb.nad': 1}
    report.check(okk, rule, key(cls.qname + '.encode', 'overhead = 3 + [DID] + [NAD]'), prog.lookup(cls, 'encode').loc(),
                 'DEP PDU encoder overhead is %s' % show(form), detail=show(form))
    for role in ('Initiator', 'Target'):
        c = prog.cls(DEP + '.' + role)
        act = prog.func('%s.%s.activate' % (DEP, role))
        sts = assigned_value(act, 'self.miu')
        if len(sts) != 1:
            report.fail(rule, key(act.qname, 'payload budget'), act.loc(), 'self.miu assignment not found')
            continue
        lin = linear(sts[0].value)
        const_sub = -lin.get('1', 0)
        # the budget folded for sample activations: what it takes off LR without optional bytes, and whether a DID / NAD costs one byte
        # more (independent of how the expression is written); the linear form is the fall-back
        budget = through_locals(act.node, sts[0].value, as_node=True)

        def miu(did, nad):
            return const(budget, {'atr_res.lr': 200, 'atr_req.lr': 200, 'self.did': did, 'atr_req.did': did or 0, 'self.nad': nad})
        sampled = None
        try:
            sampled = {'': 200 - miu(None, None), 'did': miu(None, None) - miu(5, None), 'nad': miu(None, None) - miu(None, 7)}
            const_sub = sampled['']
        except Exception:
            sampled = None
        # which optional bytes can this role put into its DEP PDUs?  (attribute may become non-None)
        for attr in ('did', 'nad'):
            may_use = False
            for m in c.methods.values():
                for st in walk_no_nested(m.node):
                    if isinstance(st, ast.Assign) and any(norm(t) == 'self.' + attr for t in st.targets):
                        if not (isinstance(st.value, ast.Constant) and st.value.value is None):
                            may_use = True
            # and does the role pass it to the PFB flag?
            uses = any(('self.' + attr) in [norm(a) for a in call.args] for call in ast.walk(prog.lookup(c, 'exchange').node)
                       if isinstance(call, ast.Call))
            term = [k for k, v in lin.items() if attr in k and v == -1] if sampled is None else ([attr] if sampled[attr] == 1 else [])
            if may_use and uses:
                report.check(bool(term), rule, key(act.qname, 'payload budget subtracts the optional %s byte' % attr.upper(), sts[0].value),
                             act.loc(sts[0]),
                             '%s.activate sets miu = %s but %s.exchange sends the %s byte when self.%s is set: every full-size '
                             'frame is one byte longer than the length reduction announced by the peer' % (
                                 role, norm(sts[0].value), role, attr.upper(), attr))
            else:
                report.ok(rule, key(act.qname, '%s byte never used by this role' % attr.upper()), act.loc())
        # the operands of the budget are current: a `self.<attr>` read by the budget expression that activate() itself assigns must have
        # been assigned before (otherwise the budget sees the value of the previous activation / None)
        cfg_a = cfg_of(act)
        node_miu = cfg_a.node_of(sts[0])
        for x in ast.walk(sts[0].value):
            if isinstance(x, ast.Attribute) and norm(x.value) == 'self':
                defs = [cfg_a.node_of(st) for st in walk_no_nested(act.node) if isinstance(st, ast.Assign) and any(norm(t) == norm(x) for t in st.targets)]
                defs = [d for d in defs if d is not None and d is not node_miu]
                if defs:
                    okk2 = node_miu not in cfg_a.reachable(cfg_a.entry, avoid_nodes=defs)
                    report.check(okk2, rule, key(act.qname, 'payload budget reads %s after it is assigned' % norm(x)), act.loc(sts[0]),
                                 '%s.activate computes miu from %s before assigning it in the same activation: the optional byte is judged by a stale '
                                 'value and full-size frames exceed the announced length' % (role, norm(x)))
        report.check(const_sub == const_ovh, rule, key(act.qname, 'payload budget subtracts the fixed overhead', str(const_ovh)),
                     act.loc(sts[0]), '%s.activate subtracts %d from LR, the encoder adds %d fixed bytes' % (role, const_sub, const_ovh))
    # frames: LEN byte = len + 1 in both encode_frame, F0 start byte for 106A only
    for role in ('Initiator', 'Target'):
        f = prog.func('%s.%s.encode_frame' % (DEP, role))
        okk = bool(find(f.node, "frame = struct.pack('B', len(frame) + 1) + frame")) and \
            bool(find(f.node, "frame = b'\\xf0' + frame")) and any(norm(t.test) == "self.target.brty == '106A'" for t in walk_no_nested(f.node) if isinstance(t, ast.If))
        report.check(okk, rule, key(f.qname, 'LEN = payload + 1, start byte F0 only at 106A'), f.loc(), 'frame encoding changed')


def rule_idle_delay(report, prog, rule='C19-R1'):
    """How long this side may stay silent is bounded by the link timeout it announced itself (send-lto); the peer's LTO (recv-lto)
    only says how long to wait for the peer.  Every deliberate delay of the run loops -- the `delay` given to collect() -- read through
    single-assignment locals is a constant or derives from the local LTO, never from `recv-lto` / the receive timeout (with a peer
    that announced a long timeout the local side would answer later than the LTO it promised)."""
    from ..q import through_locals
    n = 0
    for name in ('run_as_initiator', 'run_as_target'):
        f = prog.func(L + '.LogicalLinkController.' + name)
        for c in walk_no_nested(f.node):
            if isinstance(c, ast.Call) and norm(c.func) == 'self.collect':
                arg = next((k.value for k in c.keywords if k.arg == 'delay'), c.args[0] if c.args else None)
                if arg is None:
                    continue
                n += 1
                text = through_locals(f.node, arg)
                okk = isinstance(try_const(arg), (int, float)) or ('recv' not in text and ('send-lto' in text or isinstance(try_const(through_locals(f.node, arg, as_node=True)), (int, float))))
                report.check(okk, rule, key(f.qname, 'idle delay is a constant or derives from the local link timeout'), f.loc(c),
                             '%s waits `%s` before it answers: the delay derives from the peer\'s link timeout (recv-lto), the bound on local '
                             'silence is the timeout this side announced (send-lto)' % (name, text))
    report.floor(rule + ' idle delays', n, 2)


def run(report, prog, tier):
    res = Resolver(prog)
    rule_provenance(report, prog)
    rule_idle_delay(report, prog)
    rule_tables(report, prog)
    rule_passthrough(report, prog)
    rule_budget(report, prog, res)
    rule_driver_lr(report, prog)
    rule_psl_radio(report, prog)
    # the negotiated link MIU is obeyed by the link management PDUs as well: the service discovery batching charges every entry
    # against the peer's MIU (C10-R1), reported here as C19-R5
    from . import c10
    report.run_as({'C10-R1': 'C19-R5'}, c10.rule_sd_budget, prog, res)
    report.trusted += ['NFC-DEP: LR values (64,128,192,254) bound the transport data field CMD0 CMD1 PFB [DID] [NAD] payload',
                       'LLCP defaults: MIU 128, LTO 100 ms, LSC 0']
    report.assumptions += ['option domains brs 0..2, lri/lrt 0..3, rwt 0..14']


D = 'nfc.dep'
L = 'nfc.llcp.llc'
MUTANTS = [
    ('idle-delay-from-peer-lto', 'nfc.llcp.llc', "                    send_pdu = self.collect(delay=0.05)", "                    send_pdu = self.collect(delay=recv_timeout / 4)", 'C19-R1', 'all'),
    ('rcs380-psl-radio-keeps-old-rate', 'nfc.clf.rcs380', """            brty = ('106A', '212F', '424F')[dsi]
            self.chipset.tg_set_rf(brty)
            return brty, psl_req, psl_res""", """            self.chipset.tg_set_rf(brty)
            return ('106A', '212F', '424F')[dsi], psl_req, psl_res""", 'C19-R2'),
    ('pn531-raises-lr-of-atr-res', 'nfc.clf.pn531', "        if target.atr_res[16] & 0x30 == 0x30:", "        if target.atr_res[16] & 0x30:", 'C19-R4'),
    ('send-miu-from-own-pax', L, "self.cfg['send-miu'] = rcvd_pax.miu", "self.cfg['send-miu'] = send_pax.miu", 'C19-R1'),
    ('recv-lto-from-own', L, "self.cfg['recv-lto'] = rcvd_pax.lto", "self.cfg['recv-lto'] = send_pax.lto", 'C19-R1'),
    ('pax-decoded-from-own-gb', L, 'rcvd_pax = pdu.decode(b"\\x00\\x40" + bytes(gb[3:]))', 'rcvd_pax = pdu.decode(b"\\x00\\x40" + pdu.encode(send_pax)[2:])', 'C19-R1'),
    ('announce-wrong-miu', L, "send_pax.miu = self.cfg['recv-miu']", "send_pax.miu = self.cfg['send-lto']", 'C19-R1'),
    ('pax-miu-default-mismatch', L, "if self.cfg['recv-miu'] != 128:", "if self.cfg['recv-miu'] != 248:", 'C19-R1'),
    ('pax-lto-default-mismatch', L, "if self.cfg['send-lto'] != 100:", "if self.cfg['send-lto'] != 500:", 'C19-R1'),
    ('initiator-miu-from-own-lri', D, "self.miu = (atr_res.lr-3 - int(self.did is not None)", "self.miu = ((64, 128, 192, 254)[self.lri]-3 - int(self.did is not None)", 'C19-R1'),
    ('target-miu-from-own-lrt', D, "self.miu = atr_req.lr - 3 - int(atr_req.did > 0)", "self.miu = (64, 128, 192, 254)[lrt] - 3 - int(atr_req.did > 0)", 'C19-R1'),
    ('lr-table-255', D, "return (64, 128, 192, 254)[(self.pp >> 4) & 0x3]", "return (64, 128, 192, 255)[(self.pp >> 4) & 0x3]", 'C19-R2'),
    ('lr-shift', D, "return (64, 128, 192, 254)[(self.pp >> 4) & 0x3]", "return (64, 128, 192, 254)[(self.pp >> 5) & 0x3]", 'C19-R2'),
    ('psl-lr-mask', D, "return (64, 128, 192, 254)[self.fsl & 0x03]", "return (64, 128, 192, 254)[self.fsl & 0x01]", 'C19-R2'),
    ('ppi-shift', D, "ppi = (self.lri << 4) | (bool(self.gbi) << 1) | int(bool(self.nad))", "ppi = (self.lri << 3) | (bool(self.gbi) << 1) | int(bool(self.nad))", 'C19-R2'),
    ('pp-gb-flag', D, "pp = (lrt << 4) | (bool(gbt) << 1) | int(bool(self.nad))", "pp = (lrt << 4) | (bool(gbt) << 2) | int(bool(self.nad))", 'C19-R2'),
    ('brs-table', D, "psl_req = PSL_REQ(did, (0, 9, 18)[self.brs], self.lri)", "psl_req = PSL_REQ(did, (0, 9, 16)[self.brs], self.lri)", 'C19-R2'),
    ('brs-clamp', D, "self.brs = min(max(0, options.get('brs', 2)), 2)", "self.brs = min(max(0, options.get('brs', 2)), 3)", 'C19-R2'),
    ('rwt-clamp', D, "rwt = min(max(0, options.get('rwt', 8)), 14)", "rwt = min(max(0, options.get('rwt', 8)), 15)", 'C19-R2'),
    ('brty-after-psl', D, "self.target.brty = ('212F', '424F')[self.brs-1]", "self.target.brty = ('212F', '424F')[self.brs-2]", 'C19-R2'),
    ('wt-mask', D, "return self.to & 0x0F", "return self.to & 0x1F", 'C19-R2'),
    ('atr-res-field-order', D, "data.extend([self.did, self.bs, self.br, self.to, self.pp])", "data.extend([self.did, self.bs, self.br, self.pp, self.to])", 'C19-R2'),
    ('atr-req-gb-offset', D, "nfcid3, (did, bs, br, pp) = data[2:12], data[12:16]", "nfcid3, (did, bs, br, pp) = data[2:12], data[13:17]", 'C19-R2'),
    ('connect-drops-lri', 'nfc.clf', "dep_cfg = ('brs', 'acm', 'rwt', 'lrt', 'lri')", "dep_cfg = ('brs', 'acm', 'rwt', 'lrt')", 'C19-R3'),
    ('llc-miu-default', L, "self.cfg['recv-miu'] = options.get('miu', 248)", "self.cfg['recv-miu'] = options.get('mui', 248)", 'C19-R3'),
    ('target-miu-forgets-did', D, "self.miu = atr_req.lr - 3 - int(atr_req.did > 0)", "self.miu = atr_req.lr - 3", 'C19-R4'),
    ('initiator-miu-forgets-nad', D, """            self.miu = (atr_res.lr-3 - int(self.did is not None)
                        - int(self.nad is not None))""", """            self.miu = (atr_res.lr-3 - int(self.did is not None))""", 'C19-R4'),
    ('miu-minus-2', D, "self.miu = atr_req.lr - 3 - int(atr_req.did > 0)", "self.miu = atr_req.lr - 2 - int(atr_req.did > 0)", 'C19-R4'),
    ('frame-len-byte', D, [("""        frame = struct.pack("B", len(frame) + 1) + frame
        if self.target.brty == '106A':
            frame = b'\\xF0' + frame
        return bytearray(frame)

    def decode_frame(self, frame):
        if len(frame) < 2:
            error = "NFC-DEP frame length byte must be from 3 to 255"
            raise nfc.clf.TransmissionError(error)
        if self.target.brty == '106A' and frame.pop(0) != 0xF0:
            error = "first NFC-DEP frame byte must be F0h for 106A"
            raise nfc.clf.ProtocolError(error)
        if len(frame) != frame.pop(0):
            error = "NFC-DEP frame length byte must be data length + 1"
            raise nfc.clf.ProtocolError(error)
        if len(frame) < 2:
            error = "NFC-DEP frame length byte must be from 3 to 255"
            raise nfc.clf.TransmissionError(error)
        if frame[0] != 0xD4""", """        frame = struct.pack("B", len(frame)) + frame
        if self.target.brty == '106A':
            frame = b'\\xF0' + frame
        return bytearray(frame)

    def decode_frame(self, frame):
        if len(frame) < 2:
            error = "NFC-DEP frame length byte must be from 3 to 255"
            raise nfc.clf.TransmissionError(error)
        if self.target.brty == '106A' and frame.pop(0) != 0xF0:
            error = "first NFC-DEP frame byte must be F0h for 106A"
            raise nfc.clf.ProtocolError(error)
        if len(frame) != frame.pop(0):
            error = "NFC-DEP frame length byte must be data length + 1"
            raise nfc.clf.ProtocolError(error)
        if len(frame) < 2:
            error = "NFC-DEP frame length byte must be from 3 to 255"
            raise nfc.clf.TransmissionError(error)
        if frame[0] != 0xD4""")], None, 'C19-R4'),
]

EXPLANATION += ' Round 5: the idle delay of the run loops derives from the local LTO or a constant, never from the peer LTO; the service discovery MIU budget (C10-R1) is an obligation of this check (C19-R5).'
