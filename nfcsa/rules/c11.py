# -*- coding: utf-8 -*-
"""C11 -- LLCP PDU encoding and decoding are mutually consistent (also serves C10-R2)."""
import ast
import struct

from ..model import clone, norm, head, walk_no_nested, FuncInfo, ClassInfo, AnalysisError, enclosing_stmt, last_live, live, ancestors
from ..cfg import cfg_of
from ..resolve import Resolver, Ctx
from ..symlen import LenEval, Unsupported, show, class_consts, ConstEnv
from ..q import linear, find, match, const, try_const, cfg_node_for, NotConst, calls
from ..core import key

PDU = 'nfc.llcp.pdu'
EXPLANATION = (
    'Writer/reader agreement rules over nfc/llcp/pdu.py decided from the ast: R1 symbolic byte length of '
    'every encode() equals the canonical form of __len__ (E6 symlen, 15 classes); R2 for each TLV emitted under '
    'a guard the guard is evaluated by the checker over the finite field domain and must be false exactly for '
    'the decode default; R3 window discipline: every read of `data` in decode()/decode_header() is bounded by '
    'offset+size (CFG lower bounds on `size`), TLV and sub-PDU lengths must be compared with the remaining '
    'size; R4 pdu_type_map keys equal the ptype literals passed by the constructors; R5 header/sequence/FRMR '
    'bit fields: encode folded over the whole field domain and decode folded on the result give the fields back; R6 per TLV '
    'type encode folded for sample values and decode folded on the result agree, the decoder refuses the type with any other '
    'length and masks exactly the reserved bits; where the offset/size window rules cannot follow the spelling of '
    'AggregatedFrame.decode an aggregate sweep against an independent reader decides it; R7 no unbounded recursion in the decode '
    'call graph; R8 per PDU class and TLV type the field stored by decode (V + c) and the value handed to Parameter.encode (field - c) are inverse, no one-sided normalisation.  Decides the structural clauses only; decode(encode(p)) == p for payload bytes is not claimed.')


def pdu_classes(prog):
    base = prog.cls(PDU + '.ProtocolDataUnit')
    out = []
    for c in prog.subclasses(base, strict=True):
        if c.module.name == PDU and isinstance(prog.lookup(c, 'encode'), FuncInfo):
            out.append(c)
    return out


# ------------------------------------------------------------------------------ R1
def _len_by_folding(prog, c, enc, ln):
    """-> None when len(encode()) == __len__() for every subset of set / unset attributes, else what differs or 'cannot fold ...'"""
    import itertools
    from ..q import fold_block, NotConst
    attrs = sorted(set(norm(x) for fn in (enc, ln) for x in ast.walk(fn.node)
                       if isinstance(x, ast.Attribute) and isinstance(x.value, ast.Name) and x.value.id == 'self' and isinstance(x.ctx, ast.Load)
                       and not isinstance(getattr(x, '_parent', None), ast.Call) or False)) if False else None
    names = set()
    for fn in (enc, ln):
        calls_ = set(id(x.func) for x in ast.walk(fn.node) if isinstance(x, ast.Call))
        for x in ast.walk(fn.node):
            if isinstance(x, ast.Attribute) and isinstance(x.value, ast.Name) and x.value.id == 'self' and id(x) not in calls_:
                names.add(norm(x))
    names = sorted(n_ for n_ in names if n_ not in ('self.dsap', 'self.ssap', 'self.ptype', 'self.header_size'))
    if len(names) > 8:
        return 'cannot fold: %d attributes' % len(names)
    tlv = TlvFold(prog)

    def param_encode(t, v):
        r = tlv.encode(t, v)
        if r[0] != 'return':
            raise NotConst('Parameter.encode(%r, %r) -> %r' % (t, v, r))
        return r[1]

    def body(fn):
        return [st for st in fn.node.body if not (isinstance(st, ast.Expr) and isinstance(st.value, ast.Constant))]
    for present in itertools.product((False, True), repeat=len(names)):
        env = {n_: (1 if p_ else None) for n_, p_ in zip(names, present)}
        env.update({'self.dsap': 0, 'self.ssap': 0, 'self.ptype': 1, 'self.header_size': 2})
        env.update({'Parameter.' + k_: v_ for k_, v_ in tlv.consts.items()})
        env['__calls__'] = {'self.encode_header': lambda: b'\x00\x40', 'Parameter.encode': param_encode}
        try:
            a = fold_block(body(enc), dict(env))
            b = fold_block(body(ln), dict(env))
        except (NotConst, TypeError, KeyError, IndexError, ValueError) as e:
            return 'cannot fold encode() / __len__(): %s: %s' % (type(e).__name__, e)
        if a[0] != 'return' or b[0] != 'return':
            return 'cannot fold: encode() %s, __len__() %s' % (a[0], b[0])
        if len(a[1]) != b[1]:
            return 'with %s set, encode() gives %d octets and __len__() says %d' % ([n_ for n_, p_ in zip(names, present) if p_], len(a[1]), b[1])
    return None


def rule_len(report, prog, res, rule='C11-R1', floor=15):
    le = LenEval(prog, res)
    classes = pdu_classes(prog)
    for c in classes:
        enc = prog.lookup(c, 'encode')
        ln = prog.lookup(c, '__len__')
        k = key(c.qname, '__len__ == len(encode())')
        if not isinstance(ln, FuncInfo):
            report.fail(rule, k, c.module.relpath, 'class %s has encode() but no __len__' % c.name)
            continue
        try:
            a = le.func_length(enc, Ctx(c))
            rets = [n for n in walk_no_nested(ln.node) if isinstance(n, ast.Return)]
            if len(rets) != 1:
                raise Unsupported('__len__ with %d returns' % len(rets))
            b = le.intform(rets[0].value, ln, Ctx(c))
        except Unsupported as e:
            # the symbolic length does not follow this spelling: fold encode() and __len__() instead, for every way of leaving each
            # attribute they read unset (None) or set (a small value), with the TLV encoder and the header modelled
            why = _len_by_folding(prog, c, enc, ln)
            if why is None:
                report.ok(rule, k, enc.loc(), detail='decided by folding encode() and __len__() over the attribute subsets (symbolic form: %s)' % e)
                continue
            if why.startswith('cannot fold'):
                raise AnalysisError('%s: cannot derive symbolic length for %s: %s; %s' % (rule, c.qname, e, why))
            report.fail(rule, k, enc.loc(), '%s: %s' % (c.qname, why))
            continue
        report.check(a == b, rule, k, ln.loc(),
                     '%s.__len__ disagrees with the encoded length: encode() yields %s but __len__ returns %s'
                     % (c.name, show(a), show(b)), detail='%s' % show(a))
    report.floor(rule, len(classes), floor)
    return classes


# ------------------------------------------------------------------------------ R2
FIELD_DOMAINS = {
    'rw': list(range(0, 16)),
    'miu': list(range(128, 2176)),
}


def _eval(expr, binds):
    env = dict(binds)
    return const(expr, env)


def rule_defaults(report, prog, res):
    """For `if g: data += Parameter.encode(Parameter.X, f(self.fld))` in encode(): for every valid
    value v, g(v) false  =>  v == default the decoder leaves in place; and dec(enc(v)) == v."""
    n = 0
    for cname in ('Connect', 'ConnectionComplete'):
        c = prog.cls(PDU + '.' + cname)
        enc = prog.lookup(c, 'encode')
        dec = prog.lookup(c, 'decode')
        init = prog.lookup(c, '__init__')
        ln = prog.lookup(c, '__len__')
        defaults = {}
        args = init.node.args
        for a, d in zip(args.args[len(args.args) - len(args.defaults):], args.defaults):
            defaults[a.arg] = try_const(d)
        for st in walk_no_nested(enc.node):
            if not isinstance(st, ast.If):
                continue
            m = find(st, 'Parameter.encode(Parameter.$T, $V)')
            if not m:
                continue
            call, b = m[0]
            fields = sorted(set(x.attr for x in ast.walk(st.test) if isinstance(x, ast.Attribute)
                                and isinstance(x.value, ast.Name) and x.value.id == 'self'))
            if len(fields) != 1 or fields[0] not in FIELD_DOMAINS:
                continue
            fld = fields[0]
            n += 1
            dom = FIELD_DOMAINS[fld]
            dflt = defaults.get(fld)
            # decoder side: value expression assigned to <pdu>.<fld> in decode
            dec_expr = None
            for a in walk_no_nested(dec.node):
                if isinstance(a, ast.Assign) and isinstance(a.targets[0], ast.Attribute) and a.targets[0].attr == fld:
                    dec_expr = a.value
            if dec_expr is None:
                raise AnalysisError('C11-R2: decode of %s does not assign %s' % (cname, fld))
            bad_omit = []
            bad_rt = []
            for v in dom:
                env = {'self.' + fld: v}
                g = bool(_eval(st.test, env))
                if not g:
                    if v != dflt:
                        bad_omit.append(v)
                else:
                    tv = _eval(b['V'], env)
                    # Parameter.decode masks; apply the decode expression with V bound
                    back = _eval(dec_expr, {'V': tv})
                    if back != v:
                        bad_rt.append(v)
            k = key(c.qname + '.encode', 'omitted %s <=> decode default' % fld, st.test)
            report.check(not bad_omit, 'C11-R2', k, enc.loc(st),
                         '%s.encode omits the %s parameter for value(s) %s but the decoder then assumes the default %r'
                         % (cname, fld.upper(), bad_omit[:6], dflt),
                         detail='domain %d values, default %r' % (len(dom), dflt))
            k2 = key(c.qname, 'decode(encode(%s)) identity' % fld, b['V'], dec_expr)
            report.check(not bad_rt, 'C11-R2', k2, enc.loc(st),
                         '%s: value transform %s / %s is not inverse for %s' % (cname, norm(b['V']), norm(dec_expr), bad_rt[:6]))
            # the same guard must be used by __len__ (else R1 catches it); record for evidence
    report.floor('C11-R2', n, 4)
    # PAX: miu property/setter inverse, lto, wks
    c = prog.cls(PDU + '.ParameterExchange')
    get = prog.lookup(c, 'miu')
    st = prog.lookup_setter(c, 'miu')
    gexpr = [x for x in walk_no_nested(get.node) if isinstance(x, ast.Return)][0].value
    sexpr = [x for x in walk_no_nested(st.node) if isinstance(x, ast.Assign)][0].value
    bad = []
    for v in FIELD_DOMAINS['miu']:
        miux = _eval(sexpr, {'value': v})
        back = _eval(gexpr, {'self._miux': miux})
        if back != v or not (0 <= miux <= 0x7FF):
            bad.append(v)
    report.check(not bad, 'C11-R2', key(c.qname, 'miu setter/getter inverse over 128..2175'), get.loc(),
                 'ParameterExchange.miu setter/getter are not inverse for %s' % bad[:6])
    dflt = _eval(gexpr, {'self._miux': None})
    report.check(dflt == 128, 'C11-R2', key(c.qname, 'miu default 128 when MIUX absent'), get.loc(),
                 'ParameterExchange.miu without MIUX TLV is %r, LLCP default is 128' % dflt)


# ------------------------------------------------------------------------------ R3
def _size_facts(cfg, f):
    """Guards on `size` in a decode function: list of (pass_edges, lower_bound)."""
    facts = []
    hs = None
    for expr, tn in cfg.test_nodes.items():
        if not isinstance(expr, ast.Compare) or len(expr.ops) != 1:
            continue
        if norm(expr.left) != 'size':
            continue
        rhs = expr.comparators[0]
        n = try_const(rhs)
        if n is None and norm(rhs) == 'cls.header_size':
            n = 'HS'
        if n is None:
            continue
        op = type(expr.ops[0])
        if op is ast.Lt:        # size < n  -> raise ; passing = false, bound n
            facts.append(([(tn, 'false')], n))
        elif op is ast.NotEq:   # size != n -> raise
            facts.append(([(tn, 'false')], n))
        elif op is ast.GtE:     # while size >= n
            facts.append(([(tn, 'true')], n))
        elif op is ast.Gt and isinstance(n, int):
            facts.append(([(tn, 'true')], n + 1))
        elif op is ast.Eq:
            facts.append(([(tn, 'true')], n))
    # relational: `V > size - K` refused (size >= V + K) together with `V >= M` passed gives size >= M + K, for a local V that is
    # bound once (the length field just read)
    rel, low = [], []
    for expr, tn in cfg.test_nodes.items():
        if not (isinstance(expr, ast.Compare) and len(expr.ops) == 1 and isinstance(expr.left, ast.Name)):
            continue
        v = expr.left.id
        binds = [a for a in walk_no_nested(f.node) if isinstance(a, ast.Assign) and any(
            isinstance(x, ast.Name) and x.id == v for t in a.targets for x in ast.walk(t))]
        if len(binds) != 1:
            continue
        rhs = expr.comparators[0]
        lin = linear(rhs)
        if isinstance(expr.ops[0], ast.Gt) and lin.get('size') == 1 and set(lin) <= {'size', '1'}:
            rel.append((v, tn, -lin.get('1', 0)))           # V > size - K refused: size >= V + K
        m = try_const(rhs)
        if isinstance(m, int) and isinstance(expr.ops[0], (ast.GtE, ast.Gt)):
            low.append((v, tn, m if isinstance(expr.ops[0], ast.GtE) else m + 1))
    for v, t1, k in rel:
        for v2, t2, m in low:
            if v == v2:
                facts.append((('AND', [(t1, 'false')], [(t2, 'true')]), m + k))
    return facts


def _size_assign_nodes(cfg, f):
    out = []
    for n in cfg.nodes:
        if n.kind == 'stmt' and isinstance(n.ast, (ast.Assign, ast.AugAssign)):
            tg = n.ast.targets if isinstance(n.ast, ast.Assign) else [n.ast.target]
            for t in tg:
                for x in ast.walk(t):
                    if isinstance(x, ast.Name) and x.id == 'size':
                        out.append(n)
    return out


def _bound_at(cfg, f, target, header_size, extra_guards=()):
    """Best proven lower bound of `size` when `target` executes."""
    best = 0
    assigns = _size_assign_nodes(cfg, f)
    guards = list(_size_facts(cfg, f)) + list(extra_guards)
    for edges, n in guards:
        if n == 'HS':
            n = header_size
        if not isinstance(n, int):
            continue
        if isinstance(edges, tuple) and edges and edges[0] == 'AND':
            if any(target in cfg.reachable(cfg.entry, avoid_edges=e_) for e_ in edges[1:]):
                continue
            edges = [x for e_ in edges[1:] for x in e_]
            if any(a is not target and a in cfg.reachable() and any(target in cfg.reachable(a, avoid_edges=[x]) for x in edges) for a in assigns):
                continue
            best = max(best, n)
            continue
        reach = cfg.reachable(cfg.entry, avoid_edges=edges)
        if target in reach:
            continue
        okk = True
        for a in assigns:
            if a is target:
                continue
            if a in cfg.reachable() and target in cfg.reachable(a, avoid_edges=edges):
                okk = False
                break
        if okk:
            best = max(best, n)
    return best


def _window_invariant(f):
    """All assignments to offset/size keep offset+size constant: `offset, size = offset + E, size - E`."""
    bad = []
    for st in walk_no_nested(f.node):
        if isinstance(st, ast.Assign):
            names = set(x.id for t in st.targets for x in ast.walk(t) if isinstance(x, ast.Name))
            if names & {'offset', 'size'}:
                b = match(st, 'offset, size = ($A, $B)')
                if b is not None:
                    la, lb = linear(b['A']), linear(b['B'])
                    tot = {k: la.get(k, 0) + lb.get(k, 0) for k in set(la) | set(lb)}
                    tot = {k: v for k, v in tot.items() if v}
                    if tot != {'offset': 1, 'size': 1}:
                        b = None
                if b is None:
                    b2 = match(st, 'size = len(data) - offset')
                    b3 = match(st, 'size = len(data) if size is None else size')
                    if b3 is None and match(st, 'size = len(data)') is not None:
                        # the same default written as a statement: `if size is None: size = len(data)`
                        par = getattr(st, '_parent', None)
                        if isinstance(par, ast.If) and norm(par.test) == 'size is None' and [x for x in par.body if x is not st] == [] and not par.orelse:
                            b3 = {}
                    if b2 is None and b3 is None:
                        bad.append(st)
    return bad


def rule_window(report, prog, res):
    classes = pdu_classes(prog)
    funcs = []
    for c in classes:
        d = c.methods.get('decode')
        if d is not None:
            funcs.append((c, d))
    base = prog.cls(PDU + '.ProtocolDataUnit')
    numb = prog.cls(PDU + '.NumberedProtocolDataUnit')
    funcs.append((base, base.methods['decode_header']))
    funcs.append((numb, numb.methods['decode_header']))
    funcs.append((None, prog.func(PDU + '.decode')))
    n_reads = 0
    tlv_loops = 0
    for c, f in funcs:
        cfg = cfg_of(f)
        hs = None
        if c is not None:
            hsn = prog.lookup(c, 'header_size')
            hs = try_const(hsn[2]) if isinstance(hsn, tuple) else None
        for st in _window_invariant(f):
            report.fail('C11-R3', key(f.qname, 'window invariant', st), f.loc(st),
                        'assignment changes offset/size without preserving the window end offset+size')
        # decode_header(data, offset, size) as a guard: establishes size >= header_size(cls)
        extra = []
        for call, b in find(f.node, 'cls.decode_header(data, offset, size)'):
            node = cfg_node_for(cfg, call)
            extra.append(([(node, 'next')], hs))
        for n in walk_no_nested(f.node):
            need = None
            what = None
            if isinstance(n, ast.Subscript) and isinstance(n.value, ast.Name) and n.value.id == 'data' \
                    and isinstance(n.ctx, ast.Load):
                # reads inside raise statements only format error messages
                st = enclosing_stmt(n)
                if isinstance(st, ast.Raise):
                    continue
                n_reads += 1
                if isinstance(n.slice, ast.Slice):
                    up = norm(n.slice.upper) if n.slice.upper is not None else None
                    k = key(f.qname, 'slice bounded by window', n)
                    report.check(up == 'offset + size', 'C11-R3', k, f.loc(n),
                                 'slice %s is not bounded by the PDU window end offset+size' % norm(n))
                    continue
                b = match(n.slice, 'offset + $K')
                kk = 0 if norm(n.slice) == 'offset' else (try_const(b['K']) if b else None)
                if kk is None:
                    report.fail('C11-R3', key(f.qname, 'index form', n), f.loc(n),
                                'read %s has an index the window rule cannot bound' % norm(n))
                    continue
                need, what = kk + 1, norm(n)
            elif isinstance(n, ast.Call) and norm(n.func) in ('struct.unpack_from', 'unpack_from') \
                    and len(n.args) >= 2 and norm(n.args[1]) == 'data':
                n_reads += 1
                fmt = try_const(n.args[0])
                off = n.args[2] if len(n.args) > 2 else None
                b = match(off, 'offset + $K') if off is not None else None
                kk = 0 if (off is not None and norm(off) == 'offset') else (try_const(b['K']) if b else None)
                if not isinstance(fmt, str) or kk is None:
                    report.fail('C11-R3', key(f.qname, 'unpack_from form', n), f.loc(n),
                                'read %s has a format/offset the window rule cannot bound' % norm(n))
                    continue
                need, what = kk + struct.calcsize(fmt), norm(n)
            elif isinstance(n, ast.Call) and any(norm(a) == 'data' for a in n.args) \
                    and norm(n.func) not in ('len', 'hexlify', 'bytes', 'bytearray'):
                # data handed to another decoder: must carry a size that fits the window
                n_reads += 1
                fn = norm(n.func)
                if fn == 'cls.decode_header':
                    ok = [norm(a) for a in n.args] == ['data', 'offset', 'size']
                    report.check(ok, 'C11-R3', key(f.qname, 'decode_header gets the window', n), f.loc(n),
                                 'decode_header is not called with (data, offset, size)')
                    continue
                if fn == 'pdu_type.decode':
                    ok = [norm(a) for a in n.args] == ['data', 'offset', 'size']
                    report.check(ok, 'C11-R3', key(f.qname, 'dispatch passes the window', n), f.loc(n),
                                 'dispatch does not pass (data, offset, size)')
                    continue
                if fn == 'Parameter.decode':
                    tlv_loops += 1
                    # the TLV length L must be compared with the remaining size before V is used
                    cmp_found = False
                    loop = enclosing_stmt(n)
                    body_owner = getattr(loop, '_parent', None)
                    for x in walk_no_nested(body_owner if isinstance(body_owner, (ast.While, ast.For)) else f.node):
                        if isinstance(x, ast.Compare) and 'L' in [y.id for y in ast.walk(x) if isinstance(y, ast.Name)] \
                                and 'size' in [y.id for y in ast.walk(x) if isinstance(y, ast.Name)]:
                            cmp_found = True
                    has_size_arg = len(n.args) >= 3 or any(kw.arg == 'size' for kw in n.keywords)
                    report.check(cmp_found or has_size_arg, 'C11-R3',
                                 key(f.qname, 'TLV length checked against remaining size', n), f.loc(n),
                                 'TLV decoded by %s without limiting it to the PDU window: a length byte larger than the '
                                 'remaining size reads bytes that belong to the next PDU of an aggregate' % norm(n))
                    continue
                if fn == 'decode':
                    # sub-PDU of an aggregate: its size must be compared with the remaining size
                    sz = norm(n.args[2]) if len(n.args) > 2 else None
                    cmp_found = False
                    for x in walk_no_nested(f.node):
                        if isinstance(x, ast.Compare) and sz and sz in [y.id for y in ast.walk(x) if isinstance(y, ast.Name)] \
                                and 'size' in [y.id for y in ast.walk(x) if isinstance(y, ast.Name)]:
                            cmp_found = True
                    report.check(cmp_found, 'C11-R3', key(f.qname, 'sub-PDU size checked against remaining size', n),
                                 f.loc(n), 'aggregated sub-PDU length %s is not compared with the remaining size of the '
                                 'aggregate (only with the end of the whole buffer)' % sz)
                    continue
                report.fail('C11-R3', key(f.qname, 'data escapes to', n), f.loc(n),
                            'data passed to %s which the window rule does not know' % fn)
                continue
            if need is not None:
                target = cfg_node_for(cfg, n)
                have = _bound_at(cfg, f, target, hs, extra)
                # decode() classmethods are reached through pdu.decode() which guarantees size >= 2,
                # but the rule is local: only guards inside the function count.
                report.check(have >= need, 'C11-R3', key(f.qname, 'read within window', what), f.loc(n),
                             'read %s needs size >= %d but only size >= %d is established on every path'
                             % (what, need, have), detail='need %d have %d' % (need, have))
    # header_size agrees with the format decode_header reads
    for c in classes:
        dh = prog.lookup(c, 'decode_header')
        hsn = prog.lookup(c, 'header_size')
        hs = try_const(hsn[2]) if isinstance(hsn, tuple) else None
        fmts = [try_const(x.args[0]) for x, b in find(dh.node, 'struct.unpack_from($F, data, offset)')]
        okk = len(fmts) == 1 and isinstance(fmts[0], str) and struct.calcsize(fmts[0]) == hs
        report.check(okk, 'C11-R3', key(c.qname, 'header_size == bytes read by decode_header'), dh.loc(),
                     '%s: header_size %r but decode_header reads %r' % (c.name, hs, fmts))
    # a length field is used as it was read: re-writing it (clamping to the remaining size, say) turns a malformed frame into a
    # different, accepted one instead of a DecodeError
    for c, f in funcs:
        for name in ('pdu_size', 'L'):
            binds = [st for st in walk_no_nested(f.node) if isinstance(st, (ast.Assign, ast.AugAssign)) and
                     any(isinstance(x, ast.Name) and x.id == name and isinstance(x.ctx, ast.Store)
                         for t in (st.targets if isinstance(st, ast.Assign) else [st.target]) for x in ast.walk(t))]
            if not binds:
                continue
            bad = [st for st in binds if not (isinstance(st, ast.Assign) and any(w in norm(st.value) for w in ('struct.unpack_from(', 'Parameter.decode(')))]
            report.check(not bad, 'C11-R3', key(f.qname, 'length field %s is used as decoded' % name), f.loc(bad[0]) if bad else f.loc(),
                         '%s re-writes the decoded length field: `%s` -- a frame whose length field does not fit is accepted in altered form instead '
                         'of being rejected with DecodeError' % (f.qname, norm(bad[0]) if bad else ''))
    pd = prog.func(PDU + '.Parameter.decode')
    has_size = any(a.arg == 'size' for a in pd.node.args.args)
    guards = [i for i in ast.walk(pd.node) if isinstance(i, ast.If) and {'L', 'size'} <= set(x.id for x in ast.walk(i.test) if isinstance(x, ast.Name))
              and isinstance(i.body[-1], ast.Raise)]
    report.check(has_size and len(guards) >= 1, 'C11-R3', key(pd.qname, 'a TLV longer than the size it is given is rejected'), pd.loc(),
                 'Parameter.decode does not compare the TLV length with the remaining size it is given')
    # ... and exactly: T and L take two byte, so the TLV fits iff 2 + L <= size
    exact = False
    for g in guards:
        for cmp_ in [x for x in ast.walk(g.test) if isinstance(x, ast.Compare) and len(x.ops) == 1]:
            d = linear(cmp_.left)
            for k, v in linear(cmp_.comparators[0]).items():
                d[k] = d.get(k, 0) - v
            d = {k: v for k, v in d.items() if v}
            op = type(cmp_.ops[0])
            # reject iff 2 + L > size  <=>  L - size + 2 > 0  <=>  L - size + 1 >= 0  (and the mirrored forms)
            if (op is ast.Gt and d == {'L': 1, 'size': -1, '1': 2}) or (op is ast.GtE and d == {'L': 1, 'size': -1, '1': 1}) or \
                    (op is ast.Lt and d == {'L': -1, 'size': 1, '1': -2}) or (op is ast.LtE and d == {'L': -1, 'size': 1, '1': -1}):
                exact = True
    report.check(exact or not guards, 'C11-R3', key(pd.qname, 'the TLV fits iff 2 + L <= size'), pd.loc(guards[0]) if guards else pd.loc(),
                 'Parameter.decode compares the TLV length with the remaining size without counting the two bytes of T and L (or with another '
                 'offset): a TLV can run past the end of its PDU')
    report.floor('C11-R3 reads', n_reads, 30)
    report.floor('C11-R3 TLV loops', tlv_loops, 5)


# ------------------------------------------------------------------------------ R4
def rule_dispatch(report, prog, res):
    m = prog.modules[PDU]
    ent = m.names.get('pdu_type_map')
    if not ent or ent[0] != 'expr' or not isinstance(ent[1], ast.Dict):
        raise AnalysisError('C11-R4: pdu_type_map literal not found')
    d = ent[1]
    classes = pdu_classes(prog)
    mapped = {}
    for kx, vx in zip(d.keys, d.values):
        mapped[try_const(kx)] = norm(vx)
    for c in classes:
        if c.name == 'UnknownProtocolDataUnit':
            continue
        init = prog.lookup(c, '__init__')
        lit = None
        for call in ast.walk(init.node):
            if isinstance(call, ast.Call) and isinstance(call.func, ast.Attribute) and call.func.attr == '__init__' \
                    and call.args:
                lit = try_const(call.args[0])
        okk = lit is not None and mapped.get(lit) == c.name
        report.check(okk, 'C11-R4', key(c.qname, 'pdu_type_map[ptype] is this class'), init.loc(),
                     '%s passes ptype %r to the base constructor but pdu_type_map[%r] is %r'
                     % (c.name, lit, lit, mapped.get(lit)))
    report.check(len(mapped) == len(set(mapped.values())), 'C11-R4', key('pdu_type_map', 'injective'), m.relpath,
                 'pdu_type_map maps two codes to one class')
    report.floor('C11-R4', len(mapped), 14)
    # dispatch expression: ptype = (unpack('>H') >> 6) & 0b1111 must invert dsap<<10|ptype<<6|ssap
    dec = prog.func(PDU + '.decode')
    # (decode() folded up to the table lookup for the header word encode_header builds: the type it extracts is the type that went in)
    from ..q import fold_lenient
    enc = prog.func(PDU + '.ProtocolDataUnit.encode_header')
    w = find(enc.node, "struct.pack('!H', $W)")
    if len(w) != 1:
        raise AnalysisError('C11-R5: header word not found in encode_header')
    wexpr = w[0][1]['W']
    dbody = [st for st in dec.node.body if not (isinstance(st, ast.Expr) and isinstance(st.value, ast.Constant))]
    bad = 0
    pexpr = None
    for st in walk_no_nested(dec.node):
        if isinstance(st, ast.Assign) and any(norm(t) == 'ptype' for t in st.targets):
            pexpr = st.value
    for dsap in (0, 1, 31, 32, 63):
        for ssap in (0, 1, 31, 32, 63):
            for pt in range(16):
                word = const(wexpr, {'self.dsap': dsap, 'self.ptype': pt, 'self.ssap': ssap})
                env = {'data': struct.pack('>H', word), 'offset': 0, 'size': None}
                fold_lenient(dbody, env, seeds=('data',), stop=lambda st: 'pdu_type_map' in norm(st))
                if env.get('ptype') != pt:
                    bad += 1
    if pexpr is None:
        pexpr = ast.Constant(value=None)
    report.check(bad == 0, 'C11-R5', key('pdu.decode', 'ptype extraction inverts encode_header', pexpr, wexpr),
                 dec.loc(), 'ptype extraction %s does not invert header word %s' % (norm(pexpr), norm(wexpr)))


# ------------------------------------------------------------------------------ R5
def rule_bitfields(report, prog, res):
    base = prog.cls(PDU + '.ProtocolDataUnit')
    numb = prog.cls(PDU + '.NumberedProtocolDataUnit')
    enc = base.methods['encode_header']
    dec = base.methods['decode_header']
    wexpr = find(enc.node, "struct.pack('!H', $W)")[0][1]['W']
    from ..q import fold_block

    def fbody(fn):
        return [st for st in fn.node.body if not (isinstance(st, ast.Expr) and isinstance(st.value, ast.Constant))]

    def folded(fn, env):
        try:
            return fold_block(fbody(fn), env)
        except Exception as e:      # noqa
            return ('notconst', str(e))
    bad = []
    for dsap in range(64):
        for ssap in range(64):
            for pt in (0, 5, 15):
                word = const(wexpr, {'self.dsap': dsap, 'self.ptype': pt, 'self.ssap': ssap})
                raw = struct.pack('!H', word)
                got = folded(dec, {'data': raw, 'offset': 0, 'size': None, 'cls.header_size': 2})
                if got != ('return', (dsap, ssap)):
                    bad.append((dsap, ssap, pt))
    report.check(not bad, 'C11-R5', key(base.qname, 'decode_header inverts encode_header over 64x64 SAPs'), dec.loc(),
                 'DSAP/SSAP extraction does not invert the header word for %s' % (bad[:4],),
                 detail='%d combinations evaluated' % (64 * 64 * 3))
    # range checks equal the field widths
    for f, names, width in ((enc, ('self.dsap', 'self.ssap'), 63), (numb.methods['encode_header'], ('self.ns', 'self.nr'), 15)):
        limits = []
        for n in walk_no_nested(f.node):
            if isinstance(n, ast.Compare) and isinstance(n.ops[0], ast.Gt) and norm(n.left) in names:
                limits.append(try_const(n.comparators[0]))
        report.check(len(limits) == 2 and set(limits) == {width}, 'C11-R5',
                     key(f.qname, 'range check equals field width', str(width)), f.loc(),
                     'encode_header range checks %r differ from the field maximum %d' % (limits, width))
    # sequence byte
    enc2 = numb.methods['encode_header']
    dec2 = numb.methods['decode_header']
    sexpr = find(enc2.node, "struct.pack('!B', $W)")[0][1]['W']
    bad = []
    for ns in range(16):
        for nr in range(16):
            seq = const(sexpr, {'self.ns': ns, 'self.nr': nr})
            got = folded(dec2, {'data': b'\x83\x21' + bytes([seq & 0xFF]), 'offset': 0, 'size': None, 'cls.header_size': 3})
            if not (got[0] == 'return' and isinstance(got[1], tuple) and len(got[1]) == 4 and got[1][2:] == (ns, nr)) or not (0 <= seq <= 255):
                bad.append((ns, nr))
    report.check(not bad, 'C11-R5', key(numb.qname, 'sequence field N(S)/N(R) inverse over 16x16'), dec2.loc(),
                 'N(S)/N(R) extraction does not invert the sequence byte for %s' % (bad[:4],))
    # FRMR nibbles: encode packs a<<4|b pairs, decode splits with >>4 and &15 in the same order
    fr = prog.cls(PDU + '.FrameReject')
    fe = fr.methods['encode']
    fd = fr.methods['decode']
    # encode folded for distinct field values, decode folded on the result: the constructor gets every field back in its own place
    init = fr.methods['__init__']
    init_params = [a.arg for a in init.node.args.args][1:]
    attr_of_param = {}
    for st in walk_no_nested(init.node):
        if isinstance(st, ast.Assign) and isinstance(st.targets[0], ast.Attribute) and isinstance(st.value, ast.Name):
            attr_of_param[st.value.id] = st.targets[0].attr
    fields = ['rej_flags', 'rej_ptype', 'ns', 'nr', 'vs', 'vr', 'vsa', 'vra']
    enc_fields, order = [], []
    for vals in ((1, 2, 3, 4, 5, 6, 7, 8), (15, 0, 14, 1, 13, 2, 12, 3), (0, 15, 0, 15, 0, 15, 0, 15)):
        env = {'self.' + k: v for k, v in zip(fields, vals)}
        env['__calls__'] = {'self.encode_header': lambda: b'\x20\xc0'}
        r = folded(fe, env)
        enc_fields.append(dict(zip(fields, vals)))
        if r[0] != 'return':
            order.append(r)
            continue
        env = {'data': bytes(r[1]), 'offset': 0, 'size': len(r[1]), 'cls.header_size': 2,
               '__calls__': {'cls.decode_header': lambda *a: (8, 0)}, '__funcs__': {'FrameReject': lambda *a: a}}
        d = folded(fd, env)
        if d[0] == 'return' and isinstance(d[1], tuple) and len(d[1]) == len(init_params):
            order.append({attr_of_param.get(p_): v for p_, v in zip(init_params, d[1]) if attr_of_param.get(p_) in fields})
        else:
            order.append(d)
    report.check(order == enc_fields, 'C11-R5', key(fr.qname, 'FRMR nibble layout encode == decode'), fd.loc(),
                 'FRMR encode packs %s but decode reads %s' % (enc_fields, order))


# ------------------------------------------------------------------------------ R6

class TlvFold(object):
    """Parameter.encode / Parameter.decode folded for concrete arguments -> ('return', value) | ('raise', text of the raised
    expression) | ('error', what the folded text itself raises: struct.error / IndexError) | ('notconst', reason)."""

    def __init__(self, prog):
        from ..q import fold_block, NotConst, FoldStructError
        self._fold, self._NotConst, self._Struct = fold_block, NotConst, FoldStructError
        par = prog.cls(PDU + '.Parameter')
        self.enc, self.dec = par.methods['encode'], par.methods['decode']
        self.consts = {}
        for st in par.node.body:
            if isinstance(st, ast.Assign) and isinstance(st.targets[0], ast.Tuple) and isinstance(st.value, ast.Call) and norm(st.value.func) == 'range':
                for nm, v in zip(st.targets[0].elts, range(*[try_const(a) for a in st.value.args])):
                    self.consts[nm.id] = v
            elif isinstance(st, ast.Assign) and isinstance(st.targets[0], ast.Name) and isinstance(try_const(st.value), int):
                self.consts[st.targets[0].id] = try_const(st.value)

    def _run(self, f, args):
        params = [a.arg for a in f.node.args.args]
        env = dict(zip(params, args))
        env.update({'Parameter.' + k: v for k, v in self.consts.items()})
        try:
            return self._fold(f.node.body, env)
        except self._Struct as e:
            return ('error', str(e))
        except self._NotConst as e:
            return ('notconst', str(e))
        except (IndexError, ValueError, TypeError, OverflowError) as e:
            return ('error', '%s: %s' % (type(e).__name__, e))

    def encode(self, t, v):
        return self._run(self.enc, [t, v])

    def decode(self, data, offset, size):
        return self._run(self.dec, [bytes(data), offset, size])

def rule_tlv(report, prog, res):
    par = prog.cls(PDU + '.Parameter')
    consts = class_consts(prog, par)
    enc = par.methods['encode']
    dec = par.methods['decode']
    env = {'Parameter.' + k: v for k, v in consts.items()}
    # encoder and decoder folded (checker's own evaluator, nfcsa.q.fold_block) for every fixed-size TLV type and sample values:
    # what the encoder writes is what the decoder reads back, and the decoder refuses the type with any other length
    tlv = TlvFold(prog)
    samples = {'VERSION': [0, 1, 0x12, 0xFF], 'LTO': [0, 1, 0x64, 0xFF], 'RW': [0, 1, 0x0F], 'OPT': [0, 1, 7], 'MIUX': [0, 1, 0x0102, 0x07FF],
               'WKS': [0, 1, 0x0102, 0xFFFF], 'SDRES': [(0, 0), (1, 2), (255, 63)]}
    fixed = 0
    for name in sorted(samples):
        t = consts.get(name)
        if t is None:
            continue
        fixed += 1
        why = None
        for v in samples[name]:
            r = tlv.encode(t, v)
            if r[0] != 'return' or not isinstance(r[1], (bytes, bytearray)):
                why = 'encode(%s, %r) folds to %r' % (name, v, r)
                break
            b = bytes(r[1])
            if len(b) < 3 or b[0] != t or b[1] != len(b) - 2:
                why = 'encode(%s, %r) writes %s: type / length octets do not describe the value' % (name, v, b.hex())
                break
            d = tlv.decode(b, 0, None)
            if d != ('return', (t, len(b) - 2, v)):
                why = 'encode(%s, %r) writes %s but the decoder reads %r' % (name, v, b.hex(), d[1] if d[0] == 'return' else d)
                break
            for other in (b[0:1] + bytes([b[1] + 1]) + b[2:] + b'\x00', b[0:1] + bytes([b[1] - 1]) + b[2:-1]):
                d = tlv.decode(other, 0, None)
                if not (d[0] == 'raise' and d[1].startswith('DecodeError(')):
                    why = 'the decoder accepts %s TLV %s (length %d instead of %d): %r' % (name, other.hex(), other[1], b[1], d)
                    break
            if why:
                break
        report.check(why is None, 'C11-R6', key(par.qname, 'TLV %s encode format == decode length/format' % name), enc.loc(),
                     'TLV %s: %s' % (name, why), detail='%d sample values folded through encode and decode' % len(samples[name]))
    report.floor('C11-R6', fixed, 7)
    # reserved bits: what the decoder hands on for an all-ones value equals the field width of the protocol
    want = {'VERSION': 0xFF, 'LTO': 0xFF, 'WKS': 0xFFFF, 'MIUX': 0x07FF, 'RW': 0x0F, 'OPT': 0x07}
    got = {}
    for name, w in sorted(want.items()):
        size = 2 if w > 0xFF else 1
        d = tlv.decode(bytes([consts.get(name, 0), size]) + b'\xff' * size, 0, None)
        got[name] = d[1][2] if d[0] == 'return' and isinstance(d[1], tuple) and len(d[1]) == 3 else d
    report.check(got == want, 'C11-R6', key(par.qname, 'reserved-bit masks 0x07FF/0x0F/0x07'), dec.loc(),
                 'Parameter.decode hands on %s for all-ones values, the field widths are %s' %
                 ({k: (hex(v) if isinstance(v, int) else v) for k, v in sorted(got.items())}, {k: hex(v) for k, v in sorted(want.items())}))
    # Parameter constants are 1..11 in protocol order
    want_c = dict(VERSION=1, MIUX=2, WKS=3, LTO=4, RW=5, SN=6, OPT=7, SDREQ=8, SDRES=9, ECPK=10, RN=11)
    report.check(consts == want_c, 'C11-R6', key(par.qname, 'TLV type codes (LLCP 1.3 table 5)'), par.module.relpath,
                 'Parameter type codes %r differ from the LLCP assignment' % consts)


# ------------------------------------------------------------------------------ R7

def rule_tlv_limits(report, prog, res):
    """R6 (limits): the TLV length field is one octet.  Where the encoder refuses a value because of its length, it refuses exactly
    the values whose length field would exceed 255 -- a tighter test rejects values the decoder accepts (decode then encode fails)."""
    par = prog.cls(PDU + '.Parameter')
    enc = par.methods['encode']
    n = 0
    for i in ast.walk(enc.node):
        if not (isinstance(i, ast.If) and isinstance(last_live(i.body), ast.Raise) and isinstance(i.test, ast.Compare) and len(i.test.ops) == 1):
            continue
        left = i.test.left
        if not (isinstance(left, ast.Call) and norm(left.func) == 'len' and len(left.args) == 1):
            continue
        c = try_const(i.test.comparators[0])
        if not isinstance(c, int):
            continue
        op = type(i.test.ops[0])
        first_refused = c + 1 if op is ast.Gt else (c if op is ast.GtE else None)
        if first_refused is None:
            continue
        name = norm(left)
        # the length field written for that value: second argument after the format of the struct.pack in the same block
        blk = getattr(i, '_parent', None)
        sibs = []
        for fld in ('body', 'orelse'):
            b = getattr(blk, fld, None)
            if isinstance(b, list) and i in b:
                sibs = b[b.index(i):]
        k = None
        for st in sibs:
            for call in ast.walk(st):
                if isinstance(call, ast.Call) and norm(call.func) == 'struct.pack' and len(call.args) >= 3:
                    lin = linear(call.args[2])
                    if lin.get(name) == 1 and set(lin) <= {name, '1'}:
                        k = lin.get('1', 0)
        n += 1
        report.check(k is not None and first_refused + k == 256, 'C11-R6', key(enc.qname, 'a value is refused iff its length field would exceed 255', i.test),
                     enc.loc(i), 'Parameter.encode refuses %s from %d on while the length field is %s + %s: the largest length the one octet field '
                     'can carry is refused (or an overlong one is packed)' % (name, first_refused, name, k))
    report.floor('C11-R6 limits', n, 2)

def _affine(expr, var):
    """expr as var + c (c int, coefficient 1): returns c, else None."""
    lin = dict(linear(expr))
    c = lin.pop('1', 0)
    if lin != {var: 1}:
        return None
    return c


def rule_field_pairs(report, prog, res):
    """R8: every PDU type that carries TLV parameters stores the decoded value V of parameter X in a field as V + c and hands
    exactly field - c to Parameter.encode(X, ...) (c = 0 everywhere but MIUX: miu = 128 + V): any other transformation on one
    side only (strip, mask, slice, default) makes decode(encode(p)) differ from p for some valid field value."""
    n = 0
    for c in pdu_classes(prog):
        dec, enc = c.methods.get('decode'), c.methods.get('encode')
        if dec is None or enc is None:
            continue
        stores = {}     # parameter name -> (field, offset c, node, list?)
        for st in walk_no_nested(dec.node):
            if not isinstance(st, ast.If):
                continue
            b = match(st.test, 'T == Parameter.$N')
            if b is None:
                continue
            pname = b['N'] if isinstance(b['N'], str) else norm(b['N'])
            body = live(st.body)
            ent = None
            if len(body) == 1 and isinstance(body[0], ast.Assign) and len(body[0].targets) == 1 and isinstance(body[0].targets[0], ast.Attribute):
                ent = (body[0].targets[0].attr, _affine(body[0].value, 'V'), body[0], False)
            elif len(body) == 1 and isinstance(body[0], ast.Expr) and isinstance(body[0].value, ast.Call) \
                    and isinstance(body[0].value.func, ast.Attribute) and body[0].value.func.attr == 'append' and len(body[0].value.args) == 1:
                ent = (norm(body[0].value.func.value).split('.')[-1], _affine(body[0].value.args[0], 'V'), body[0], True)
            else:
                ent = (None, None, st, False)
            stores[pname] = ent
        if not stores:
            continue
        for call in calls(enc.node):
            if norm(call.func) != 'Parameter.encode' or len(call.args) != 2:
                continue
            b = match(call.args[0], 'Parameter.$N')
            if b is None:
                continue
            pname = b['N'] if isinstance(b['N'], str) else norm(b['N'])
            n += 1
            k = key(c.qname, 'TLV %s: decode stores V + c, encode sends field - c' % pname)
            if pname not in stores:
                report.fail('C11-R8', k, enc.loc(call), '%s.encode emits a %s TLV that %s.decode does not store' % (c.name, pname, c.name))
                continue
            field, off, node, is_list = stores[pname]
            if field is None or off is None:
                report.fail('C11-R8', k, dec.loc(node), '%s.decode does not store the decoded %s value as V (+ constant): `%s`'
                            % (c.name, pname, norm(node)[:70]))
                continue
            arg = call.args[1]
            if is_list:
                # for x in self.<field>: ... Parameter.encode(X, x)
                loop = [l for l in ancestors(call) if isinstance(l, ast.For)]
                okk = bool(loop) and norm(loop[0].iter) == 'self.' + field and isinstance(arg, ast.Name) and norm(loop[0].target) == arg.id and off == 0
            else:
                eo = _affine(arg, 'self.' + field)
                okk = eo is not None and eo == -off
            report.check(okk, 'C11-R8', k, enc.loc(call),
                         '%s: decode stores %s as `%s` but encode sends `%s`: the two are not inverse, so a decoded PDU does not keep the '
                         'field value of the PDU that was encoded' % (c.name, pname, norm(node)[:60], norm(arg)))
        for pname, (field, off, node, is_list) in sorted(stores.items()):
            if not any(norm(cl.func) == 'Parameter.encode' and norm(cl.args[0]) == 'Parameter.' + pname for cl in calls(enc.node)):
                n += 1
                report.fail('C11-R8', key(c.qname, 'TLV %s stored by decode is emitted by encode' % pname), dec.loc(node),
                            '%s.decode stores a %s TLV that %s.encode never emits' % (c.name, pname, c.name))
    report.floor('C11-R8', n, 14)


def _agf_reference(buf, offset, size):
    """independent reader of an aggregate's information field -> list of member windows (offset, size) or 'DecodeError'"""
    pos, end = offset + 2, offset + size
    out = []
    while pos < end:
        if end - pos < 2:
            return 'DecodeError'
        ln = buf[pos] << 8 | buf[pos + 1]
        if ln > end - pos - 2:
            return 'DecodeError'
        if ln >= 2 and ((buf[pos + 2] << 8 | buf[pos + 3]) >> 6) & 15 == 2:
            return 'DecodeError'
        out.append((pos + 2, ln))
        pos += 2 + ln
    return out


def agf_sweep(prog):
    """AggregatedFrame.decode folded (checker's own evaluator, member decoding and the frame object modelled) for aggregates of up to
    three members of 0..5 octets at an offset inside a larger buffer, whole and cut at every octet: the member windows handed to
    decode() are those of an independent reader, and what that reader refuses raises DecodeError.  -> list of deviations."""
    memo = prog.__dict__.setdefault('_agf_sweep', {})
    if 'bad' in memo:
        return memo['bad']
    from ..q import fold_block, FoldObject
    f = prog.func(PDU + '.AggregatedFrame.decode')
    body = [st for st in f.node.body if not (isinstance(st, ast.Expr) and isinstance(st.value, ast.Constant))]
    bad = []
    n = 0
    import itertools
    members = []
    for ln in (0, 1, 2, 3, 5):
        for first in ((0x00, 0x00), (0x04, 0xC1), (0x00, 0x80), (0xFC, 0xBF)):      # SYMM, UI, nested AGF, other
            members.append(bytes(first[:ln]) + bytes(max(0, ln - 2)))
    members = sorted(set(members))
    # a member header of every PDU type (with SAP bits set around the type field)
    typed = [struct.pack('!H', (dsap << 10) | (pt << 6) | ssap) + tail for pt in range(16) for dsap, ssap in ((0, 0), (63, 63), (21, 42))
             for tail in (b'', b'\x01')]
    combos = [()] + [(m,) for m in members] + [(m,) for m in typed] + [(members[3], m) for m in typed[::2]] + \
        [c for c in itertools.product(members[::2], repeat=2)] + \
        [c for c in itertools.product(members[1::4], repeat=3)]
    for combo in combos:
        info = b''.join(struct.pack('!H', len(m)) + m for m in combo)
        whole = b'\x00\x80' + info
        for cut in sorted(set(range(2, len(whole) + 1))):
            for extra in (0, 1):
                frame = whole[:cut]
                if extra:
                    # a length field that announces one octet more than there is
                    if not combo or cut != len(whole):
                        continue
                    last = len(whole) - len(combo[-1]) - 2
                    frame = whole[:last] + struct.pack('!H', len(combo[-1]) + 1) + combo[-1]
                buf = b'\xaa\xbb\xcc' + frame + b'\x00\x02\x00\x00\x00\x01'
                seen = []

                class Frame(FoldObject):
                    def append(self, x):
                        seen.append(x)
                env = {'data': buf, 'offset': 3, 'size': len(frame), 'cls.header_size': 2,
                       '__calls__': {'cls.decode_header': lambda *a: (0, 0)},
                       '__funcs__': {'AggregatedFrame': lambda *a: Frame(), 'decode': lambda d, o, s_: (o, s_)}}
                n += 1
                try:
                    r = fold_block(body, env)
                except Exception as e:      # noqa
                    r = ('error', '%s: %s' % (type(e).__name__, e))
                want = _agf_reference(buf, 3, len(frame))
                if want == 'DecodeError':
                    okk = r[0] == 'raise' and r[1].startswith('DecodeError(')
                else:
                    okk = r[0] == 'return' and isinstance(r[1], FoldObject) and seen == want
                if not okk:
                    bad.append('aggregate %s (%d octets at offset 3 of %d): %s, the members are %s'
                               % (frame.hex(), len(frame), len(buf), ('decode() called for %s' % seen) if r[0] == 'return' else '%s %s' % (r[0], str(r[1])[:60]), want))
                    if len(bad) > 5:
                        memo['bad'], memo['n'] = bad, n
                        return bad
    memo['bad'], memo['n'] = bad, n
    return bad


def agf_retract(report, prog):
    """The window rules reason about `offset` / `size` pairs; an AggregatedFrame.decode written another way (cursor and end) is decided
    by the sweep instead."""
    if any('AggregatedFrame.decode' in f_.key for f_ in report.failures) and not agf_sweep(prog):
        report.retract(lambda f_: 'AggregatedFrame.decode' in f_.key and f_.rule in ('C11-R3', 'C11-R7', 'C10-R7', 'C07-R5', 'C07-R3'),
                       'AggregatedFrame.decode folded for %d aggregates (whole, cut at every octet, over-long length field) inside a larger '
                       'buffer: member windows and refusals equal those of an independent reader' % prog.__dict__['_agf_sweep']['n'])


def rule_agf_members(report, prog, rule='C11-R7'):
    """What AggregatedFrame.decode refuses *before* it decodes a member is exactly a nested AGF: the statements between the length
    test and the recursive decode() are folded by the checker for a member header of every PDU type (16 type codes x DSAP / SSAP
    samples): type 0010b (AGF) is refused, every other type falls through to decode().  Aggregation stays transparent for every
    PDU an LLC may aggregate, and the recursion stays bounded."""
    from ..q import fold_block
    f = prog.func(PDU + '.AggregatedFrame.decode')
    loops = [l for l in walk_no_nested(f.node) if isinstance(l, ast.While)]
    if len(loops) != 1:
        raise AnalysisError('%s: AggregatedFrame.decode loop not found' % rule)
    body = live(loops[0].body)
    idx = [i for i, st in enumerate(body) if any(isinstance(c, ast.Call) and norm(c.func) == 'decode' for c in ast.walk(st))]
    start = [i for i, st in enumerate(body) if isinstance(st, ast.If) and 'pdu_size' in norm(st.test) and 'size' in norm(st.test).replace('pdu_size', '')]
    if not idx:
        raise AnalysisError('%s: AggregatedFrame.decode: member decode call not found' % rule)
    if not start:
        # the length test itself is gone (reported by R3): fold what follows the read of the length field
        start = [i for i, st in enumerate(body) if isinstance(st, ast.Try)] or [-1]
    mid = [st for st in body[start[-1] + 1:idx[0]] if not (isinstance(st, ast.Assign) and 'pdu_size' in [norm(t) for t in st.targets])]
    bad = []
    n = 0
    for ptype in range(16):
        for dsap, ssap in ((0, 0), (1, 1), (32, 16), (63, 63)):
            hdr = (dsap << 10) | (ptype << 6) | ssap
            data = bytearray([0x00, 0x80, 0x00, 0x03, hdr >> 8, hdr & 255, 0x00])
            env = {'data': data, 'offset': 2, 'size': 5, 'pdu_size': 3}
            try:
                r = fold_block(mid, env)
            except NotConst as e:
                bad.append('cannot fold the member checks (%s)' % e)
                break
            n += 1
            refused = r[0] == 'raise'
            if refused != (ptype == 2):
                bad.append('member with PTYPE %s (DSAP %d, SSAP %d) is %s' % (format(ptype, '04b'), dsap, ssap,
                                                                              'refused' if refused else 'decoded recursively'))
        if bad and bad[-1].startswith('cannot'):
            break
    report.check(not bad, rule, key(f.qname, 'exactly a nested AGF is refused before the member is decoded'), f.loc(loops[0]),
                 'AggregatedFrame.decode: %s' % '; '.join(bad[:3]), detail='%d member headers folded' % n)


def _type_map(prog):
    m = prog.modules[PDU]
    for st in m.tree.body:
        if isinstance(st, ast.Assign) and norm(st.targets[0]) == 'pdu_type_map' and isinstance(st.value, ast.Dict):
            return st.value
    raise AnalysisError('C11: pdu_type_map not found')


def only_via_(cfg, node, edges):
    return node not in cfg.reachable(cfg.entry, avoid_edges=edges)


def rule_recursion(report, prog, res, rule='C11-R7'):
    """Call-graph cycles inside the decode cone must carry a tested depth parameter."""
    edges = {}
    funcs = {}
    start = prog.func(PDU + '.decode')
    work = [start]
    classes = pdu_classes(prog)
    while work:
        f = work.pop()
        if f.qname in funcs:
            continue
        funcs[f.qname] = f
        outs = set()
        for call in walk_no_nested(f.node):
            if not isinstance(call, ast.Call):
                continue
            fn = norm(call.func)
            tg = []
            if fn == 'pdu_type.decode':
                tg = [c.methods['decode'] for c in classes if 'decode' in c.methods]
            elif fn == 'decode':
                tg = [start]
            elif fn == 'cls.decode_header':
                tg = [c.methods['decode_header'] for c in prog.classes.values()
                      if c.module.name == PDU and 'decode_header' in c.methods]
            elif fn == 'Parameter.decode':
                tg = [prog.func(PDU + '.Parameter.decode')]
            for t in tg:
                outs.add(t.qname)
                work.append(t)
        edges[f.qname] = outs
    # find cycles (DFS)
    cycles = []
    color = {}

    def dfs(u, stack):
        color[u] = 1
        stack.append(u)
        for v in sorted(edges.get(u, ())):
            if color.get(v) == 1:
                cycles.append(stack[stack.index(v):] + [v])
            elif v not in color:
                dfs(v, stack)
        stack.pop()
        color[u] = 2
    dfs(start.qname, [])
    report.stats['decode_cone_functions'] = len(funcs)
    if not cycles:
        report.ok(rule, key('pdu.decode cone', 'no recursion'))
    for cyc in cycles:
        # bounded if some function on the cycle has a depth-like parameter that is compared
        bounded = False
        for q in cyc:
            f = funcs[q]
            for pn in f.params:
                if pn in ('depth', 'level', 'nesting'):
                    for n in walk_no_nested(f.node):
                        if isinstance(n, ast.Compare) and pn in [x.id for x in ast.walk(n) if isinstance(x, ast.Name)]:
                            bounded = True
            # or the nested type is refused outright before the recursive call: a raise guard on the sub-PDU's type field, compared
            # with the type code this decoder is registered under, that every path to the call has to pass
            if q.endswith('AggregatedFrame.decode'):
                cfg = cfg_of(f)
                own = [try_const(k) for k, v in zip(_type_map(prog).keys, _type_map(prog).values) if norm(v) == 'AggregatedFrame']
                calls_ = [cfg_node_for(cfg, c) for c in walk_no_nested(f.node) if isinstance(c, ast.Call) and norm(c.func) == 'decode']
                guards = []
                for e, t in cfg.test_nodes.items():
                    if isinstance(e, ast.Compare) and len(e.ops) == 1 and isinstance(e.ops[0], ast.Eq) and try_const(e.comparators[0]) in own \
                            and isinstance(t.owner, ast.If) and any(isinstance(y, ast.Raise) for y in t.owner.body) and 'ptype' in norm(e.left):
                        guards.append((t, 'false'))
                sizes = [(t, 'false') for e, t in cfg.test_nodes.items() if norm(e) in ('pdu_size >= 2', 'pdu_size > 1')]
                if guards and calls_ and all(c is not None and only_via_(cfg, c, guards + sizes) for c in calls_):
                    bounded = True
        report.check(bounded, rule, key('decode recursion', ' -> '.join(x.replace(PDU + '.', '') for x in cyc)),
                     funcs[cyc[0]].loc(),
                     'peer-controlled nesting recurses without bound: %s (a deeply nested aggregate raises RecursionError)'
                     % ' -> '.join(x.replace(PDU + '.', '') for x in cyc))
    return cycles


def run(report, prog, tier):
    res = Resolver(prog)
    rule_len(report, prog, res)
    rule_defaults(report, prog, res)
    rule_window(report, prog, res)
    rule_dispatch(report, prog, res)
    rule_bitfields(report, prog, res)
    rule_tlv(report, prog, res)
    rule_tlv_limits(report, prog, res)
    rule_field_pairs(report, prog, res)
    rule_recursion(report, prog, res)
    rule_agf_members(report, prog)
    agf_retract(report, prog)
    report.trusted += ['struct.calcsize / struct.pack semantics of the checker interpreter',
                       'induction: len(x.encode()) == len(x) for aggregated sub-PDUs (each class is itself an R1 obligation)']
    report.assumptions += ['field domains: RW 0..15, MIU 128..2175, SAP 0..63, N(S)/N(R) 0..15']


MUTANTS = [
    ('agf-member-type-test-two-bits', PDU, """                ptype = (struct.unpack_from('!H', data, offset+2)[0] >> 6) & 15
                if ptype == 0b0010:""", """                ptype = (struct.unpack_from('!H', data, offset+2)[0] >> 6) & 3
                if ptype == 0b10:""", 'C11-R7'),
    ('agf-member-type-test-dropped', PDU, """            if pdu_size >= 2:
                ptype = (struct.unpack_from('!H', data, offset+2)[0] >> 6) & 15
                if ptype == 0b0010:
                    raise DecodeError("AGF PDU must not contain an AGF PDU")
""", "", 'C11-R7'),
    ('connect-sn-normalised-on-decode', PDU, "                connect_pdu.sn = V\n", "                connect_pdu.sn = V.rstrip(b'\\0')\n", 'C11-R8'),
    ('dps-rn-truncated-on-encode', PDU, "data += Parameter.encode(Parameter.RN, self.rn)", "data += Parameter.encode(Parameter.RN, self.rn[:8])", 'C11-R8'),
    ('cc-miu-offset-one-sided', PDU, "                cc_pdu.miu = 128 + V", "                cc_pdu.miu = 127 + V", 'C11-R8'),
    # R1 __len__ vs encode
    ('dm-len-constant', PDU, """    def __len__(self):
        return 3

    def __str__(self):
        return super(DisconnectedMode, self).__str__() + \\""", """    def __len__(self):
        return 2

    def __str__(self):
        return super(DisconnectedMode, self).__str__() + \\""", 'C11-R1'),
    ('information-len-header', PDU, "        return 3 + len(self.data)", "        return 2 + len(self.data)", 'C11-R1'),
    ('connect-len-sn-header', PDU, """                (3 if self.rw is not None and self.rw != 1 else 0) +
                (2 + len(self.sn) if self.sn else 0))""", """                (3 if self.rw is not None and self.rw != 1 else 0) +
                (1 + len(self.sn) if self.sn else 0))""", 'C11-R1'),
    ('agf-len-without-length-fields', PDU, "        return 2 + sum([2+len(pdu) for pdu in self._aggregate])", "        return 2 + sum([len(pdu) for pdu in self._aggregate])", 'C11-R1'),
    ('snl-len-sdres-size', PDU, "        return 2 + (len(self.sdres) * 4) \\", "        return 2 + (len(self.sdres) * 3) \\", 'C11-R1'),
    ('dps-len-guard-differs', PDU, "                (2 + len(self.rn) if self.rn else 0))", "                (2 + len(self.rn) if self.rn is not None else 0))", 'C11-R1'),
    # R2 omitted parameter defaults
    ('connect-rw-guard-truthiness', PDU, [("""        if self.rw is not None and self.rw != 1:
            data += Parameter.encode(Parameter.RW, self.rw)
        if self.sn:""", """        if self.rw and self.rw != 1:
            data += Parameter.encode(Parameter.RW, self.rw)
        if self.sn:"""), ("""                (3 if self.rw is not None and self.rw != 1 else 0) +
                (2 + len(self.sn) if self.sn else 0))""", """                (3 if self.rw and self.rw != 1 else 0) +
                (2 + len(self.sn) if self.sn else 0))""")], None, 'C11-R2'),
    ('connect-miux-threshold', PDU, [("""        if self.miu and self.miu > 128:
            data += Parameter.encode(Parameter.MIUX, self.miu - 128)
        if self.rw is not None and self.rw != 1:
            data += Parameter.encode(Parameter.RW, self.rw)
        if self.sn:""", """        if self.miu and self.miu > 129:
            data += Parameter.encode(Parameter.MIUX, self.miu - 128)
        if self.rw is not None and self.rw != 1:
            data += Parameter.encode(Parameter.RW, self.rw)
        if self.sn:"""), ("""                (4 if self.miu and self.miu > 128 else 0) +
                (3 if self.rw is not None and self.rw != 1 else 0) +
                (2 + len(self.sn) if self.sn else 0))""", """                (4 if self.miu and self.miu > 129 else 0) +
                (3 if self.rw is not None and self.rw != 1 else 0) +
                (2 + len(self.sn) if self.sn else 0))""")], None, 'C11-R2'),
    # R3 window discipline
    ('information-payload-to-buffer-end', PDU, "        payload = bytes(data[offset+3:offset+size])", "        payload = bytes(data[offset+3:])", 'C11-R3'),
    ('ui-payload-to-buffer-end', PDU, "        payload = bytes(data[offset+2:offset+size])", "        payload = bytes(data[offset+2:])", 'C11-R3'),
    ('dm-size-test-weaker', PDU, """        if size != 3:
            raise DecodeError("DM PDU length error")""", """        if size < 2:
            raise DecodeError("DM PDU length error")""", 'C11-R3'),
    ('rr-header-without-size', PDU, [("""class ReceiveReady(NumberedProtocolDataUnit):""", """class ReceiveReady(NumberedProtocolDataUnit):  # mutated""")], None, 'C11-NONE'),
    ('connect-window-not-preserved', PDU, """                log.warning("invalid TLV %r in CONNECT PDU", (T, L, V))
            offset, size = offset + 2 + L, size - 2 - L""", """                log.warning("invalid TLV %r in CONNECT PDU", (T, L, V))
            offset, size = offset + 2 + L, size - 1 - L""", 'C11-R3'),
    ('header-size-constant', PDU, """class ProtocolDataUnit(object):
    header_size = 2""", """class ProtocolDataUnit(object):
    header_size = 1""", 'C11-R3'),
    # R4 dispatch table
    ('type-map-swapped', PDU, """    0b1101: ReceiveReady,
    0b1110: ReceiveNotReady,""", """    0b1110: ReceiveReady,
    0b1101: ReceiveNotReady,""", 'C11-R4'),
    ('type-map-entry-missing', PDU, """    0b1010: DataProtectionSetup,
""", "", 'C11-R4'),
    ('information-ptype-literal', PDU, "        super(Information, self).__init__(0b1100, dsap, ssap, ns, nr)", "        super(Information, self).__init__(0b1011, dsap, ssap, ns, nr)", 'C11-R4'),
    # R5 bit fields
    ('header-dsap-shift', PDU, "        return struct.pack('!H', self.dsap << 10 | self.ptype << 6 | self.ssap)", "        return struct.pack('!H', self.dsap << 9 | self.ptype << 6 | self.ssap)", 'C11-R5'),
    ('header-ssap-mask', PDU, "        return (dsap >> 2, ssap & 63)", "        return (dsap >> 2, ssap & 31)", 'C11-R5'),
    ('sequence-nibbles-swapped', PDU, "        return (dsap >> 2, ssap & 63, sequence >> 4, sequence & 15)", "        return (dsap >> 2, ssap & 63, sequence & 15, sequence >> 4)", 'C11-R5'),
    ('frmr-vs-vr-swapped', PDU, "            self.ns << 4 | self.nr, self.vs << 4 | self.vr,", "            self.ns << 4 | self.nr, self.vr << 4 | self.vs,", 'C11-R5'),
    ('ssap-range-check', PDU, """        if self.dsap > 63 or self.ssap > 63:
            raise EncodeError("pdu dsap and ssap field can not be > 63")""", """        if self.dsap > 63 or self.ssap > 127:
            raise EncodeError("pdu dsap and ssap field can not be > 63")""", 'C11-R5'),
    # R6 TLV codec
    ('miux-encoded-little-endian', PDU, "                return struct.pack('>BBH', T, 2, V)", "                return struct.pack('<BBH', T, 2, V)", 'C11-R6'),
    ('lto-decode-length', PDU, """            if L != 1:
                raise DecodeError("LTO TLV length error")""", """            if L != 2:
                raise DecodeError("LTO TLV length error")""", 'C11-R6'),
    ('sdres-encode-length-byte', PDU, "                return struct.pack('>BBBB', T, 2, tid, sap)", "                return struct.pack('>BBBB', T, 3, tid, sap)", 'C11-R6'),
    ('miux-mask', PDU, "                V = V & 0x07FF", "                V = V & 0x03FF", 'C11-R6'),
    # ('agf-entry-length-clamped': a clamp of pdu_size behind the `pdu_size > size - 2` refusal changes nothing -- an equivalent mutant, as
    # the aggregate sweep shows; it is not a violation and no longer listed)
]
MUTANTS = [m for m in MUTANTS if m[4] != 'C11-NONE']
